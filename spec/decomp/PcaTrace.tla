------------------------------ MODULE PcaTrace ------------------------------
(***************************************************************************)
(* C14 trace validation (impl -> spec).  Consumes the ndjson file written  *)
(* by `c14 gen` from the real decomposition::pca::PCA and                  *)
(* decomposition::svd::SVD.  Events:                                       *)
(*                                                                         *)
(*  Pca   one fit with n_components = k on the m x p integer matrix X,     *)
(*        mode "cov" | "corr"; Z = integer query rows.  When status = ok   *)
(*        and finite, q = outputs at several scales S (finest first):      *)
(*          P   components()            (p x k)                            *)
(*          Y   transform(X)            (m x k)                            *)
(*          Yf  transform(X) of the fit with k = p on the same data        *)
(*          YZ  transform(Z) in one call, YZs = rows transformed in two    *)
(*              separate calls and stacked                                 *)
(*  Tsvd  truncated SVD with n_components = k (k = p must be an error);    *)
(*        q = [S, Cm = components(), Y = transform(X), Vf, sv = V and      *)
(*        singular values of linalg's SVD of X, YZ, YZs]                   *)
(*                                                                         *)
(* OFFSET FAMILY.  PCA is invariant under a common per-column offset: the  *)
(* components, the variances and the centred transform of X + 1 off^T are  *)
(* those of X.  Field off (p integers, all 0 outside the family) says that *)
(* the library was fitted on X + off and asked to transform Z + off, with  *)
(* |off_j| = 2^20..2^30 times a small odd factor, i.e. |mean| / sd up to   *)
(* 1e9.  The event carries the small integers X, Z, and every clause       *)
(* (Orthonormal, AffineMap, ZeroMean, Uncorrelated, Ordered, EigenEquation *)
(* against the exact covariance of X, Captured, stacking) is evaluated on  *)
(* them unchanged -- so an implementation whose covariance loses digits to *)
(* the column means (one-pass second moments) is exposed, on both the      *)
(* m > p and the m <= p path and in both modes.                            *)
(*                                                                         *)
(* COLUMN-SCALE FAMILY.  Correlation-mode PCA is invariant under rescaling *)
(* any column by a positive factor c_j: the standardised data, hence V and *)
(* the transform, do not change, and the returned P_j = V_j / sd_j is      *)
(* divided by c_j.  Covariance-mode PCA is invariant under a common factor *)
(* c: components unchanged, transform multiplied by c.  Field cexp (p       *)
(* integers, all 0 outside the family) says that column j was multiplied   *)
(* by 2^cexp[j] (2^-40, 2^-30, 2^30: per column in correlation mode, one   *)
(* common exponent in covariance mode) before the library saw it and that  *)
(* the harness has mapped the outputs back exactly (P_j 2^cexp[j] resp. Y  *)
(* 2^-cexp).  The clauses are evaluated on the small integers, so a guard  *)
(* or threshold that is secretly absolute (a column of tiny absolute scale *)
(* treated as constant, a cut-off against machine epsilon) is exposed.     *)
(*                                                                         *)
(* GRADED FAMILY.  Field gexp (p integers, all 0 outside the family): in   *)
(* covariance mode and for the truncated SVD column j was multiplied by    *)
(* 2^gexp[j], gexp[j] in {0, -300, -600}, at least one column at 2^0 and at *)
(* least two graded.  This is NOT an invariance and nothing is descaled:   *)
(* the recorded P, Y belong to the graded problem.  A graded column        *)
(* contributes at most 2^-300 of the leading columns to every quantity the *)
(* clauses look at, which is far below the quantisation step, so the spec  *)
(* evaluates the same clauses with those columns of the data replaced by   *)
(* exact zeros (PcZeroGraded).  Finite outputs, orthonormal components,    *)
(* the affine map, decorrelation, ordering, the eigen-equation and the     *)
(* captured variance are all decided; only the components *within* the     *)
(* graded columns' own tiny subspace are left to orthonormality alone.     *)
(*                                                                         *)
(* ENTRY POINTS.  Field entry = "inherent" (PCA::fit, transform) or "api"  *)
(* (api::UnsupervisedEstimator::fit, api::Transformer::transform, fully    *)
(* qualified); same contract.  SIZE LADDER: data sets with 63..1025 rows   *)
(* of three-valued entries (fam "ladder<m>") run through the same clauses  *)
(* at whatever scale the 32-bit range guard admits.                        *)
(*                                                                         *)
(* All verdicts come from the operators of Pca.tla.                        *)
(***************************************************************************)
EXTENDS Pca, TLC, Json, IOUtils

Rec == ndJsonDeserialize(IOEnv.TRACE)

VARIABLES l, nbad, hits
vars == <<l, nbad, hits>>

VarsN2(X) == [j \in 1..PcNCols(X) |-> PcVarN2(X, j)]
\* query rows centred with the training column sums: m z_ij - s_j
CentredQueryWith(X, Z, s) == [i \in 1..Len(Z) |-> [j \in 1..PcNCols(X) |-> Len(X) * Z[i][j] - s[j]]]
CentredQuery(X, Z) == CentredQueryWith(X, Z, PcColSums(X))

\* graded family: the graded columns of an integer data matrix, as exact zeros
PcZeroGraded(Mx, gexp) ==
    IF \A j \in 1..Len(gexp) : gexp[j] = 0 THEN Mx
    ELSE [i \in 1..Len(Mx) |-> [j \in 1..Len(Mx[i]) |-> IF gexp[j] < 0 THEN 0 ELSE Mx[i][j]]]

\* ------------------------------------------------------------ Pca
PcaShapes(e, o) ==
    LET m == Len(e.X) p == PcNCols(e.X) IN
    /\ PcShape(o.P, p, e.k) /\ PcShape(o.Y, m, e.k) /\ PcShape(o.Yf, m, p)
    /\ PcShape(o.YZ, Len(e.Z), e.k) /\ PcShape(o.YZs, Len(e.Z), e.k)

PcaScaleOK(e, o, Cq, Cz, Vn) ==
    LET m == Len(e.X) p == PcNCols(e.X) IN
    /\ PcInRange(Cq, o.P, o.Y, m, e.k, o.S)
    /\ PcEnergyInRange(o.Yf, p)
    /\ PcSatMul(p * PcMaxAbsM(Cz), PcMaxAbsM(o.P) + 1) < PcCap /\ PcSatMul(m, PcMaxAbsM(o.YZ) + 1) < PcCap
    /\ (e.mode = "corr" => PcStdInRange(o.P, Vn, m, o.S))

RECURSIVE PcaPick(_, _, _, _, _)
PcaPick(e, Cq, Cz, Vn, i) ==
    IF i > Len(e.q) THEN 0
    ELSE IF PcaScaleOK(e, e.q[i], Cq, Cz, Vn) THEN i ELSE PcaPick(e, Cq, Cz, Vn, i + 1)

PcaContract(e, o, Cq, Cz, Vn) ==
    LET m == Len(e.X) p == PcNCols(e.X) k == e.k S == o.S IN
    IF e.mode = "cov" /\ ~Orthonormal(o.P, k, S) THEN "Orthonormal"
    ELSE IF e.mode = "corr" /\ ~OrthonormalStd(o.P, Vn, m, k, S) THEN "OrthonormalStd"
    ELSE IF ~AffineMap(Cq, o.P, o.Y, m, k) THEN "AffineMap"
    ELSE IF ~ZeroMean(o.Y, k) THEN "ZeroMean"
    ELSE IF ~Uncorrelated(o.Y, k) THEN "Uncorrelated"
    ELSE IF ~Ordered(o.Y, k) THEN "Ordered"
    ELSE IF e.mode = "cov" /\ ~EigenEquation(Cq, o.P, o.Y, m, k, S) THEN "EigenEquation"
    ELSE IF k < p /\ ~Captured(o.Y, o.Yf, k) THEN "Captured"
    ELSE IF ~AffineMap(Cz, o.P, o.YZ, m, k) THEN "StackAffineMap"
    ELSE IF ~StackEqual(o.YZ, o.YZs) THEN "StackEqual"
    ELSE ""

PcaClauseAt(e, Cq, Cz, Vn) ==
    LET i == PcaPick(e, Cq, Cz, Vn, 1) IN
    IF i = 0 THEN "OutOfRange" ELSE PcaContract(e, e.q[i], Cq, Cz, Vn)

PcaClause(e) ==
    IF e.status # "ok" THEN "Status_" \o e.status
    ELSE IF ~e.fin THEN "NotFinite"
    ELSE IF \E i \in 1..Len(e.q) : ~PcaShapes(e, e.q[i]) THEN "Shape"
    ELSE IF e.mode = "corr" /\ \E j \in 1..PcNCols(e.X) : PcVarN2(e.X, j) = 0 THEN "Unconstrained"
    ELSE PcaClauseAt(e, PcZeroGraded(PcCentred(e.X), e.gexp), PcZeroGraded(CentredQuery(e.X, e.Z), e.gexp), VarsN2(e.X))

PcaHit(e, c) ==
    IF c \in {"OutOfRange", "Unconstrained"} THEN c
    ELSE IF e.mode = "corr" THEN (IF e.k < PcNCols(e.X) THEN "Pca_corr_k" ELSE "Pca_corr_full")
    ELSE IF Len(e.X) > PcNCols(e.X) THEN (IF e.k < PcNCols(e.X) THEN "Pca_cov_svd_k" ELSE "Pca_cov_svd_full")
    ELSE (IF e.k < PcNCols(e.X) THEN "Pca_cov_evd_k" ELSE "Pca_cov_evd_full")

\* ------------------------------------------------------------ Tsvd
TsvdShapes(e, o) ==
    LET m == Len(e.X) p == PcNCols(e.X) IN
    /\ PcShape(o.Cm, p, e.k) /\ PcShape(o.Y, m, e.k) /\ PcShape(o.Vf, p, p) /\ Len(o.sv) = p
    /\ PcShape(o.YZ, Len(e.Z), e.k) /\ PcShape(o.YZs, Len(e.Z), e.k)

TsvdScaleOK(e, o) ==
    /\ PcSvdInRange(e.X, o.Vf, o.sv, <<>>, o.S)
    /\ PcSvdInRange2(e.X, PcProject(PcZeroGraded(e.X, e.gexp), o.Vf))
    /\ PcEnergyInRange(o.Y, e.k)
    /\ PcSatMul(PcMaxAbsM(o.Cm) + 1, PcMaxAbsM(o.Cm) + 1) < PcCap \div (PcNCols(e.X) + 1)
    /\ PcSatMul(PcNCols(e.X) * PcMaxAbsM(e.Z), PcMaxAbsM(o.Cm) + 1) < PcCap

RECURSIVE TsvdPick(_, _)
TsvdPick(e, i) == IF i > Len(e.q) THEN 0 ELSE IF TsvdScaleOK(e, e.q[i]) THEN i ELSE TsvdPick(e, i + 1)

\* Xe, Ze: data and query rows with the graded columns as zeros
TsvdContract(e, o, W, Xe, Ze) ==
    LET k == e.k S == o.S IN
    IF ~Orthonormal(o.Cm, k, S) THEN "Orthonormal"
    ELSE IF ~LinearMap(Xe, o.Cm, o.Y, k) THEN "LinearMap"
    ELSE IF ~SingularBasis(Xe, o.Vf, W, S) THEN "SingularBasis"
    ELSE IF ~SingularValues(Xe, W, o.sv) THEN "SingularValues"
    ELSE IF ~Frobenius(Xe, o.Y, W, k) THEN "Frobenius"
    ELSE IF ~LinearMap(Ze, o.Cm, o.YZ, k) THEN "StackLinearMap"
    ELSE IF ~StackEqual(o.YZ, o.YZs) THEN "StackEqual"
    ELSE ""

TsvdClause(e) ==
    IF e.k >= PcNCols(e.X) THEN (IF e.status = "err" THEN "" ELSE "Reject_" \o e.status)
    ELSE IF e.status # "ok" THEN "Status_" \o e.status
    ELSE IF ~e.fin THEN "NotFinite"
    ELSE IF \E i \in 1..Len(e.q) : ~TsvdShapes(e, e.q[i]) THEN "Shape"
    ELSE LET i == TsvdPick(e, 1) IN
         IF i = 0 THEN "OutOfRange"
         ELSE TsvdContract(e, e.q[i], PcProject(PcZeroGraded(e.X, e.gexp), e.q[i].Vf),
                           PcZeroGraded(e.X, e.gexp), PcZeroGraded(e.Z, e.gexp))

TsvdHit(e, c) == IF c = "OutOfRange" THEN c ELSE IF e.k >= PcNCols(e.X) THEN "TsvdReject" ELSE "Tsvd"

\* ------------------------------------------------------------ the trace machine
Clause(e) == IF e.ev = "Pca" THEN PcaClause(e) ELSE IF e.ev = "Tsvd" THEN TsvdClause(e) ELSE "UnknownEvent"
HitOf(e, c) == IF e.ev = "Pca" THEN PcaHit(e, c) ELSE TsvdHit(e, c)
HitNames == {"Pca_cov_svd_k", "Pca_cov_svd_full", "Pca_cov_evd_k", "Pca_cov_evd_full", "Pca_corr_k", "Pca_corr_full",
             "Tsvd", "TsvdReject", "OutOfRange", "Unconstrained",
             \* second counter: membership of the offset / column-scale family, by code path
             "Offset_cov_svd", "Offset_cov_evd", "Offset_corr",
             "Scaled_cov_svd", "Scaled_cov_evd", "Scaled_corr_tall", "Scaled_corr_wide", "Plain",
             "Graded_cov_svd", "Graded_cov_evd", "Graded_tsvd",
             "Entry_api", "Entry_inherent", "Rows_upto_40", "Rows_63_257", "Rows_1023_1025", "Rows_other"}
RowsHit(e) == LET m == Len(e.X) IN
              IF m <= 40 THEN "Rows_upto_40" ELSE IF m >= 63 /\ m <= 257 THEN "Rows_63_257"
              ELSE IF m >= 1023 /\ m <= 1025 THEN "Rows_1023_1025" ELSE "Rows_other"
PcAllZero(v) == \A j \in 1..Len(v) : v[j] = 0
OffsetHit(e) ==
    IF ~PcAllZero(e.gexp) THEN (IF e.ev = "Tsvd" THEN "Graded_tsvd"
                                ELSE IF Len(e.X) > PcNCols(e.X) THEN "Graded_cov_svd" ELSE "Graded_cov_evd")
    ELSE IF e.ev # "Pca" \/ (PcAllZero(e.off) /\ PcAllZero(e.cexp)) THEN "Plain"
    ELSE LET fam == IF PcAllZero(e.cexp) THEN "Offset_" ELSE "Scaled_"
             tall == Len(e.X) > PcNCols(e.X) IN
         IF e.mode = "corr" THEN (IF fam = "Offset_" THEN "Offset_corr" ELSE IF tall THEN "Scaled_corr_tall" ELSE "Scaled_corr_wide")
         ELSE fam \o (IF tall THEN "cov_svd" ELSE "cov_evd")

Judge(e, c) ==
    /\ IF c \in {"", "OutOfRange", "Unconstrained"} THEN nbad' = nbad
       ELSE PrintT(<<"BAD", l, e.run, e.ev, c>>) /\ nbad' = nbad + 1
    /\ hits' = [hits EXCEPT ![HitOf(e, c)] = @ + 1, ![OffsetHit(e)] = @ + 1,
                            !["Entry_" \o e.entry] = @ + 1, ![RowsHit(e)] = @ + 1]

Step == /\ l <= Len(Rec)
        /\ Judge(Rec[l], Clause(Rec[l]))
        /\ l' = l + 1

Init == l = 1 /\ nbad = 0 /\ hits = [x \in HitNames |-> 0]
Next == Step
Spec == Init /\ [][Next]_vars
AtEnd == (l = Len(Rec) + 1) =>
            PrintT(<<"VERDICT", ToJson([consumed |-> l - 1, bad |-> nbad, hits |-> hits])>>)
=============================================================================
