CONSTANTS M = 4  K = 2  S = 8  Delta = 8
SPECIFICATION Spec
INVARIANT Sound
INVARIANT Sharp
CHECK_DEADLOCK FALSE
