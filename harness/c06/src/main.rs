use serde_json::json;
use smartcore::ensemble::random_forest_classifier::*;
use smartcore::ensemble::random_forest_regressor::*;
use smartcore::linalg::naive::dense_matrix::DenseMatrix;
fn main() {
    let x = DenseMatrix::from_2d_vec(&vec![vec![0.0, 1.0], vec![1.0, 0.0], vec![2.0, 5.0], vec![3.0, 2.0]]);
    let y = vec![-3.0, 4.0, 4.0, -3.0];
    let p = RandomForestClassifierParameters::default().with_n_trees(2).with_keep_samples(true).with_seed(5);
    let f = RandomForestClassifier::fit(&x, &y, p).unwrap();
    println!("{}", serde_json::to_string(&f).unwrap());
    let p = RandomForestRegressorParameters::default().with_n_trees(2).with_keep_samples(true).with_seed(5);
    let f = RandomForestRegressor::fit(&x, &y, p).unwrap();
    println!("{}", serde_json::to_string(&f).unwrap());
    let _ = json!({});
}
