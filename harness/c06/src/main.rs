//! C06 — random forests: seed-reproducibility and faithful aggregation of the member trees.
//!
//! `gen-fits <out.ndjson>`      impl -> spec.  Generates training sets and parameter settings,
//!     fits the real RandomForestClassifier / RandomForestRegressor (twice per seed, two seeds
//!     per setting, interleaved, plus late re-fits of early keys) and records for every fit
//!     the key (data id, parameters, seed) and a digest of everything observable, and for the
//!     first fit of every key the complete observation: the bootstrap membership table
//!     (`samples[]` of the serde dump), the predictions of every member tree (each element of
//!     `trees[]` deserialised into the public DecisionTree* type, public `predict`), the
//!     forest's `predict` on the training rows and on rows it has never seen, `predict_oob`.
//! `replay-spec <in.ndjson> <out.ndjson>`   spec -> impl.  Every input line is the observation
//!     record of a terminal state of the TLA+ model ForestAgg (member-tree predictions and
//!     membership bits chosen by TLC).  A real forest with exactly these member trees and this
//!     samples[] table is assembled through the public serde interface, the real `predict` /
//!     `predict_oob` are run and observed exactly like a fitted forest.
//!
//! `replay-file <in.ndjson> <out.ndjson>`  re-executes the events of a replay artefact.
//!
//! No property logic lives here.  Values are projected to integers (label values: exact;
//! regression values: fixed point round(v*2^16), with a flag where the value is not a usable
//! number); a digest is a hash of the serde dump and of the bit patterns of the predictions.
//! Whether anything recorded here is right is decided by spec/tree/ForestTrace.tla under TLC.
use rand::rngs::StdRng;
use rand::seq::SliceRandom;
use rand::Rng;
use serde_json::{json, Value};
use smartcore::ensemble::random_forest_classifier::{
    RandomForestClassifier, RandomForestClassifierParameters,
};
use smartcore::ensemble::random_forest_regressor::{
    RandomForestRegressor, RandomForestRegressorParameters,
};
use smartcore::api::{Predictor, SupervisedEstimator};
use smartcore::linalg::naive::dense_matrix::DenseMatrix;
use smartcore::tree::decision_tree_classifier::{DecisionTreeClassifier, SplitCriterion};
use smartcore::tree::decision_tree_regressor::DecisionTreeRegressor;
use vutil::*;

const FX: f64 = 65536.0;

// ---------------------------------------------------------------------------------------------
// projections

/// FNV-1a over bytes with two different offset bases: a 128-bit digest as a hex string.
fn digest_of(parts: &[&[u8]]) -> String {
    let mut h1: u64 = 0xcbf2_9ce4_8422_2325;
    let mut h2: u64 = 0x6c62_272e_07bb_0142;
    for p in parts {
        for &b in p.iter() {
            h1 = (h1 ^ b as u64).wrapping_mul(0x0000_0100_0000_01b3);
            h2 = (h2 ^ (b as u64).rotate_left(7) ^ 0x5f).wrapping_mul(0x0000_0100_0000_01b3);
        }
        h1 = (h1 ^ 0xff).wrapping_mul(0x0000_0100_0000_01b3);
        h2 = (h2 ^ 0xfe).wrapping_mul(0x0000_0100_0000_01b3);
    }
    format!("{:016x}{:016x}", h1, h2)
}

fn bits_of(v: &[f64]) -> Vec<u8> {
    let mut out = Vec::with_capacity(v.len() * 8);
    for x in v {
        out.extend_from_slice(&x.to_bits().to_le_bytes());
    }
    out
}

/// classifier values are label values, integers by construction of the data
fn proj_cls(v: f64) -> (bool, i64) {
    match int_exact(v) {
        Some(i) => (true, i),
        None => (false, 0),
    }
}

/// regression values in fixed point; not finite / out of the 32-bit budget -> flag
fn proj_reg(v: f64) -> (bool, i64) {
    if !v.is_finite() {
        return (false, 0);
    }
    let q = (v * FX).round();
    if q.abs() > 6.0e7 {
        return (false, 0);
    }
    (true, q as i64)
}

fn proj_vec(kind: &str, v: &[f64]) -> (bool, Vec<i64>, Vec<bool>) {
    let mut all = true;
    let mut vals = Vec::with_capacity(v.len());
    let mut fl = Vec::with_capacity(v.len());
    for &x in v {
        let (ok, q) = if kind == "cls" { proj_cls(x) } else { proj_reg(x) };
        all &= ok;
        vals.push(q);
        fl.push(ok);
    }
    (all, vals, fl)
}

fn mat(rows: &[Vec<f64>]) -> DenseMatrix<f64> {
    DenseMatrix::from_2d_vec(&rows.to_vec())
}

// ---------------------------------------------------------------------------------------------
// observation of a forest (fitted or assembled)

struct Observed {
    obs: Value,
    /// everything observable, including the recorded parameters
    digest: String,
    /// member trees, membership table and predictions only (no parameters, hence no seed):
    /// lets the driver measure whether different seeds gave different forests
    fdigest: String,
}

/// `dump` is the serde dump of the forest; `tree_pred(tree_json, x_all)` asks one member tree.
fn observe(
    kind: &str,
    dump: &Value,
    dump_text: &str,
    n_trees_param: usize,
    keep: bool,
    y: &[f64],
    n_train: usize,
    n_all: usize,
    y_slack: i64,
    relative: bool,
    label_codes: bool,
    tree_pred: &dyn Fn(&Value) -> Result<Vec<f64>, String>,
    pred: Result<Vec<f64>, String>,
    pred_again: Result<Vec<f64>, String>,
    oob: Result<Result<Vec<f64>, String>, String>,
) -> Observed {
    let trees: Vec<Value> = match dump.get("trees").and_then(|t| t.as_array()) {
        Some(a) => a.clone(),
        None => {
            eprintln!("forest dump has no trees[] array: the harness no longer matches the library");
            std::process::exit(2);
        }
    };
    let (has_mask, mask): (bool, Vec<Vec<bool>>) = match dump.get("samples") {
        Some(Value::Array(a)) => (
            true,
            a.iter()
                .map(|row| {
                    row.as_array()
                        .map(|r| r.iter().map(|b| b.as_bool().unwrap_or(false)).collect())
                        .unwrap_or_default()
                })
                .collect(),
        ),
        _ => (false, vec![]),
    };
    let tree_depth: i64 = trees.iter().map(|t| t.get("depth").and_then(|d| d.as_i64()).unwrap_or(0)).max().unwrap_or(0);
    let raw_tp: Vec<Result<Vec<f64>, String>> = trees.iter().map(|t| tree_pred(t)).collect();
    // Per-row power-of-two scale of the regression values ("relative" families only, whose
    // values span hundreds of binary orders of magnitude): row r is recorded as
    // round(v * 2^(16 - rowExp[r])) with rowExp[r] = (largest binary exponent among the
    // finite values of that row) - 8.  Multiplying by a power of two is exact, and "is the
    // mean of" is invariant under it; clauses that compare with the targets are evaluated by
    // the specification on rows with rowExp = 0 only.
    let mut row_exp: Vec<i64> = vec![0; n_all];
    if relative && kind == "reg" {
        for (r, re) in row_exp.iter_mut().enumerate() {
            let mut vals: Vec<f64> = Vec::new();
            for t in raw_tp.iter() {
                if let Ok(v) = t {
                    if r < v.len() {
                        vals.push(v[r]);
                    }
                }
            }
            if let Ok(v) = &pred {
                if r < v.len() {
                    vals.push(v[r]);
                }
            }
            if let Ok(Ok(v)) = &oob {
                if r < v.len() {
                    vals.push(v[r]);
                }
            }
            let e = vals.iter().filter(|v| v.is_finite() && **v != 0.0).map(|v| bin_exp(*v)).max();
            *re = e.map(|e| e - 8).unwrap_or(0);
        }
    }
    // Classifier values of fitted forests are arbitrary float labels: they are recorded as
    // order-preserving codes, the 1-based dense rank of the value among ALL finite values of
    // this observation (training labels, member-tree predictions, forest predictions, OOB
    // predictions), with numeric equality (-0.0 = 0.0, like the library's own unique()).
    // Two values get the same code iff they are equal, however close they are.
    let mut universe: Vec<f64> = Vec::new();
    if label_codes && kind == "cls" {
        universe.extend(y.iter().cloned());
        for t in raw_tp.iter() {
            if let Ok(v) = t {
                universe.extend(v.iter().cloned());
            }
        }
        if let Ok(v) = &pred {
            universe.extend(v.iter().cloned());
        }
        if let Ok(Ok(v)) = &oob {
            universe.extend(v.iter().cloned());
        }
        universe.retain(|v| v.is_finite());
        universe.sort_by(|a, b| a.partial_cmp(b).unwrap());
        universe.dedup();
    }
    let code = |x: f64| -> (bool, i64) {
        if !x.is_finite() {
            return (false, 0);
        }
        match universe.binary_search_by(|p| p.partial_cmp(&x).unwrap()) {
            Ok(i) => (true, i as i64 + 1),
            Err(_) => (false, 0),
        }
    };
    let proj_rows = |v: &[f64]| -> (bool, Vec<i64>, Vec<bool>) {
        if kind == "cls" && label_codes {
            let mut all = true;
            let mut vals = Vec::with_capacity(v.len());
            let mut fl = Vec::with_capacity(v.len());
            for &x in v {
                let (ok, q) = code(x);
                all &= ok;
                vals.push(q);
                fl.push(ok);
            }
            return (all, vals, fl);
        }
        if kind == "cls" {
            return proj_vec(kind, v);
        }
        let mut all = true;
        let mut vals = Vec::with_capacity(v.len());
        let mut fl = Vec::with_capacity(v.len());
        for (r, &x) in v.iter().enumerate() {
            let e = if r < row_exp.len() { row_exp[r] } else { 0 };
            let scaled = if e == 0 { x } else { x * (2.0f64).powi(-(e as i32)) };
            let (ok, q) = proj_reg(scaled);
            all &= ok;
            vals.push(q);
            fl.push(ok);
        }
        (all, vals, fl)
    };
    let mut tp_ok = true;
    let mut tp: Vec<Vec<i64>> = Vec::new();
    let mut tp_bits: Vec<u8> = Vec::new();
    for t in raw_tp.iter() {
        match t {
            Ok(v) => {
                let (ok, q, _) = proj_rows(v);
                tp_ok &= ok;
                tp_bits.extend(bits_of(v));
                tp.push(q);
            }
            Err(_) => {
                tp_ok = false;
                tp.push(vec![]);
            }
        }
    }
    let (y_ok, yq, _) = if kind == "cls" && label_codes { proj_rows(y) } else { proj_vec(kind, y) };
    if !y_ok {
        eprintln!("generator produced a target outside the admitted range");
        std::process::exit(2);
    }
    let (pred_ok, predq, pred_bits) = match &pred {
        Ok(v) => {
            let (ok, q, _) = proj_rows(v);
            (ok, q, bits_of(v))
        }
        Err(m) => (false, vec![], m.as_bytes().to_vec()),
    };
    // the same forest asked a second time: digest of the exact bit patterns of both answers
    let pred_again_bits = match &pred_again {
        Ok(v) => bits_of(v),
        Err(m) => m.as_bytes().to_vec(),
    };
    let pd1 = digest_of(&[&pred_bits]);
    let pd2 = digest_of(&[&pred_again_bits]);
    let (oob_status, oobq, oob_fin, oob_bits) = match &oob {
        Ok(Ok(v)) => {
            let (_, q, f) = proj_rows(v);
            ("ok", q, f, bits_of(v))
        }
        Ok(Err(m)) => ("err", vec![], vec![], m.as_bytes().to_vec()),
        Err(m) => ("panic", vec![], vec![], m.as_bytes().to_vec()),
    };
    let digest = digest_of(&[
        dump_text.as_bytes(),
        &tp_bits,
        &pred_bits,
        oob_status.as_bytes(),
        &oob_bits,
    ]);
    let body = format!("{}|{}", dump.get("trees").unwrap_or(&Value::Null), dump.get("samples").unwrap_or(&Value::Null));
    let fdigest = digest_of(&[body.as_bytes(), &tp_bits, &pred_bits, oob_status.as_bytes(), &oob_bits]);
    let obs = json!({
        "kind": kind, "nTrees": n_trees_param, "trees": trees.len(),
        "nTrain": n_train, "nAll": n_all, "y": yq, "ySlack": y_slack, "rowExp": row_exp,
        "keep": keep, "hasMask": has_mask, "mask": mask,
        "tpOk": tp_ok, "treePred": tp,
        "predOk": pred_ok, "pred": predq, "predDigest": pd1, "predDigest2": pd2,
        "oobStatus": oob_status, "oobFin": oob_fin, "oob": oobq,
        "treeDepth": tree_depth,
    });
    Observed { obs, digest, fdigest }
}

fn res_vec(r: Result<Result<Vec<f64>, smartcore::error::Failed>, String>) -> Result<Vec<f64>, String> {
    match r {
        Ok(Ok(v)) => Ok(v),
        Ok(Err(e)) => Err(format!("err:{}", e)),
        Err(m) => Err(format!("panic:{}", m)),
    }
}

fn res_oob(
    r: Result<Result<Vec<f64>, smartcore::error::Failed>, String>,
) -> Result<Result<Vec<f64>, String>, String> {
    match r {
        Ok(Ok(v)) => Ok(Ok(v)),
        Ok(Err(e)) => Ok(Err(format!("{}", e))),
        Err(m) => Err(m),
    }
}

fn observe_cls(
    f: &RandomForestClassifier<f64>,
    n_trees: usize,
    keep: bool,
    xtr: &[Vec<f64>],
    xall: &[Vec<f64>],
    y: &[f64],
    via_trait: bool,
    label_codes: bool,
) -> Observed {
    let dump = serde_json::to_value(f).expect("serde dump");
    let text = serde_json::to_string(f).expect("serde dump");
    let xa = mat(xall);
    let xt = mat(xtr);
    let tree_pred = |t: &Value| -> Result<Vec<f64>, String> {
        let tree: DecisionTreeClassifier<f64> = match serde_json::from_value(t.clone()) {
            Ok(t) => t,
            Err(e) => {
                eprintln!("member tree does not deserialise into DecisionTreeClassifier: {}", e);
                std::process::exit(2);
            }
        };
        res_vec(guard(|| tree.predict(&xa)))
    };
    // both public entry points: the inherent method and the api::Predictor trait method
    let ask = || {
        if via_trait {
            <RandomForestClassifier<f64> as Predictor<DenseMatrix<f64>, Vec<f64>>>::predict(f, &xa)
        } else {
            f.predict(&xa)
        }
    };
    let pred = res_vec(guard(ask));
    let pred_again = res_vec(guard(ask));
    let oob = res_oob(guard(|| f.predict_oob(&xt)));
    observe("cls", &dump, &text, n_trees, keep, y, xtr.len(), xall.len(), 0, false, label_codes, &tree_pred, pred, pred_again, oob)
}

fn observe_reg(
    f: &RandomForestRegressor<f64>,
    n_trees: usize,
    keep: bool,
    xtr: &[Vec<f64>],
    xall: &[Vec<f64>],
    y: &[f64],
    relative: bool,
    via_trait: bool,
) -> Observed {
    let dump = serde_json::to_value(f).expect("serde dump");
    let text = serde_json::to_string(f).expect("serde dump");
    let xa = mat(xall);
    let xt = mat(xtr);
    let tree_pred = |t: &Value| -> Result<Vec<f64>, String> {
        let tree: DecisionTreeRegressor<f64> = match serde_json::from_value(t.clone()) {
            Ok(t) => t,
            Err(e) => {
                eprintln!("member tree does not deserialise into DecisionTreeRegressor: {}", e);
                std::process::exit(2);
            }
        };
        res_vec(guard(|| tree.predict(&xa)))
    };
    let ask = || {
        if via_trait {
            <RandomForestRegressor<f64> as Predictor<DenseMatrix<f64>, Vec<f64>>>::predict(f, &xa)
        } else {
            f.predict(&xa)
        }
    };
    let pred = res_vec(guard(ask));
    let pred_again = res_vec(guard(ask));
    let oob = res_oob(guard(|| f.predict_oob(&xt)));
    // targets that are multiples of 2^-16 are recorded exactly; anything else is rounded
    let y_slack = if y.iter().all(|v| (v * FX).fract() == 0.0) { 0 } else { 1 };
    observe("reg", &dump, &text, n_trees, keep, y, xtr.len(), xall.len(), y_slack, relative, false, &tree_pred, pred, pred_again, oob)
}

// ---------------------------------------------------------------------------------------------
// gen-fits

#[derive(Clone)]
struct Setting {
    kind: &'static str,
    n_trees: usize,
    m: Option<usize>,
    max_depth: Option<u16>,
    msl: usize,
    mss: usize,
    crit: usize, // 0 gini, 1 entropy, 2 classification error
    keep: bool,
}

struct Data {
    id: usize,
    /// features are numerators over `xden` (1: integers, 16: sixteenths), so that they can
    /// be recorded exactly
    xden: i64,
    x: Vec<Vec<f64>>,
    xq: Vec<Vec<f64>>,
    y: Vec<f64>,
    /// regression values span many binary orders of magnitude: record them with a per-row
    /// power-of-two scale (see `observe`)
    relative: bool,
    /// generator family (description of the input only)
    family: &'static str,
}

fn crit_of(c: usize) -> SplitCriterion {
    match c {
        0 => SplitCriterion::Gini,
        1 => SplitCriterion::Entropy,
        _ => SplitCriterion::ClassificationError,
    }
}

/// status, digest, observation of one real fit
/// `==` between forests: (this forest == itself, this forest == a second forest fitted with
/// the same data, parameters and seed); observed for first fits only
type EqObs = Option<(bool, bool)>;

fn fit_once(d: &Data, s: &Setting, seed: u64, via_trait: bool) -> (&'static str, String, String, Value, EqObs) {
    let xm = mat(&d.x);
    let mut xall = d.x.clone();
    xall.extend(d.xq.iter().cloned());
    if s.kind == "cls" {
        let p = RandomForestClassifierParameters {
            criterion: crit_of(s.crit),
            max_depth: s.max_depth,
            min_samples_leaf: s.msl,
            min_samples_split: s.mss,
            n_trees: s.n_trees as u16,
            m: s.m,
            keep_samples: s.keep,
            seed,
        };
        let fit = || {
            if via_trait {
                <RandomForestClassifier<f64> as SupervisedEstimator<
                    DenseMatrix<f64>,
                    Vec<f64>,
                    RandomForestClassifierParameters,
                >>::fit(&xm, &d.y, p)
            } else {
                RandomForestClassifier::fit(&xm, &d.y, p)
            }
        };
        match guard(fit) {
            Ok(Ok(f)) => {
                let o = observe_cls(&f, s.n_trees, s.keep, &d.x, &xall, &d.y, via_trait, true);
                let eq = if via_trait {
                    None
                } else {
                    let p2 = RandomForestClassifierParameters {
                        criterion: crit_of(s.crit),
                        max_depth: s.max_depth,
                        min_samples_leaf: s.msl,
                        min_samples_split: s.mss,
                        n_trees: s.n_trees as u16,
                        m: s.m,
                        keep_samples: s.keep,
                        seed,
                    };
                    let again = guard(|| RandomForestClassifier::fit(&xm, &d.y, p2));
                    let same = guard(|| f == f).unwrap_or(false);
                    let twin = match again {
                        Ok(Ok(f2)) => guard(|| f == f2).unwrap_or(false),
                        _ => false,
                    };
                    Some((same, twin))
                };
                ("ok", o.digest, o.fdigest, o.obs, eq)
            }
            Ok(Err(e)) => ("err", format!("err:{}", e), String::from("err"), json!({}), None),
            Err(m) => ("panic", format!("panic:{}", m), String::from("panic"), json!({}), None),
        }
    } else {
        let p = RandomForestRegressorParameters {
            max_depth: s.max_depth,
            min_samples_leaf: s.msl,
            min_samples_split: s.mss,
            n_trees: s.n_trees,
            m: s.m,
            keep_samples: s.keep,
            seed,
        };
        let fit = || {
            if via_trait {
                <RandomForestRegressor<f64> as SupervisedEstimator<
                    DenseMatrix<f64>,
                    Vec<f64>,
                    RandomForestRegressorParameters,
                >>::fit(&xm, &d.y, p)
            } else {
                RandomForestRegressor::fit(&xm, &d.y, p)
            }
        };
        match guard(fit) {
            Ok(Ok(f)) => {
                let o = observe_reg(&f, s.n_trees, s.keep, &d.x, &xall, &d.y, d.relative, via_trait);
                let eq = if via_trait {
                    None
                } else {
                    let p2 = RandomForestRegressorParameters {
                        max_depth: s.max_depth,
                        min_samples_leaf: s.msl,
                        min_samples_split: s.mss,
                        n_trees: s.n_trees,
                        m: s.m,
                        keep_samples: s.keep,
                        seed,
                    };
                    let again = guard(|| RandomForestRegressor::fit(&xm, &d.y, p2));
                    let same = guard(|| f == f).unwrap_or(false);
                    let twin = match again {
                        Ok(Ok(f2)) => guard(|| f == f2).unwrap_or(false),
                        _ => false,
                    };
                    Some((same, twin))
                };
                ("ok", o.digest, o.fdigest, o.obs, eq)
            }
            Ok(Err(e)) => ("err", format!("err:{}", e), String::from("err"), json!({}), None),
            Err(m) => ("panic", format!("panic:{}", m), String::from("panic"), json!({}), None),
        }
    }
}

fn base_key(d: &Data, s: &Setting) -> String {
    format!(
        "D{}:{}:T{}:m{}:d{}:l{}:s{}:c{}:k{}",
        d.id,
        s.kind,
        s.n_trees,
        s.m.map(|v| v as i64).unwrap_or(-1),
        s.max_depth.map(|v| v as i64).unwrap_or(-1),
        s.msl,
        s.mss,
        if s.kind == "cls" { s.crit as i64 } else { -1 },
        s.keep as u8
    )
}

fn ints(rows: &[Vec<f64>], den: i64) -> Vec<Vec<i64>> {
    let scaled: Vec<Vec<f64>> = rows.iter().map(|r| r.iter().map(|v| v * den as f64).collect()).collect();
    match intm(&scaled) {
        Some(m) => m,
        None => {
            eprintln!("generator produced a non-integer feature");
            std::process::exit(2);
        }
    }
}

/// description of the input: how many rows each class has, ascending (empty for regression)
fn class_sizes(kind: &str, y: &[f64]) -> Vec<usize> {
    if kind != "cls" {
        return vec![];
    }
    let mut labels: Vec<f64> = y.to_vec();
    labels.sort_by(|a, b| a.partial_cmp(b).unwrap());
    labels.dedup();
    let mut sizes: Vec<usize> = labels.iter().map(|l| y.iter().filter(|v| *v == l).count()).collect();
    sizes.sort();
    sizes
}

fn emit_fit(out: &mut Out, run: i64, full: bool, d: &Data, s: &Setting, seed: u64) {
    let base = base_key(d, s);
    let key = format!("{}#{}", base, seed);
    // first fits use the inherent fit/predict, later fits of the same key the api traits
    // (SupervisedEstimator::fit, Predictor::predict): both entry points must agree
    let (status, digest, fdigest, obs, eq) = fit_once(d, s, seed, !full);
    let (eq_self, eq_refit) = eq.unwrap_or((false, false));
    if full {
        let p = d.x[0].len();
        out.emit(json!({
            "run": run, "ev": "ForestFit", "key": key, "base": base, "digest": digest, "fdigest": fdigest, "status": status,
            "eqSelf": eq_self, "eqRefit": eq_refit,
            "in": {"kind": s.kind, "n": d.x.len(), "p": p, "xDen": d.xden, "X": ints(&d.x, d.xden), "Xq": ints(&d.xq, d.xden),
                   "y": proj_vec(s.kind, &d.y).1,
                   "classSizes": class_sizes(s.kind, &d.y), "relative": d.relative, "family": d.family,
                   "yHex": d.y.iter().map(|v| format!("{:016x}", v.to_bits())).collect::<Vec<String>>(),
                   "nTrees": s.n_trees, "m": s.m.map(|v| v as i64).unwrap_or(-1),
                   "maxDepth": s.max_depth.map(|v| v as i64).unwrap_or(-1),
                   "msl": s.msl, "mss": s.mss, "crit": s.crit, "keep": s.keep,
                   "seed": seed.to_string()},
            "obs": obs,
        }));
    } else {
        out.emit(json!({"run": run, "ev": "ForestRefit", "key": key, "base": base,
                        "digest": digest, "fdigest": fdigest, "status": status}));
    }
}

fn gen_data(r: &mut StdRng, id: usize, kind: &'static str, n: usize, p: usize, distinct: bool) -> Data {
    // features: small integers with many repeats, or pairwise distinct within each column
    let mut x = vec![vec![0.0f64; p]; n];
    for j in 0..p {
        if distinct {
            let mut perm: Vec<usize> = (0..n).collect();
            perm.shuffle(r);
            let step = r.gen_range(1..=3) as f64;
            let off = r.gen_range(-20..=20) as f64;
            // a third of the distinct columns are centred: 2*rank - (n-1), neighbours -1 / +1
            // (n even) straddle zero, so a split between them has the threshold exactly 0.0
            let centred = r.gen_bool(0.33);
            for i in 0..n {
                x[i][j] = if centred {
                    (2.0 * perm[i] as f64 - (n as f64 - 1.0)) * step
                } else {
                    perm[i] as f64 * step + off
                };
            }
        } else if p > 1 && r.gen_bool(0.1) {
            let c = r.gen_range(-3..=3) as f64;
            for row in x.iter_mut() {
                row[j] = c;
            }
        } else {
            // small levels: 0..vmax, or levels symmetric about zero (+-1 indicator coding,
            // centred levels {-2,-1,1,2}, {-3..3 without 0})
            let vmax = r.gen_range(1..=6);
            let sym: Option<&[f64]> = match r.gen_range(0..8) {
                0 => Some(&[-1.0, 1.0]),
                1 => Some(&[-2.0, -1.0, 1.0, 2.0]),
                2 => Some(&[-3.0, -2.0, -1.0, 1.0, 2.0, 3.0]),
                _ => None,
            };
            for row in x.iter_mut() {
                row[j] = match sym {
                    Some(levels) => levels[r.gen_range(0..levels.len())],
                    None => r.gen_range(0..=vmax) as f64,
                };
            }
        }
    }
    // query rows: perturbed training rows and rows outside the training range
    let nq = r.gen_range(1..=usize::min(8, n));
    let mut xq = Vec::new();
    for _ in 0..nq {
        let src = r.gen_range(0..n);
        let mut row = x[src].clone();
        for v in row.iter_mut() {
            match r.gen_range(0..4) {
                0 => *v += 1.0,
                1 => *v -= 1.0,
                2 => *v = r.gen_range(-40..=400) as f64,
                _ => {}
            }
        }
        xq.push(row);
    }
    // a quarter of the data sets have non-integer features: everything divided by 16 (exact)
    let xden: i64 = if r.gen_bool(0.25) { 16 } else { 1 };
    if xden != 1 {
        for row in x.iter_mut().chain(xq.iter_mut()) {
            for v in row.iter_mut() {
                *v /= xden as f64;
            }
        }
    }
    let signal: Vec<f64> = (0..n)
        .map(|i| x[i][0] + if p > 1 { x[i][p - 1] } else { 0.0 })
        .collect();
    let mut y = vec![0.0f64; n];
    if kind == "cls" {
        let k = r.gen_range(2..=usize::min(4, n));
        // arbitrary label values: distinct integers, non-contiguous, possibly negative
        let mut pool: Vec<i64> = (-9..=20).collect();
        pool.shuffle(r);
        let labels: Vec<f64> = pool[..k].iter().map(|&v| v as f64).collect();
        let mut order: Vec<usize> = (0..n).collect();
        order.sort_by(|&a, &b| signal[a].partial_cmp(&signal[b]).unwrap());
        let rare = r.gen_bool(0.5);
        for (pos, &i) in order.iter().enumerate() {
            let mut c = if rare {
                // the last class(es) get a single row each
                if pos + (k - 1) >= n { k - 1 - (n - 1 - pos) } else { 0 }
            } else {
                pos * k / n
            };
            if r.gen_bool(0.15) {
                c = r.gen_range(0..k);
            }
            y[i] = labels[c];
        }
        // every class must be present: plant one row per class
        let mut rows: Vec<usize> = (0..n).collect();
        rows.shuffle(r);
        for c in 0..k {
            y[rows[c]] = labels[c];
        }
    } else {
        // targets: integers, multiples of 1/8, or arbitrary reals
        let fam = r.gen_range(0..3);
        let eighth = fam == 1;
        let smax = signal.iter().fold(1.0f64, |a, &b| a.max(b.abs()));
        for i in 0..n {
            let noise = r.gen_range(-6..=6) as f64;
            let mut v = (signal[i] / smax * 90.0).round() + noise;
            if eighth {
                v += r.gen_range(0..8) as f64 / 8.0;
            }
            if fam == 2 {
                v += r.gen_range(-0.5f64..0.5f64);
            }
            y[i] = v;
        }
        // half of the target vectors are narrow and far from zero (a mean computed with a
        // wrong weight or divisor then leaves the range of the targets)
        if r.gen_bool(0.5) {
            let shrink = [1.0, 2.0, 4.0, 16.0][r.gen_range(0..4)];
            let centre = r.gen_range(-170..=170) as f64;
            for v in y.iter_mut() {
                *v = *v / shrink + centre;
                if fam != 2 {
                    *v = (*v * 8.0).round() / 8.0;
                }
                if fam == 0 {
                    *v = v.round();
                }
            }
        }
        for v in y.iter_mut() {
            *v = v.max(-200.0).min(200.0);
        }
        if r.gen_bool(0.1) {
            let c = y[0];
            for v in y.iter_mut() {
                *v = c;
            }
        }
    }
    Data { id, xden, x, xq, y, relative: false, family: "random" }
}

/// Replace the (integer) label values of a classification set by one of the float label
/// sets below, keeping which rows belong together: labels closer than machine epsilon,
/// non-integer labels between integer extremes, labels that collide under truncation,
/// adjacent floats, huge and tiny magnitudes, and a class written as both -0.0 and 0.0.
fn float_labels(r: &mut StdRng, d: &mut Data) {
    let mut old: Vec<f64> = d.y.clone();
    old.sort_by(|a, b| a.partial_cmp(b).unwrap());
    old.dedup();
    let k = old.len();
    let sets: Vec<Vec<f64>> = vec![
        vec![0.0, 1e-17, 2e-17, 3e-17],
        vec![1.0, 1.0 + f64::EPSILON, 1.0 + 2.0 * f64::EPSILON, 1.0 - f64::EPSILON / 2.0],
        (0..4).map(|i| (i as f64 + 3.0) * (2.0f64).powi(-60)).collect(),
        vec![0.0, 0.5, 2.0, 1.25],
        vec![0.25, 0.75, -0.25, -0.75],
        vec![-0.5, 0.5, 1.5, -1.5],
        vec![1e300, -1e300, 1e-300, -1e-300],
        vec![0.0, 1.0, -1.0, 5e-324],
    ];
    let which = r.gen_range(0..sets.len());
    let mut set = sets[which].clone();
    set.truncate(k.max(2));
    set.shuffle(r);
    let zero_class = which == 7;
    for v in d.y.iter_mut() {
        let c = old.iter().position(|o| o == v).unwrap();
        let mut nv = set[c % set.len()];
        // the class 0.0 is written as -0.0 in some rows (equal values, different bits)
        if zero_class && nv == 0.0 && r.gen_bool(0.5) {
            nv = -0.0;
        }
        *v = nv;
    }
}

/// Systematic family: a classification set of exactly `n` rows whose classes have exactly the
/// given sizes (e.g. [1, n-1] or [1, 2, 3, n-6]); 1..2 features.  The stratified bootstrap
/// must give every class as many draws as it has rows for every n of the property's range.
fn gen_profile_data(r: &mut StdRng, id: usize, n: usize, sizes: &[usize], distinct: bool) -> Data {
    let p = r.gen_range(1..=2);
    let mut d = gen_data(r, id, "cls", n, p, distinct);
    let mut pool: Vec<i64> = (-9..=20).collect();
    pool.shuffle(r);
    let mut rows: Vec<usize> = (0..n).collect();
    // small classes sit at the extremes of the first feature half of the time (learnable),
    // anywhere otherwise
    if r.gen_bool(0.5) {
        rows.sort_by(|&a, &b| d.x[a][0].partial_cmp(&d.x[b][0]).unwrap());
    } else {
        rows.shuffle(r);
    }
    let mut pos = 0;
    for (c, &sz) in sizes.iter().enumerate() {
        for _ in 0..sz {
            d.y[rows[pos]] = pool[c] as f64;
            pos += 1;
        }
    }
    assert_eq!(pos, n);
    d.family = "profile";
    d
}

/// Deep-structure family.  One distinct-valued feature (a permutation of 0..n-1, plus an
/// optional second noise feature) and
///  * reg: targets growing geometrically along it, y = ratio^(x - n): every greedy split
///    peels off only the largest remaining target, so member trees are chains about as deep
///    as they have distinct rows; values are recorded with a per-row scale (`relative`);
///  * cls: labels alternating along it, which no balanced split can separate either.
fn gen_deep_data(r: &mut StdRng, id: usize, kind: &'static str, n: usize) -> Data {
    let p = r.gen_range(1..=2);
    let mut perm: Vec<usize> = (0..n).collect();
    perm.shuffle(r);
    let mut x = vec![vec![0.0f64; p]; n];
    for i in 0..n {
        x[i][0] = perm[i] as f64;
        if p == 2 {
            x[i][1] = r.gen_range(0..=3) as f64;
        }
    }
    let mut xq = Vec::new();
    for _ in 0..r.gen_range(4..=12) {
        let mut row = x[r.gen_range(0..n)].clone();
        row[0] += [0.5, -0.5, 0.25, 1000.0, -1000.0][r.gen_range(0..5)];
        xq.push(row);
    }
    let mut y = vec![0.0f64; n];
    if kind == "reg" {
        let ratio = [4.0f64, 3.0, 8.0][r.gen_range(0..3)];
        let sign = if r.gen_bool(0.5) { 1.0 } else { -1.0 };
        for i in 0..n {
            y[i] = sign * ratio.powi(perm[i] as i32 - n as i32);
        }
    } else {
        let k = r.gen_range(2..=3);
        let mut pool: Vec<i64> = (-9..=20).collect();
        pool.shuffle(r);
        for i in 0..n {
            y[i] = pool[perm[i] % k] as f64;
        }
    }
    Data { id, xden: 4, x, xq, y, relative: kind == "reg", family: "deep" }
}

/// more query rows (batch predict of a given length)
fn pad_queries(r: &mut StdRng, d: &mut Data, nq: usize) {
    let n = d.x.len();
    while d.xq.len() < nq {
        let mut row = d.x[r.gen_range(0..n)].clone();
        for v in row.iter_mut() {
            if r.gen_bool(0.3) {
                *v += (r.gen_range(-2..=2) as f64) / d.xden as f64;
            }
        }
        d.xq.push(row);
    }
}

fn emit_quad(out: &mut Out, run: i64, d: &Data, s: &Setting, s1: u64, s2: u64) {
    emit_fit(out, run, true, d, s, s1);
    emit_fit(out, run, true, d, s, s2);
    emit_fit(out, run, false, d, s, s1);
    emit_fit(out, run, false, d, s, s2);
}

fn gen_setting(r: &mut StdRng, kind: &'static str, p: usize, unlimited: bool, big: bool) -> Setting {
    let n_trees = if big {
        r.gen_range(8..=30)
    } else {
        match r.gen_range(0..10) {
            0 => 1,
            1 | 2 => 2,
            3 => 3,
            4 => 4,
            _ => r.gen_range(1..=12),
        }
    };
    let m = if r.gen_bool(0.4) { None } else { Some(r.gen_range(1..=p)) };
    let (max_depth, msl, mss) = if unlimited {
        (None, 1, r.gen_range(0..=1))
    } else {
        (
            if r.gen_bool(0.5) { None } else { Some(r.gen_range(1..=8) as u16) },
            r.gen_range(1..=5),
            r.gen_range(0..=8),
        )
    };
    Setting {
        kind,
        n_trees,
        m,
        max_depth,
        msl,
        mss,
        crit: r.gen_range(0..3),
        keep: r.gen_bool(0.75),
    }
}

fn pick_seed(r: &mut StdRng) -> u64 {
    match r.gen_range(0..12) {
        0 => 0,
        1 => 1,
        2 => u64::MAX,
        3 => r.gen_range(0..100),
        _ => r.gen::<u64>(),
    }
}

fn gen_fits(path: &str) {
    let mut out = Out::create(path);
    let mut r = rng(6);
    let th = thorough();
    let cases = if th { 10000 } else { 3000 };
    let mut run = 0i64;
    let mut early: Vec<(Data, Setting, u64)> = Vec::new();
    let mut asm_cases: Vec<Value> = Vec::new();
    for c in 0..cases {
        run += 1;
        let kind: &'static str = if c % 2 == 0 { "cls" } else { "reg" };
        let distinct = r.gen_bool(0.45);
        let unlimited = distinct && r.gen_bool(0.6);
        let big = c % 10 == 9;
        let n = if big {
            r.gen_range(60..=120)
        } else if r.gen_bool(0.5) {
            r.gen_range(4..=12)
        } else {
            r.gen_range(8..=45)
        };
        let p = r.gen_range(1..=6);
        let d = gen_data(&mut r, c + 1, kind, n, p, distinct);
        let many_trees = big && r.gen_bool(0.5);
        let mut d = d;
        if kind == "cls" && r.gen_bool(0.15) {
            float_labels(&mut r, &mut d);
        }
        let s = gen_setting(&mut r, kind, p, unlimited, many_trees);
        let s1 = pick_seed(&mut r);
        let mut s2 = pick_seed(&mut r);
        if s2 == s1 {
            s2 = s1.wrapping_add(1);
        }
        // interleaved: A B A B  (A, B = the two seeds); the second fit of a key only records
        // its digest
        emit_fit(&mut out, run, true, &d, &s, s1);
        emit_fit(&mut out, run, true, &d, &s, s2);
        emit_fit(&mut out, run, false, &d, &s, s1);
        emit_fit(&mut out, run, false, &d, &s, s2);
        if early.len() < 8 {
            early.push((d, s, s1));
        }
    }
    // systematic: every row count of the property's range with a single-row class, and with
    // classes of 1, 2 and 3 rows; thorough: also every two-class split k : n-k, k <= 6
    for n in 4..=120usize {
        let mut profiles: Vec<Vec<usize>> = vec![vec![1, n - 1]];
        profiles.push(if n >= 7 {
            vec![1, 2, 3, n - 6]
        } else if n >= 5 {
            vec![1, 2, n - 3]
        } else {
            vec![1, 1, n - 2]
        });
        if th {
            for k in 2..=usize::min(6, n - 1) {
                profiles.push(vec![k, n - k]);
            }
            profiles.push(vec![1, 1, n - 2]);
        }
        for sizes in profiles.iter() {
            run += 1;
            let distinct = r.gen_bool(0.5);
            let d = gen_profile_data(&mut r, cases + run as usize, n, sizes, distinct);
            let p = d.x[0].len();
            let mut s = gen_setting(&mut r, "cls", p, distinct, false);
            s.n_trees = r.gen_range(1..=3);
            s.keep = true;
            let s1 = pick_seed(&mut r);
            let s2 = s1.wrapping_add(r.gen_range(1..1000));
            emit_fit(&mut out, run, true, &d, &s, s1);
            emit_fit(&mut out, run, true, &d, &s, s2);
            emit_fit(&mut out, run, false, &d, &s, s1);
            emit_fit(&mut out, run, false, &d, &s, s2);
        }
    }
    let mut next_id = cases + run as usize + 1;
    // few-tree forests with kept samples: with 1..4 trees some training row is in every
    // bootstrap sample (no out-of-bag tree) and others are out-of-bag for all but one
    for t in 1..=4usize {
        for rep in 0..(if th { 24 } else { 8 }) {
            run += 1;
            next_id += 1;
            let kind: &'static str = if rep % 2 == 0 { "reg" } else { "cls" };
            let n = r.gen_range(4..=30);
            let p = r.gen_range(1..=4);
            let distinct = r.gen_bool(0.5);
            let mut d = gen_data(&mut r, next_id, kind, n, p, distinct);
            d.family = "few";
            let unlimited = distinct && r.gen_bool(0.5);
            let mut s = gen_setting(&mut r, kind, p, unlimited, false);
            s.n_trees = t;
            s.keep = true;
            let s1 = pick_seed(&mut r);
            emit_quad(&mut out, run, &d, &s, s1, s1.wrapping_add(1 + rep as u64));
        }
    }
    // float label sets on class-size profiles with small classes, samples kept
    for rep in 0..(if th { 160 } else { 48 }) {
        run += 1;
        next_id += 1;
        let n = r.gen_range(5..=60usize);
        let sizes: Vec<usize> = match rep % 4 {
            0 => vec![1, n - 1],
            1 => vec![1, 2, n - 3],
            2 => vec![2, 2, n - 4],
            _ => vec![1, 1, 1, n - 3],
        };
        let distinct = r.gen_bool(0.5);
        let mut d = gen_profile_data(&mut r, next_id, n, &sizes, distinct);
        float_labels(&mut r, &mut d);
        d.family = "labels";
        let p = d.x[0].len();
        let mut s = gen_setting(&mut r, "cls", p, distinct, false);
        s.n_trees = r.gen_range(1..=4);
        s.keep = true;
        let s1 = pick_seed(&mut r);
        emit_quad(&mut out, run, &d, &s, s1, s1.wrapping_add(11));
    }
    // deep member trees (chains far deeper than 64 levels), default limits
    let deep_sizes: Vec<usize> = if th { vec![100, 110, 120, 140, 160, 200, 260] } else { vec![110, 120, 160, 200] };
    for &n in deep_sizes.iter() {
        for kind in ["reg"].iter() {
            for rep in 0..(if th { 4 } else { 2 }) {
                run += 1;
                next_id += 1;
                let d = gen_deep_data(&mut r, next_id, kind, n);
                let p = d.x[0].len();
                let s = Setting {
                    kind,
                    n_trees: r.gen_range(1..=3),
                    // every feature is a split candidate at every node (with m < p a node
                    // whose drawn feature is constant becomes a leaf and the chain ends early)
                    m: Some(p),
                    max_depth: None,
                    msl: 1,
                    mss: 2,
                    crit: r.gen_range(0..3),
                    keep: true,
                };
                let s1 = pick_seed(&mut r);
                emit_quad(&mut out, run, &d, &s, s1, s1.wrapping_add(7 + rep as u64));
            }
        }
    }
    // assembled deep chains: forests put together through serde whose member trees are
    // decision chains with one level per row (as in the spec -> impl leg, but 70..140 levels
    // deep and with random votes / values), classifier and regressor
    for rep in 0..(if th { 40 } else { 12 }) {
        run += 1;
        let kind = if rep % 2 == 0 { "reg" } else { "cls" };
        let n = r.gen_range(70..=140usize);
        let t_n = r.gen_range(1..=4usize);
        let keep = rep % 4 != 3;
        let labels: Vec<i64> = vec![-3, 4, 10];
        let val = |r: &mut StdRng| -> i64 {
            if kind == "cls" { labels[r.gen_range(0..3)] } else { r.gen_range(-100..=100) * 65536 / 4 }
        };
        let mut y: Vec<i64> = (0..n).map(|_| val(&mut r)).collect();
        if kind == "cls" {
            y[0] = labels[0];
            y[1] = labels[1];
            y[2] = labels[2];
        } else {
            y[0] = -100 * 65536;
            y[1] = 100 * 65536;
        }
        let tp: Vec<Vec<i64>> = (0..t_n)
            .map(|_| (0..n).map(|i| if r.gen_bool(0.6) { y[i] } else { val(&mut r) }).collect())
            .collect();
        let mask: Vec<Vec<bool>> = (0..t_n).map(|_| (0..n).map(|_| r.gen_bool(0.63)).collect()).collect();
        asm_cases.push(json!({"kind": kind, "nTrain": n, "nTrees": t_n, "keep": keep, "y": y,
                              "treePred": tp, "mask": if keep { json!(mask) } else { json!([]) }}));
    }
    // size ladder: row counts and batch lengths around internal block sizes
    let mut ladder: Vec<usize> = vec![63, 64, 65, 127, 128, 129, 255, 256, 257, 511, 512, 513];
    if th {
        ladder.extend([1023, 1024, 1025, 3000].iter());
    }
    for (i, &n) in ladder.iter().enumerate() {
        run += 1;
        next_id += 1;
        let kind: &'static str = if i % 2 == 0 { "cls" } else { "reg" };
        let p = r.gen_range(1..=2);
        let distinct = r.gen_bool(0.5);
        let mut d = gen_data(&mut r, next_id, kind, n, p, distinct);
        d.family = "ladder";
        // a batch of queries whose length, together with the training rows, is another rung
        let nq = ladder[(i + 4) % ladder.len()].min(600);
        pad_queries(&mut r, &mut d, nq);
        let mut s = gen_setting(&mut r, kind, p, false, false);
        s.n_trees = r.gen_range(1..=3);
        s.keep = true;
        let s1 = pick_seed(&mut r);
        emit_quad(&mut out, run, &d, &s, s1, s1.wrapping_add(3));
    }
    // late re-fits of the earliest keys: the whole session lies in between
    run += 1;
    for (d, s, seed) in early.iter() {
        emit_fit(&mut out, run, false, d, s, *seed);
    }
    for c in asm_cases.iter() {
        run += 1;
        out.emit(assemble(run, c, "ForestAsm"));
    }
    let n = out.finish();
    println!("events={} runs={}", n, run);
}

// ---------------------------------------------------------------------------------------------
// replay-spec

fn arr_i64(v: &Value) -> Vec<i64> {
    v.as_array().map(|a| a.iter().map(|x| x.as_i64().unwrap_or(0)).collect()).unwrap_or_default()
}

/// A decision chain over the row-id feature: row r (0-based, feature 0 = r) reaches a leaf
/// whose output is outs[r].
fn chain_nodes(outs: &[Value]) -> Vec<Value> {
    let n = outs.len();
    let mut nodes = Vec::new();
    let leaf = |idx: usize, out: &Value| json!({"_index": idx, "output": out, "split_feature": 0,
        "split_value": null, "split_score": null, "true_child": null, "false_child": null});
    for r in 0..n {
        if r + 1 < n {
            nodes.push(json!({"_index": 2 * r, "output": outs[r], "split_feature": 0,
                "split_value": r as f64 + 0.5, "split_score": 0.0,
                "true_child": 2 * r + 1, "false_child": 2 * r + 2}));
            nodes.push(leaf(2 * r + 1, &outs[r]));
        } else {
            nodes.push(leaf(2 * r, &outs[r]));
        }
    }
    nodes
}

/// Assemble the forest described by `c` (kind, nTrain, nTrees, keep, y, treePred, mask)
/// through the public Deserialize, run the real predict / predict_oob on it and return the
/// event: "ForestObs" (with the model's expectation) or "ForestAsm" (harness-generated
/// deep chains; no expectation).
fn assemble(run: i64, c: &Value, ev: &str) -> Value {
    {
        let kind = c["kind"].as_str().unwrap_or("");
        let n = c["nTrain"].as_u64().unwrap_or(0) as usize;
        let t_n = c["nTrees"].as_u64().unwrap_or(0) as usize;
        let keep = c["keep"].as_bool().unwrap_or(false);
        let yv = arr_i64(&c["y"]);
        let x: Vec<Vec<f64>> = (0..n).map(|i| vec![i as f64]).collect();
        let samples: Value = if keep { c["mask"].clone() } else { Value::Null };
        let expect = json!({"pred": c["pred"], "oobStatus": c["oobStatus"],
                            "oobFin": c["oobFin"], "oob": c["oob"],
                            "y": c["y"], "treePred": c["treePred"], "mask": c["mask"]});
        let tp: Vec<Vec<i64>> = c["treePred"].as_array().map(|a| a.iter().map(arr_i64).collect()).unwrap_or_default();
        let (status, obs): (&str, Value) = if kind == "cls" {
            let y: Vec<f64> = yv.iter().map(|&v| v as f64).collect();
            let mut classes: Vec<i64> = yv.clone();
            classes.sort();
            classes.dedup();
            let classes_f: Vec<f64> = classes.iter().map(|&v| v as f64).collect();
            let trees: Vec<Value> = tp
                .iter()
                .map(|row| {
                    let outs: Vec<Value> = row
                        .iter()
                        .map(|v| json!(classes.iter().position(|c| c == v).expect("label of the model")))
                        .collect();
                    json!({"nodes": chain_nodes(&outs),
                           "parameters": {"criterion": "Gini", "max_depth": null,
                                          "min_samples_leaf": 1, "min_samples_split": 2},
                           "num_classes": classes.len(), "classes": classes_f, "depth": n})
                })
                .collect();
            let fj = json!({"_parameters": {"criterion": "Gini", "max_depth": null, "min_samples_leaf": 1,
                    "min_samples_split": 2, "n_trees": t_n, "m": null, "keep_samples": keep, "seed": 0},
                "trees": trees, "classes": classes_f, "samples": samples});
            match serde_json::from_value::<RandomForestClassifier<f64>>(fj) {
                Ok(f) => ("ok", observe_cls(&f, t_n, keep, &x, &x, &y, false, false).obs),
                Err(e) => {
                    eprintln!("cannot assemble a classifier forest: {}", e);
                    std::process::exit(2);
                }
            }
        } else {
            let y: Vec<f64> = yv.iter().map(|&v| v as f64 / FX).collect();
            let trees: Vec<Value> = tp
                .iter()
                .map(|row| {
                    let outs: Vec<Value> = row.iter().map(|&v| json!(v as f64 / FX)).collect();
                    json!({"nodes": chain_nodes(&outs),
                           "parameters": {"max_depth": null, "min_samples_leaf": 1, "min_samples_split": 2},
                           "depth": n})
                })
                .collect();
            let fj = json!({"_parameters": {"max_depth": null, "min_samples_leaf": 1,
                    "min_samples_split": 2, "n_trees": t_n, "m": null, "keep_samples": keep, "seed": 0},
                "trees": trees, "samples": samples});
            match serde_json::from_value::<RandomForestRegressor<f64>>(fj) {
                Ok(f) => ("ok", observe_reg(&f, t_n, keep, &x, &x, &y, false, false).obs),
                Err(e) => {
                    eprintln!("cannot assemble a regressor forest: {}", e);
                    std::process::exit(2);
                }
            }
        };
        if ev == "ForestObs" {
            json!({"run": run, "ev": ev, "status": status, "obs": obs, "expect": expect})
        } else {
            json!({"run": run, "ev": ev, "status": status, "obs": obs,
                   "asked": {"y": c["y"], "treePred": c["treePred"], "mask": c["mask"]}})
        }
    }
}

fn replay_spec(inp: &str, outp: &str) {
    let cases = read_ndjson(inp);
    let mut out = Out::create(outp);
    let mut run = 0i64;
    for c in cases.iter() {
        run += 1;
        out.emit(assemble(run, c, "ForestObs"));
    }
    let n = out.finish();
    println!("events={} runs={}", n, run);
}

/// `replay-file <in> <out>`: re-execute the cases stored in a replay artefact against the
/// current library.  A ForestFit event is re-fitted twice from its recorded inputs (fit +
/// refit); a ForestObs event is re-assembled from its recorded member-tree predictions.
fn replay_file(inp: &str, outp: &str) {
    let events = read_ndjson(inp);
    let mut out = Out::create(outp);
    let mut asm: Vec<Value> = Vec::new();
    let mut run = 0i64;
    for e in events.iter() {
        match e["ev"].as_str().unwrap_or("") {
            "ForestFit" => {
                run += 1;
                let i = &e["in"];
                let kind: &'static str = if i["kind"] == "cls" { "cls" } else { "reg" };
                let xden = i["xDen"].as_i64().unwrap_or(1);
                let rows = |v: &Value| -> Vec<Vec<f64>> {
                    v.as_array()
                        .map(|a| {
                            a.iter()
                                .map(|r| arr_i64(r).iter().map(|&x| x as f64 / xden as f64).collect())
                                .collect()
                        })
                        .unwrap_or_default()
                };
                let y: Vec<f64> = i["yHex"]
                    .as_array()
                    .map(|a| {
                        a.iter()
                            .map(|h| f64::from_bits(u64::from_str_radix(h.as_str().unwrap_or("0"), 16).unwrap_or(0)))
                            .collect()
                    })
                    .unwrap_or_default();
                let relative = i["relative"].as_bool().unwrap_or(false);
                let d = Data { id: run as usize, xden, x: rows(&i["X"]), xq: rows(&i["Xq"]), y, relative, family: "replay" };
                let opt = |v: &Value| -> Option<i64> { v.as_i64().filter(|&x| x >= 0) };
                let s = Setting {
                    kind,
                    n_trees: i["nTrees"].as_u64().unwrap_or(1) as usize,
                    m: opt(&i["m"]).map(|v| v as usize),
                    max_depth: opt(&i["maxDepth"]).map(|v| v as u16),
                    msl: i["msl"].as_u64().unwrap_or(1) as usize,
                    mss: i["mss"].as_u64().unwrap_or(2) as usize,
                    crit: i["crit"].as_u64().unwrap_or(0) as usize,
                    keep: i["keep"].as_bool().unwrap_or(false),
                };
                let seed: u64 = i["seed"].as_str().and_then(|t| t.parse().ok()).unwrap_or(0);
                emit_fit(&mut out, run, true, &d, &s, seed);
                emit_fit(&mut out, run, false, &d, &s, seed);
            }
            "ForestAsm" => {
                let mut c = e["asked"].clone();
                for k in ["kind", "nTrain", "nTrees", "keep"].iter() {
                    c[*k] = e["obs"][*k].clone();
                }
                run += 1;
                out.emit(assemble(run, &c, "ForestAsm"));
            }
            "ForestObs" => {
                let mut c = e["expect"].clone();
                for k in ["kind", "nTrain", "nTrees", "keep"].iter() {
                    c[*k] = e["obs"][*k].clone();
                }
                asm.push(c);
            }
            _ => {}
        }
    }
    let n1 = out.finish();
    if !asm.is_empty() {
        let tmp_in = format!("{}.asm-in", outp);
        let tmp_out = format!("{}.asm-out", outp);
        let mut o = Out::create(&tmp_in);
        for c in asm {
            o.emit(c);
        }
        o.finish();
        replay_spec(&tmp_in, &tmp_out);
        let mut all = read_ndjson(outp);
        all.extend(read_ndjson(&tmp_out));
        let mut o = Out::create(outp);
        for v in all {
            o.emit(v);
        }
        o.finish();
        let _ = std::fs::remove_file(&tmp_in);
        let _ = std::fs::remove_file(&tmp_out);
    }
    println!("events={} runs={}", n1, run);
}

fn main() {
    let args: Vec<String> = std::env::args().skip(1).collect();
    let args = &args[..];
    silence_panics();
    match arg(args, 0) {
        "gen-fits" => gen_fits(arg(args, 1)),
        "replay-spec" => replay_spec(arg(args, 1), arg(args, 2)),
        "replay-file" => replay_file(arg(args, 1), arg(args, 2)),
        m => {
            eprintln!("unknown c06 mode {}", m);
            std::process::exit(2);
        }
    }
}
