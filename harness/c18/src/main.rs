//! C18 — one-hot encoding and the category mapper.  Drives OneHotEncoder::{fit, transform}
//! on DenseMatrix<f64> / DenseMatrix<f32> and CategoryMapper<u16> / CategoryMapper<String>
//! and records what they returned.  No property logic here: inputs are generated (or read
//! from the REPLAY lines TLC printed for the design models), the library is called, and the
//! results are projected to integers.  All matrix entries are multiples of 1/2 by
//! construction and are recorded doubled (exact); `outExact` says whether every output entry
//! was such a value.  Pass/fail is decided by spec/preproc/PreprocTrace.tla.
use rand::seq::SliceRandom;
use rand::Rng;
use serde_json::{json, Value};
use smartcore::linalg::naive::dense_matrix::DenseMatrix;
use smartcore::linalg::BaseMatrix;
use smartcore::preprocessing::categorical::{OneHotEncoder, OneHotEncoderParams};
use smartcore::preprocessing::series_encoder::CategoryMapper;
use std::collections::HashMap;
use std::hash::Hash;
use vutil::*;

type M2 = Vec<Vec<i64>>;

/// doubled exact projection of a matrix entry; None if it is not a multiple of 1/2
fn twice(v: f64) -> Option<i64> {
    int_exact(v * 2.0)
}

/// (row, column) positions, 0-based, whose entry is to be fed as NEGATIVE zero where the
/// recorded (doubled) entry is 0
type Nz = [(usize, usize)];

/// recorded (doubled) entries that stand for +infinity / -infinity (only ever placed in the
/// matrix handed to transform, as values unseen in fit)
const INF2: i64 = 2147483646;
const NINF2: i64 = -2147483646;

macro_rules! encode_impl {
    ($name:ident, $t:ty, $ty:expr, $mat:ty, $mk:expr) => {
        fn $name(run: i64, x2: &M2, t2: &M2, nz: &Nz, cats: &[usize], expect2: Option<&Value>) -> Value {
            let to_m = |m2: &M2| -> $mat {
                let mut rows: Vec<Vec<$t>> = m2
                    .iter()
                    .map(|r| r.iter().map(|&v| match v {
                        INF2 => <$t>::INFINITY,
                        NINF2 => <$t>::NEG_INFINITY,
                        _ => (v as f64 / 2.0) as $t,
                    }).collect())
                    .collect();
                for &(r, c) in nz.iter() {
                    if r < m2.len() && c < m2[r].len() && m2[r][c] == 0 {
                        rows[r][c] = -0.0;
                    }
                }
                $mk(&rows)
            };
            let x = to_m(x2);
            let t = to_m(t2);
            // what was actually fed as -0.0 in the transformed matrix: [row (1-based), column]
            let tnz: Vec<(usize, usize)> = nz
                .iter()
                .filter(|&&(r, c)| r < t2.len() && c < t2[r].len() && t2[r][c] == 0)
                .map(|&(r, c)| (r + 1, c))
                .collect();
            let fitted = guard(|| OneHotEncoder::fit(&x, OneHotEncoderParams::from_cat_idx(cats)));
            let mut status = "none";
            let mut out2: M2 = Vec::new();
            let mut outnz: Vec<(usize, usize)> = Vec::new();
            let mut exact = true;
            let fit = match &fitted {
                Ok(Ok(_)) => "ok",
                Ok(Err(_)) => "err",
                Err(_) => "panic",
            };
            if let Ok(Ok(enc)) = &fitted {
                match guard(|| enc.transform(&t)) {
                    Ok(Ok(o)) => {
                        status = "ok";
                        let (r, c) = BaseMatrix::shape(&o);
                        for i in 0..r {
                            let mut row = Vec::with_capacity(c);
                            for j in 0..c {
                                let v = BaseMatrix::get(&o, i, j) as f64;
                                if v == 0.0 && v.is_sign_negative() {
                                    outnz.push((i + 1, j)); // the sign bit of a zero is observable
                                }
                                match twice(v) {
                                    Some(v) => row.push(v),
                                    None => {
                                        exact = false;
                                        row.push(0)
                                    }
                                }
                            }
                            out2.push(row);
                        }
                    }
                    Ok(Err(_)) => status = "err",
                    Err(_) => status = "panic",
                }
            }
            json!({"run": run, "ev": "Encode", "ty": $ty, "X2": x2, "T2": t2, "cats": cats,
                   "Tnz": tnz, "outnz": outnz,
                   "fit": fit, "status": status, "out2": out2, "outExact": exact,
                   "hasExpect": expect2.is_some(),
                   "expect2": expect2.cloned().unwrap_or_else(|| json!([]))})
        }
    };
}
encode_impl!(encode_f64, f64, "f64", DenseMatrix<f64>, |rows: &Vec<Vec<f64>>| DenseMatrix::from_2d_vec(rows));
encode_impl!(encode_f32, f32, "f32", DenseMatrix<f32>, |rows: &Vec<Vec<f32>>| DenseMatrix::from_2d_vec(rows));
// ndarray back end, column-major (Fortran) layout: memory order differs from logical order
encode_impl!(encode_nd64, f64, "nd64", ndarray::Array2<f64>, |rows: &Vec<Vec<f64>>| {
    use ndarray::ShapeBuilder;
    let (n, p) = (rows.len(), rows[0].len());
    let mut colmajor = Vec::with_capacity(n * p);
    for j in 0..p {
        for row in rows.iter() {
            colmajor.push(row[j]);
        }
    }
    ndarray::Array2::from_shape_vec((n, p).f(), colmajor).unwrap()
});

fn encode(ty: usize, run: i64, x2: &M2, t2: &M2, nz: &Nz, cats: &[usize], e: Option<&Value>) -> Value {
    match ty {
        0 => encode_f64(run, x2, t2, nz, cats, e),
        1 => encode_f32(run, x2, t2, nz, cats, e),
        _ => encode_nd64(run, x2, t2, nz, cats, e),
    }
}

/// one CategoryMapper built by `ctor` from `items`, then every query
fn mapper_event<C, E, D>(
    run: i64,
    ty: &str,
    ctor: &str,
    items: &[i64],
    probes: &[i64],
    enc: E,
    dec: D,
    expect: Option<&Value>,
) -> Value
where
    C: Hash + Eq + Clone,
    E: Fn(i64) -> C,
    D: Fn(&C) -> i64,
{
    let r = guard(|| {
        let m: CategoryMapper<C> = match ctor {
            "fit" => CategoryMapper::fit_to_iter(items.iter().map(|&c| enc(c))),
            "vec" => CategoryMapper::from_positional_category_vec(
                items.iter().map(|&c| enc(c)).collect(),
            ),
            _ => {
                let hm: HashMap<C, usize> =
                    items.iter().enumerate().map(|(i, &c)| (enc(c), i)).collect();
                CategoryMapper::from_category_map(hm)
            }
        };
        let num = m.num_categories();
        let iv = |v: f64| int_exact(v).unwrap_or(-2);
        let get_num: Vec<i64> = probes
            .iter()
            .map(|&c| m.get_num(&enc(c)).map(|&i| i as i64).unwrap_or(-1))
            .collect();
        let ordinal: Vec<i64> = probes
            .iter()
            .map(|&c| m.get_ordinal::<f64>(&enc(c)).map(iv).unwrap_or(-1))
            .collect();
        let oh: Vec<Option<Vec<f64>>> = probes
            .iter()
            .map(|&c| m.get_one_hot::<f64, Vec<f64>>(&enc(c)))
            .collect();
        let oh_some: Vec<bool> = oh.iter().map(|o| o.is_some()).collect();
        let one_hot: Vec<Vec<i64>> = oh
            .iter()
            .map(|o| o.as_ref().map(|v| v.iter().map(|&x| iv(x)).collect()).unwrap_or_default())
            .collect();
        let get_cat: Vec<i64> = (0..num).map(|i| dec(m.get_cat(i))).collect();
        let inv = |v: Vec<f64>| -> Value {
            match m.invert_one_hot::<f64, Vec<f64>>(v) {
                Ok(c) => json!({"ok": true, "cat": dec(&c)}),
                Err(_) => json!({"ok": false, "cat": -1}),
            }
        };
        let inv_unit: Vec<Value> = (0..num)
            .map(|i| {
                let mut v = vec![0.0; num];
                v[i] = 1.0;
                inv(v)
            })
            .collect();
        let inv_oh: Vec<Value> = oh
            .iter()
            .map(|o| match o {
                Some(v) => inv(v.clone()),
                None => json!({"ok": false, "cat": -1}),
            })
            .collect();
        // vectors that are not one-hot (no 1, two 1s): the statement is silent; recorded only
        let mut bad: Vec<Vec<f64>> = vec![vec![0.0; num]];
        if num >= 2 {
            let mut v = vec![0.0; num];
            v[0] = 1.0;
            v[num - 1] = 1.0;
            bad.push(v);
        }
        let inv_bad: Vec<Value> = bad
            .into_iter()
            .map(|v| {
                let vi: Vec<i64> = v.iter().map(|&x| iv(x)).collect();
                match guard(|| m.invert_one_hot::<f64, Vec<f64>>(v.clone())) {
                    Ok(Ok(_)) => json!({"v": vi, "status": "ok"}),
                    Ok(Err(_)) => json!({"v": vi, "status": "err"}),
                    Err(_) => json!({"v": vi, "status": "panic"}),
                }
            })
            .collect();
        json!({"num": num, "getNum": get_num, "ordinal": ordinal, "ohSome": oh_some,
               "oneHot": one_hot, "getCat": get_cat, "invUnit": inv_unit, "invOH": inv_oh,
               "invBad": inv_bad})
    });
    let (status, obs) = match r {
        Ok(o) => ("ok", o),
        Err(_) => ("panic", json!({})),
    };
    json!({"run": run, "ev": "Mapper", "ty": ty, "ctor": ctor, "items": items, "probes": probes,
           "status": status, "obs": obs, "hasExpect": expect.is_some(),
           "expect": expect.cloned().unwrap_or_else(|| json!({}))})
}

fn mapper(ty: usize, run: i64, ctor: &str, items: &[i64], probes: &[i64], e: Option<&Value>) -> Value {
    if ty == 0 {
        mapper_event::<u16, _, _>(run, "u16", ctor, items, probes, |c| c as u16, |c| *c as i64, e)
    } else {
        mapper_event::<String, _, _>(
            run,
            "string",
            ctor,
            items,
            probes,
            |c| format!("s{}", c),
            |s| s[1..].parse::<i64>().unwrap_or(-3),
            e,
        )
    }
}

fn as_m2(v: &Value) -> M2 {
    v.as_array()
        .unwrap()
        .iter()
        .map(|r| r.as_array().unwrap().iter().map(|x| x.as_i64().unwrap()).collect())
        .collect()
}
fn as_iv(v: &Value) -> Vec<i64> {
    v.as_array().unwrap().iter().map(|x| x.as_i64().unwrap()).collect()
}

/// random matrix layout: returns (X2, categorical indices in the order they are passed)
/// also returns the positions to be fed as -0.0 (zeros of plain columns and code 0 of
/// categorical ones, each with probability 1/2)
fn random_layout<R: Rng>(r: &mut R, nfix: Option<usize>, pmax: usize) -> (M2, Vec<usize>, Vec<(usize, usize)>) {
    let n = nfix.unwrap_or_else(|| r.gen_range(1..=40usize));
    let p = r.gen_range(1..=pmax);
    let mode = r.gen_range(0..12);
    let mut cats: Vec<usize> = match mode {
        0 => vec![],
        1 => (0..p).collect(),
        2 => vec![0],
        3 => vec![p - 1],
        4 => {
            // an adjacent pair (the layout the unit tests never have)
            if p >= 2 {
                let a = r.gen_range(0..p - 1);
                vec![a, a + 1]
            } else {
                vec![0]
            }
        }
        5 => {
            // a leading run of categorical columns followed by plain ones
            let m = r.gen_range(1..=p);
            (0..m).collect()
        }
        _ => {
            let q = r.gen_range(0.2..0.8);
            (0..p).filter(|_| r.gen_bool(q)).collect()
        }
    };
    cats.shuffle(r);
    let mut x2 = vec![vec![0i64; p]; n];
    for j in 0..p {
        if cats.contains(&j) {
            let k = r.gen_range(1..=6usize.min(n));
            let mut codes: Vec<i64> = Vec::new();
            let wide = r.gen_bool(0.5);
            while codes.len() < k {
                let c = if wide { r.gen_range(0..=65535i64) } else { r.gen_range(0..=12i64) };
                if !codes.contains(&c) {
                    codes.push(c);
                }
            }
            for (i, row) in x2.iter_mut().enumerate() {
                // the first k rows show every category once, in the order drawn
                let c = if i < k { codes[i] } else { codes[r.gen_range(0..k)] };
                row[j] = 2 * c;
            }
        } else {
            for row in x2.iter_mut() {
                // multiples of 1/2 in [-100, 100]; zeros are over-represented (their sign matters)
                row[j] = if r.gen_bool(0.08) { 0 } else { r.gen_range(-200..=200i64) };
            }
        }
    }
    let mut nz = Vec::new();
    for (i, row) in x2.iter().enumerate() {
        for (j, &v) in row.iter().enumerate() {
            if v == 0 && r.gen_bool(0.5) {
                nz.push((i, j));
            }
        }
    }
    (x2, cats, nz)
}

fn main() {
    let args: Vec<String> = std::env::args().skip(1).collect();
    let args = &args[..];
    silence_panics();
    let mode = arg(args, 0);
    let th = thorough();
    let mut run = 0i64;
    match mode {
        // spec -> impl: replay the inputs TLC enumerated for the design models
        "replay-spec" => {
            let cases = read_ndjson(arg(args, 1));
            let mut out = Out::create(arg(args, 2));
            for c in cases.iter() {
                match c["kind"].as_str().unwrap_or("") {
                    "encode" => {
                        let x2 = as_m2(&c["X2"]);
                        let cats: Vec<usize> = as_iv(&c["cats"]).iter().map(|&v| v as usize).collect();
                        let exp = if c["fit"] == "ok" { Some(&c["expect2"]) } else { None };
                        for ty in 0..2 {
                            run += 1;
                            out.emit(encode(ty, run, &x2, &x2, &[], &cats, exp));
                        }
                    }
                    "mapper" => {
                        let items = as_iv(&c["items"]);
                        let probes = as_iv(&c["probes"]);
                        let ctor = c["ctor"].as_str().unwrap().to_string();
                        for ty in 0..2 {
                            run += 1;
                            out.emit(mapper(ty, run, &ctor, &items, &probes, Some(&c["expect"])));
                        }
                    }
                    _ => {
                        eprintln!("unknown replay kind");
                        std::process::exit(2);
                    }
                }
            }
            let n = out.finish();
            println!("events={} runs={}", n, run);
        }
        // re-execute the events stored in a replay artefact (inputs only are read)
        "replay-file" => {
            let cases = read_ndjson(arg(args, 1));
            let mut out = Out::create(arg(args, 2));
            for c in cases.iter() {
                let ty = match c["ty"].as_str().unwrap_or("") {
                    "f64" | "u16" => 0,
                    "nd64" => 2,
                    _ => 1,
                };
                run = c["run"].as_i64().unwrap_or(0);
                match c["ev"].as_str().unwrap_or("") {
                    "Encode" => {
                        let cats: Vec<usize> = as_iv(&c["cats"]).iter().map(|&v| v as usize).collect();
                        let nz: Vec<(usize, usize)> = c["Tnz"]
                            .as_array()
                            .map(|v| v.iter().map(|p| (p[0].as_u64().unwrap() as usize - 1, p[1].as_u64().unwrap() as usize)).collect())
                            .unwrap_or_default();
                        out.emit(encode(ty, run, &as_m2(&c["X2"]), &as_m2(&c["T2"]), &nz, &cats, None));
                    }
                    "Mapper" => {
                        let ctor = c["ctor"].as_str().unwrap().to_string();
                        out.emit(mapper(ty, run, &ctor, &as_iv(&c["items"]), &as_iv(&c["probes"]), None));
                    }
                    _ => {
                        eprintln!("unknown event in replay file");
                        std::process::exit(2);
                    }
                }
            }
            let n = out.finish();
            println!("events={}", n);
        }
        // impl -> spec, random layouts and the error cases
        "gen-encode" => {
            let mut out = Out::create(arg(args, 1));
            let mut r = rng(18);
            let cnt = if th { 12000 } else { 1500 };
            for i in 0..cnt {
                let (x2, cats, nz) = random_layout(&mut r, None, 10);
                let ty = if i % 7 == 6 { 2 } else { i % 2 };   // 2 = ndarray, column-major
                run += 1;
                out.emit(encode(ty, run, &x2, &x2, &nz, &cats, None));
                if cats.is_empty() {
                    continue;
                }
                let n = x2.len();
                match i % 5 {
                    0 => {
                        // a non-integer value (code + 1/2) in one categorical column
                        let mut b = x2.clone();
                        let j = cats[r.gen_range(0..cats.len())];
                        let row = r.gen_range(0..n);
                        b[row][j] += 1;
                        run += 1;
                        out.emit(encode(ty, run, &b, &b, &nz, &cats, None));
                    }
                    1 | 2 => {
                        // transform a matrix holding a code that fit has not seen
                        let mut t2 = x2.clone();
                        let j = cats[r.gen_range(0..cats.len())];
                        let row = r.gen_range(0..n);
                        let seen: Vec<i64> = x2.iter().map(|rw| rw[j]).collect();
                        let mut c = 2 * r.gen_range(0..=65535i64);
                        while seen.contains(&c) {
                            c = 2 * r.gen_range(0..=65535i64);
                        }
                        t2[row][j] = c;
                        run += 1;
                        out.emit(encode(ty, run, &x2, &t2, &nz, &cats, None));
                    }
                    3 => {
                        // transform other rows made of seen values only (statement silent)
                        let t2: M2 = (0..r.gen_range(1..=n))
                            .map(|_| x2[r.gen_range(0..n)].clone())
                            .collect();
                        run += 1;
                        out.emit(encode(ty, run, &x2, &t2, &nz, &cats, None));
                    }
                    _ => {}
                }
            }
            // ERROR families with a special arithmetic shape.
            //  (a) fit: a categorical column with SEVERAL non-integer values whose deviations
            //      from the truncated codes cancel (x + 1/2 against -1/2, which truncates to 0);
            //  (b) transform: an unseen value outside the u16 code range -- 65536, 70000, 1e9,
            //      +infinity, -1, -1e9, -infinity (and 65535 itself) -- with and without the codes
            //      0 / 65535 among the fitted categories.
            let nerr = if th { 900 } else { 240 };
            for i in 0..nerr {
                let (mut x2, cats, nz) = loop {
                    let l = random_layout(&mut r, None, 6);
                    if !l.1.is_empty() && l.0.len() >= 2 {
                        break l;
                    }
                };
                let n = x2.len();
                let ty = [0, 1, 2][i % 3];
                let j = cats[r.gen_range(0..cats.len())];
                if i % 3 == 0 {
                    let pairs = r.gen_range(1..=(n / 2).min(3));
                    let mut rows: Vec<usize> = (0..n).collect();
                    rows.shuffle(&mut r);
                    for q in 0..pairs {
                        x2[rows[2 * q]][j] += 1;       // code + 1/2
                        x2[rows[2 * q + 1]][j] = -1;   // -1/2
                    }
                    run += 1;
                    out.emit(encode(ty, run, &x2, &x2, &nz, &cats, None));
                } else {
                    // with code 0 / code 65535 forced into the fitted column, or neither
                    match (i / 3) % 3 {
                        0 => x2[r.gen_range(0..n)][j] = 0,
                        1 => x2[r.gen_range(0..n)][j] = 2 * 65535,
                        _ => {}
                    }
                    let special = [2 * 65535, 2 * 65536, 140000, 2_000_000_000, INF2, -2, -2_000_000_000, NINF2][(i / 9) % 8];
                    if x2.iter().any(|rw| rw[j] == special) {
                        continue;
                    }
                    let mut t2 = x2.clone();
                    t2[r.gen_range(0..n)][j] = special;
                    run += 1;
                    out.emit(encode(ty, run, &x2, &t2, &nz, &cats, None));
                }
            }
            // ROW-COUNT ladder ("for every matrix"): row counts around the block sizes at which a
            // chunked implementation changes regime.  Few columns, every categorical column with
            // >= 2 categories in random order, so that row r and row r - 64 (r - 128, ...) differ;
            // then an unseen value placed in the LAST row, and a non-integer value in the last row.
            let ladder: &[usize] = if th { &[63, 64, 65, 127, 128, 129, 200, 256, 257, 513, 1025] } else { &[63, 64, 65, 128, 129, 200, 257] };
            let reps = if th { 6 } else { 3 };
            for &n in ladder.iter() {
                for rep in 0..reps {
                    let (x2, cats, nz) = loop {
                        let (x2, cats, nz) = random_layout(&mut r, Some(n), 4);
                        if !cats.is_empty() {
                            break (x2, cats, nz);
                        }
                    };
                    let ty = [0, 1, 2][rep % 3];
                    run += 1;
                    out.emit(encode(ty, run, &x2, &x2, &nz, &cats, None));
                    let j = cats[r.gen_range(0..cats.len())];
                    let seen: Vec<i64> = x2.iter().map(|rw| rw[j]).collect();
                    let mut c = 2 * r.gen_range(0..=65535i64);
                    while seen.contains(&c) {
                        c = 2 * r.gen_range(0..=65535i64);
                    }
                    let mut t2 = x2.clone();
                    t2[n - 1][j] = c;
                    run += 1;
                    out.emit(encode(ty, run, &x2, &t2, &nz, &cats, None));
                    if rep == 0 {
                        let mut b = x2.clone();
                        b[n - 1][j] += 1;
                        run += 1;
                        out.emit(encode(ty, run, &b, &b, &nz, &cats, None));
                    }
                }
            }
            let n = out.finish();
            println!("events={} runs={}", n, run);
        }
        // impl -> spec, random mapper histories over larger alphabets
        "gen-mapper" => {
            let mut out = Out::create(arg(args, 1));
            let mut r = rng(1818);
            let cnt = if th { 6000 } else { 800 };
            for i in 0..cnt {
                let a = r.gen_range(1..=12usize);
                let mut alpha: Vec<i64> = Vec::new();
                while alpha.len() < a + 2 {
                    let c = if r.gen_bool(0.5) { r.gen_range(0..=65535i64) } else { r.gen_range(0..=20i64) };
                    if !alpha.contains(&c) {
                        alpha.push(c);
                    }
                }
                let unknown: Vec<i64> = alpha.split_off(a);
                let ctor = ["fit", "vec", "map"][i % 3];
                let items: Vec<i64> = if ctor == "fit" {
                    let len = r.gen_range(0..=60usize);
                    (0..len).map(|_| alpha[r.gen_range(0..a)]).collect()
                } else {
                    let mut v = alpha.clone();
                    v.shuffle(&mut r);
                    v.truncate(r.gen_range(0..=a));
                    v
                };
                let mut probes: Vec<i64> = Vec::new();
                for &c in items.iter().chain(alpha.iter()).chain(unknown.iter()) {
                    if !probes.contains(&c) {
                        probes.push(c);
                    }
                }
                probes.shuffle(&mut r);
                run += 1;
                out.emit(mapper((i / 3) % 2, run, ctor, &items, &probes, None));
            }
            let n = out.finish();
            println!("events={} runs={}", n, run);
        }
        _ => {
            eprintln!("unknown c18 mode {}", mode);
            std::process::exit(2);
        }
    }
}
