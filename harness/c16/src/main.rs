//! C16 — data splitting / cross validation.  Drives KFold::split, train_test_split,
//! cross_validate and cross_val_predict and records what they did.  The estimator used for
//! cross validation is instrumented: it logs the row identifiers it is fitted on and echoes
//! `fit_number*1000 + row id` as its prediction, so every prediction reveals which model
//! produced it for which row.
use vutil::*;
use rand::Rng;
use serde_json::{json, Value};
use smartcore::api::Predictor;
use smartcore::error::Failed;
use smartcore::linalg::naive::dense_matrix::DenseMatrix;
use smartcore::linalg::BaseMatrix;
use smartcore::model_selection::{
    cross_val_predict, cross_validate, train_test_split, BaseKFold, KFold,
};
use std::cell::RefCell;
use std::rc::Rc;

type Log = Rc<RefCell<Vec<Value>>>;

/// all values handled here are row identifiers / small integers by construction; anything
/// else is mapped to -999, an identifier no predicate of the specification accepts.
fn iv(v: &[f64]) -> Vec<i64> {
    v.iter().map(|&x| int_exact(x).unwrap_or(-999)).collect()
}


struct Echo {
    f: i64,
    log: Log,
    run: i64,
    /// this model refuses to predict (an estimator failing on one fold only)
    fail_predict: bool,
}

impl Predictor<DenseMatrix<f64>, Vec<f64>> for Echo {
    fn predict(&self, x: &DenseMatrix<f64>) -> Result<Vec<f64>, Failed> {
        let (n, _) = x.shape();
        let rows: Vec<i64> = (0..n).map(|i| x.get(i, 0) as i64).collect();
        if self.fail_predict {
            self.log.borrow_mut().push(json!({"run": self.run, "ev": "Predict", "f": self.f,
                "rows": rows, "out": [], "failed": true}));
            return Err(Failed::predict("instrumented estimator: this fold's model refuses to predict"));
        }
        let out: Vec<f64> = rows.iter().map(|r| (self.f * 1000 + r) as f64).collect();
        self.log.borrow_mut().push(json!({"run": self.run, "ev": "Predict", "f": self.f,
            "rows": rows, "out": iv(&out), "failed": false}));
        Ok(out)
    }
}

fn ident_x(n: usize) -> DenseMatrix<f64> {
    let mut v = Vec::with_capacity(n * 2);
    for i in 0..n {
        v.push(i as f64);
        v.push((7 * i + 3) as f64);
    }
    DenseMatrix::from_array(n, 2, &v)
}

/// The three public ways of configuring a KFold; the way used is part of the configuration
/// space (a builder that forgets an earlier setting breaks the property only for one order).
fn make_kfold(how: i64, k: usize, shuffle: bool) -> KFold {
    match how.rem_euclid(3) {
        0 => KFold::default().with_n_splits(k).with_shuffle(shuffle),
        1 => KFold::default().with_shuffle(shuffle).with_n_splits(k),
        _ => KFold {
            n_splits: k,
            shuffle,
        },
    }
}

fn kfold_event(run: i64, n: usize, k: usize, shuffle: bool) -> Value {
    kfold_event_via(run, n, k, shuffle, 0)
}

/// `via` = how the iterator returned by `split` is consumed:
/// 0 collect; 1 take(d) of one iterator + skip(d) of a fresh one; 2 nth(j) of a fresh iterator
/// for every j; 3 d calls of next() then collect() of the SAME iterator; 4 step_by(2) of one
/// iterator + skip(1).step_by(2) of a fresh one.  1, 2 and 4 need a deterministic split
/// (shuffle off); the pairs obtained must in every case be the k folds.
fn kfold_event_via(run: i64, n: usize, k: usize, shuffle: bool, via: i64) -> Value {
    let x = ident_x(n);
    let r = guard(|| {
        let kf = make_kfold(run, k, shuffle);
        let d = (k / 2).max(1);
        match via {
            1 => {
                let mut v: Vec<(Vec<usize>, Vec<usize>)> = kf.split(&x).take(d).collect();
                v.extend(kf.split(&x).skip(d));
                v
            }
            2 => (0..k).filter_map(|j| kf.split(&x).nth(j)).collect(),
            3 => {
                let mut it = kf.split(&x);
                let mut v = Vec::new();
                for _ in 0..d {
                    if let Some(p) = it.next() {
                        v.push(p);
                    }
                }
                v.extend(it);
                v
            }
            4 => {
                let mut v: Vec<(Vec<usize>, Vec<usize>)> = kf.split(&x).step_by(2).collect();
                v.extend(kf.split(&x).skip(1).step_by(2));
                v
            }
            _ => kf.split(&x).collect(),
        }
    });
    match r {
        Ok(s) => {
            let splits: Vec<Value> = s
                .iter()
                .map(|(tr, te)| json!({"train": tr, "test": te}))
                .collect();
            json!({"run": run, "ev": "KFold", "n": n, "k": k, "shuffle": shuffle, "how": run.rem_euclid(3), "via": via, "status": "ok", "splits": splits})
        }
        Err(_) => {
            json!({"run": run, "ev": "KFold", "n": n, "k": k, "shuffle": shuffle, "how": run.rem_euclid(3), "via": via, "status": "panic"})
        }
    }
}

/// A user-supplied splitter: hands out exactly the (train, test) pairs it was given.
struct Declared {
    pairs: Vec<(Vec<usize>, Vec<usize>)>,
}

impl BaseKFold for Declared {
    type Output = std::vec::IntoIter<(Vec<usize>, Vec<usize>)>;
    fn split<T: smartcore::math::num::RealNumber, M: smartcore::linalg::Matrix<T>>(&self, _x: &M) -> Self::Output {
        self.pairs.clone().into_iter()
    }
    fn n_splits(&self) -> usize {
        self.pairs.len()
    }
}

/// splitters whose training set is NOT the complement of the test set
fn declared_pairs(n: usize, style: usize) -> Vec<(Vec<usize>, Vec<usize>)> {
    let mut v = Vec::new();
    match style {
        0 => {
            // forward chaining: train on the past, test on the next block
            let b = (n / 4).max(1);
            let mut a = b;
            while a + b <= n {
                v.push(((0..a).collect(), (a..a + b).collect()));
                a += b;
            }
        }
        1 => {
            // purged k-fold: a gap of one row on each side of the test block is left out
            let b = (n / 3).max(1);
            let mut a = 0;
            while a + b <= n {
                let lo = a.saturating_sub(1);
                let hi = (a + b + 1).min(n);
                let tr: Vec<usize> = (0..n).filter(|i| *i < lo || *i >= hi).collect();
                if !tr.is_empty() {
                    v.push((tr, (a..a + b).collect()));
                }
                a += b;
            }
        }
        _ => {
            // sub-sampled training sets in a scrambled order, scattered test rows
            let k = 3.min(n / 2).max(1);
            for j in 0..k {
                let te: Vec<usize> = (0..n).filter(|i| i % k == j).rev().collect();
                let tr: Vec<usize> = (0..n).filter(|i| i % k != j && i % 2 == 0).rev().collect();
                if !tr.is_empty() && !te.is_empty() {
                    v.push((tr, te));
                }
            }
        }
    }
    v
}

/// exact decomposition of an f32: v = m * 2^e with m an odd integer (or 0)
fn f32_parts(v: f32) -> (i64, i64) {
    if v == 0.0 {
        return (0, 0);
    }
    let bits = v.to_bits();
    let exp = ((bits >> 23) & 0xff) as i64;
    let frac = (bits & 0x7f_ffff) as i64;
    let (mut m, mut e) = if exp == 0 {
        (frac, -149)
    } else {
        (frac | 0x80_0000, exp - 150)
    };
    while m % 2 == 0 {
        m /= 2;
        e += 1;
    }
    if bits >> 31 == 1 {
        m = -m;
    }
    (m, e)
}

fn tts_event(run: i64, n: usize, ny: usize, ts: f32, shuffle: bool) -> Value {
    let x = ident_x(n);
    let y: Vec<f64> = (0..ny).map(|i| (1000 + i) as f64).collect();
    let (m, e) = f32_parts(ts);
    let r = guard(|| train_test_split(&x, &y, ts, shuffle));
    let (status, out) = match r {
        Ok((xtr, xte, ytr, yte)) => {
            let col = |m: &DenseMatrix<f64>, j: usize| -> Vec<f64> {
                (0..m.shape().0).map(|i| m.get(i, j)).collect()
            };
            ("ok", json!({"trainIds": iv(&col(&xtr, 0)), "trainAux": iv(&col(&xtr, 1)),
                   "testIds": iv(&col(&xte, 0)), "testAux": iv(&col(&xte, 1)),
                   "trainY": iv(&ytr), "testY": iv(&yte),
                   "trainCols": xtr.shape().1, "testCols": xte.shape().1}))
        }
        Err(_) => ("panic", json!({})),
    };
    json!({"run": run, "ev": "TTS", "n": n, "ny": ny, "tsM": m, "tsE": e, "shuffle": shuffle,
           "status": status, "out": out})
}

fn cv_events(run: i64, n: usize, k: usize, shuffle: bool, predict_kind: bool, out: &mut Out) {
    cv_events_with(run, n, k, shuffle, predict_kind, None, None, out)
}

fn cv_events_with(
    run: i64,
    n: usize,
    k: usize,
    shuffle: bool,
    predict_kind: bool,
    custom: Option<Vec<(Vec<usize>, Vec<usize>)>>,
    // Some((j, in_predict)): the j-th model (1-based) fails, in fit or in predict
    fail: Option<(i64, bool)>,
    out: &mut Out,
) {
    let mut v = Vec::with_capacity(n);
    for i in 0..n {
        v.push(i as f64);
    }
    let x = DenseMatrix::from_array(n, 1, &v);
    let y: Vec<f64> = (0..n).map(|i| (500 + i) as f64).collect();
    let log: Log = Rc::new(RefCell::new(Vec::new()));
    let fitno = Rc::new(RefCell::new(0i64));
    let kind = if predict_kind { "predict" } else { "validate" };
    let decl: Vec<Value> = custom
        .as_ref()
        .map(|p| p.iter().map(|(tr, te)| json!({"train": tr, "test": te})).collect())
        .unwrap_or_default();
    out.emit(json!({"run": run, "ev": "CVStart", "kind": kind, "n": n, "k": k, "shuffle": shuffle,
                    "how": run.rem_euclid(3), "custom": custom.is_some(), "splits": decl}));
    let fit = {
        let log = log.clone();
        let fitno = fitno.clone();
        move |x: &DenseMatrix<f64>, y: &Vec<f64>, _p: ()| -> Result<Echo, Failed> {
            *fitno.borrow_mut() += 1;
            let f = *fitno.borrow();
            let rows: Vec<i64> = (0..x.shape().0).map(|i| x.get(i, 0) as i64).collect();
            let fail_fit = fail == Some((f, false));
            log.borrow_mut()
                .push(json!({"run": run, "ev": "Fit", "f": f, "rows": rows, "ys": iv(y), "failed": fail_fit}));
            if fail_fit {
                return Err(Failed::fit("instrumented estimator: this fold cannot be fitted"));
            }
            Ok(Echo {
                f,
                log: log.clone(),
                run,
                fail_predict: fail == Some((f, true)),
            })
        }
    };
    let (status, done) = if predict_kind {
        let r = guard(|| match custom.clone() {
            Some(pairs) => cross_val_predict(fit, &x, &y, (), Declared { pairs }),
            None => cross_val_predict(fit, &x, &y, (), make_kfold(run, k, shuffle)),
        });
        match r {
            Ok(Ok(yhat)) => ("ok", json!({"yhat": iv(&yhat)})),
            Ok(Err(_)) => ("err", json!({})),
            Err(_) => ("panic", json!({})),
        }
    } else {
        let sc = Rc::new(RefCell::new(0i64));
        let score = {
            let log = log.clone();
            let sc = sc.clone();
            move |yt: &Vec<f64>, yp: &Vec<f64>| -> f64 {
                *sc.borrow_mut() += 1;
                let s = *sc.borrow();
                log.borrow_mut().push(
                    json!({"run": run, "ev": "Score", "s": s, "ytrue": iv(yt), "ypred": iv(yp)}),
                );
                s as f64
            }
        };
        let r = guard(|| match custom.clone() {
            Some(pairs) => cross_validate(fit, &x, &y, (), Declared { pairs }, score),
            None => cross_validate(fit, &x, &y, (), make_kfold(run, k, shuffle), score),
        });
        match r {
            Ok(Ok(res)) => (
                "ok",
                json!({"trainScore": iv(&res.train_score), "testScore": iv(&res.test_score)}),
            ),
            Ok(Err(_)) => ("err", json!({})),
            Err(_) => ("panic", json!({})),
        }
    };
    for e in log.borrow_mut().drain(..) {
        out.emit(e);
    }
    out.emit(json!({"run": run, "ev": "CVDone", "kind": kind, "status": status, "out": done}));
}

const TS_TABLE: [f32; 14] = [
    0.125, 0.25, 0.375, 0.5, 0.625, 0.75, 0.875, 1.0, 0.2, 0.3, 0.7, 0.1, 0.33, 0.9,
];

fn main() {
    let args: Vec<String> = std::env::args().skip(1).collect();
    let args = &args[..];
    silence_panics();
    let mode = arg(args, 0);
    let path = arg(args, 1);
    let mut out = Out::create(path);
    let mut r = rng(16);
    let th = thorough();
    let mut run = 0i64;
    match mode {
        "gen-kfold" => {
            let nmax = if th { 64 } else { 32 };
            for n in 2..=nmax {
                for k in 2..=n {
                    run += 1;
                    out.emit(kfold_event(run, n, k, false));
                }
            }
            if !th {
                for _ in 0..200 {
                    let n = r.gen_range(33..=64);
                    let k = r.gen_range(2..=n);
                    run += 1;
                    out.emit(kfold_event(run, n, k, false));
                }
            }
            // shuffled, repeated draws of the unseeded permutation
            let reps = if th { 50 } else { 5 };
            for n in 2..=24 {
                for k in 2..=n {
                    for _ in 0..reps {
                        run += 1;
                        out.emit(kfold_event(run, n, k, true));
                    }
                }
            }
            // large fold counts (the statement holds "for every n >= k >= 2"; the exhaustive
            // range above stops at 64): leave-one-out and near-leave-one-out on a few hundred rows
            for &(n, k) in [(300usize, 300usize), (300, 257), (520, 513), (257, 256), (258, 257), (700, 3)].iter() {
                for &sh in [false, true].iter() {
                    run += 1;
                    out.emit(kfold_event(run, n, k, sh));
                }
            }
            // other ways of consuming the iterator returned by split()
            for n in 2..=18usize {
                for k in 2..=n {
                    for via in 1..=4i64 {
                        run += 1;
                        out.emit(kfold_event_via(run, n, k, false, via));
                    }
                    run += 1;
                    out.emit(kfold_event_via(run, n, k, true, 3));
                }
            }
            // the documented rejection: fewer than two splits
            for n in 2..=4 {
                for k in 0..=1 {
                    run += 1;
                    out.emit(kfold_event(run, n, k, false));
                }
            }
        }
        "gen-tts" => {
            let nmax = if th { 100 } else { 40 };
            for n in 1..=nmax {
                for &ts in TS_TABLE.iter() {
                    for &sh in [false, true].iter() {
                        run += 1;
                        out.emit(tts_event(run, n, n, ts, sh));
                    }
                }
            }
            // random single-precision test sizes
            let cnt = if th { 4000 } else { 600 };
            for _ in 0..cnt {
                let n = r.gen_range(1..=100usize);
                let ts: f32 = r.gen_range(0.001f32..1.0f32);
                run += 1;
                out.emit(tts_event(run, n, n, ts, r.gen_bool(0.5)));
            }
            // argument errors
            for &ts in [0.0f32, -0.5, 1.5, 1.0000001].iter() {
                run += 1;
                out.emit(tts_event(run, 10, 10, ts, false));
            }
            for n in 2..=6 {
                run += 1;
                out.emit(tts_event(run, n, n + 1, 0.5, false));
                run += 1;
                out.emit(tts_event(run, n, n - 1, 0.5, true));
            }
        }
        "gen-cv" => {
            // many folds: leave-one-out style runs beyond 256 folds
            for &(n, k) in [(260usize, 260usize), (300, 257)].iter() {
                for &pk in [false, true].iter() {
                    run += 1;
                    cv_events(run, n, k, false, pk, &mut out);
                }
            }
            // user-supplied splitters whose training sets are not complements of the test sets
            for n in 6..=24usize {
                for style in 0..3usize {
                    let pairs = declared_pairs(n, style);
                    if pairs.is_empty() {
                        continue;
                    }
                    for &pk in [false, true].iter() {
                        run += 1;
                        cv_events_with(run, n, pairs.len(), false, pk, Some(pairs.clone()), None, &mut out);
                    }
                }
            }
            // an estimator that fails on one fold only (in fit or in predict), first / middle / last
            // fold, built-in and user-supplied splitters, both drivers
            for &(n, k) in [(6usize, 2usize), (9, 3), (10, 4), (12, 5), (23, 7)].iter() {
                for &j in [1usize, (k + 1) / 2, k].iter() {
                    for &in_predict in [false, true].iter() {
                        for &pk in [false, true].iter() {
                            for &sh in [false, true].iter() {
                                run += 1;
                                cv_events_with(run, n, k, sh, pk, None, Some((j as i64, in_predict)), &mut out);
                            }
                        }
                    }
                }
            }
            for n in [8usize, 13, 20].iter().copied() {
                for style in 0..3usize {
                    let pairs = declared_pairs(n, style);
                    if pairs.len() < 2 {
                        continue;
                    }
                    for &j in [1usize, pairs.len()].iter() {
                        for &pk in [false, true].iter() {
                            run += 1;
                            cv_events_with(run, n, pairs.len(), false, pk, Some(pairs.clone()), Some((j as i64, pk)), &mut out);
                        }
                    }
                }
            }
            let reps = if th { 6 } else { 1 };
            let nmax = if th { 64 } else { 40 };
            for n in 4..=nmax {
                for k in 2..=8usize {
                    if k > n {
                        continue;
                    }
                    for &sh in [false, true].iter() {
                        for &pk in [false, true].iter() {
                            let rr = if sh { reps } else { 1 };
                            for _ in 0..rr {
                                run += 1;
                                cv_events(run, n, k, sh, pk, &mut out);
                            }
                        }
                    }
                }
            }
        }
        _ => {
            eprintln!("unknown c16 mode {}", mode);
            std::process::exit(2);
        }
    }
    let n = out.finish();
    println!("events={} runs={}", n, run);
}
