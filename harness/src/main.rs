//! vharness — conformance harness binding the TLA+ specifications in /verif/spec to the
//! real smartcore code in /repo.  Usage: vharness <property> <mode> <file> [...]
mod util;
mod c16;

fn main() {
    let args: Vec<String> = std::env::args().skip(1).collect();
    if args.is_empty() {
        eprintln!("usage: vharness <property> <mode> <file>");
        std::process::exit(2);
    }
    util::silence_panics();
    let rest = &args[1..];
    match args[0].as_str() {
        "c16" => c16::run(rest),
        other => {
            eprintln!("unknown property module {}", other);
            std::process::exit(2);
        }
    }
}
