//! xsort — drives QuickArgSort (src/algorithm/sort/quick_sort.rs) through the cfg-guarded
//! re-export and records inputs/outputs.  Integer inputs verbatim; float inputs as dense ranks.
use rand::Rng;
use serde_json::json;
use smartcore::verif::QuickArgSort;
use vutil::*;

fn event(run: i64, v: &Vec<f64>, vi: &Vec<i64>, copy: bool, out: &mut Out) {
    let v1 = v.clone();
    let r = guard(move || {
        let mut w = v1;
        if copy {
            let idx = w.quick_argsort();
            let mut sorted = vec![0.0; w.len()];
            for (i, &j) in idx.iter().enumerate() {
                if j < w.len() {
                    sorted[i] = w[j];
                }
            }
            (idx, sorted, w)
        } else {
            let idx = w.quick_argsort_mut();
            let s = w.clone();
            (idx, s, w)
        }
    });
    let kind = if copy { "copy" } else { "mut" };
    match r {
        Ok((idx, sorted, after)) => {
            // project the float outputs through the same order-isomorphism as the input
            let proj = |x: &Vec<f64>| -> Vec<i64> {
                x.iter()
                    .map(|a| match v.iter().position(|b| b == a) {
                        Some(p) => vi[p],
                        None => -1,
                    })
                    .collect()
            };
            out.emit(json!({"run": run, "ev": "ArgSort", "kind": kind, "status": "ok", "v": vi,
                            "idx": idx, "out": proj(&sorted), "after": proj(&after)}));
        }
        Err(_) => out.emit(json!({"run": run, "ev": "ArgSort", "kind": kind, "status": "panic", "v": vi})),
    }
}

fn main() {
    let args: Vec<String> = std::env::args().skip(1).collect();
    silence_panics();
    let mode = arg(&args, 0);
    let mut out = Out::create(arg(&args, 1));
    let mut run = 0i64;
    let th = thorough();
    match mode {
        "gen-exhaustive" => {
            // the model's domain: every vector of length 1..=9 over {0,1,2}
            for n in 1..=9usize {
                let total = 3usize.pow(n as u32);
                for code in 0..total {
                    let mut c = code;
                    let mut vi = Vec::with_capacity(n);
                    for _ in 0..n {
                        vi.push((c % 3) as i64);
                        c /= 3;
                    }
                    let v: Vec<f64> = vi.iter().map(|&x| x as f64).collect();
                    run += 1;
                    event(run, &v, &vi, false, &mut out);
                }
            }
        }
        "gen-random" => {
            let mut r = rng(90);
            let cnt = if th { 6000 } else { 1500 };
            for t in 0..cnt {
                let n = match t % 4 {
                    0 => r.gen_range(1..=12),
                    1 => r.gen_range(8..=40),
                    2 => r.gen_range(30..=200),
                    _ => r.gen_range(100..=600),
                };
                let style = r.gen_range(0..6);
                let v: Vec<f64> = (0..n)
                    .map(|i| match style {
                        0 => r.gen_range(0..3) as f64,                 // heavy ties
                        1 => r.gen::<f64>() * 2.0 - 1.0,               // continuous
                        2 => i as f64,                                 // sorted
                        3 => (n - i) as f64,                           // reversed
                        4 => 7.0,                                      // constant
                        _ => ((i * 7919) % 13) as f64 - 6.0 + (r.gen_range(0..2) as f64) * 1e-9,
                    })
                    .collect();
                let vi = dense_ranks(&v);
                run += 1;
                event(run, &v, &vi, t % 3 == 0, &mut out);
            }
        }
        _ => {
            eprintln!("unknown mode");
            std::process::exit(2);
        }
    }
    let n = out.finish();
    println!("events={}", n);
}
