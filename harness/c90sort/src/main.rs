//! xsort — drives QuickArgSort (src/algorithm/sort/quick_sort.rs) through the cfg-guarded
//! re-export and records inputs/outputs.  Integer inputs verbatim; float inputs as dense ranks.
use rand::Rng;
use serde_json::json;
use smartcore::verif::QuickArgSort;
use vutil::*;

fn event(run: i64, v: &Vec<f64>, vi: &Vec<i64>, copy: bool, out: &mut Out) {
    let v1 = v.clone();
    let r = guard(move || {
        let mut w = v1;
        if copy {
            let idx = w.quick_argsort();
            let mut sorted = vec![0.0; w.len()];
            for (i, &j) in idx.iter().enumerate() {
                if j < w.len() {
                    sorted[i] = w[j];
                }
            }
            (idx, sorted, w)
        } else {
            let idx = w.quick_argsort_mut();
            let s = w.clone();
            (idx, s, w)
        }
    });
    let kind = if copy { "copy" } else { "mut" };
    match r {
        Ok((idx, sorted, after)) => {
            // project the float outputs through the same order-isomorphism as the input
            let proj = |x: &Vec<f64>| -> Vec<i64> {
                x.iter()
                    .map(|a| match v.iter().position(|b| b == a) {
                        Some(p) => vi[p],
                        None => -1,
                    })
                    .collect()
            };
            out.emit(json!({"run": run, "ev": "ArgSort", "kind": kind, "status": "ok", "v": vi,
                            "idx": idx, "out": proj(&sorted), "after": proj(&after)}));
        }
        Err(_) => out.emit(json!({"run": run, "ev": "ArgSort", "kind": kind, "status": "panic", "v": vi})),
    }
}

/// An adversarial ORDER of n distinct keys for the library's quicksort (input generation
/// only).  McIlroy's "killer adversary": the routine of src/algorithm/sort/quick_sort.rs
/// (insertion sort below 8 elements, median-of-three pivot moved to l+1, sentinel scans) is
/// run here on item ids whose keys are decided lazily -- an item stays "gas" (larger than
/// every decided key) until a comparison of two gas items forces one of them, the current
/// pivot candidate, to be frozen at the next small value.  Every pivot therefore ends up
/// among the smallest keys of its range and every partition step splits into a few
/// elements and the rest: the partition tree degenerates into a chain as deep as n/2,
/// which is what a sort with a bounded explicit stack must survive.  Returns the key of
/// every position (a permutation of 0..n-1).
fn killer_order(n: usize) -> Vec<i64> {
    struct Adv {
        val: Vec<i64>,
        gas: i64,
        nsolid: i64,
        candidate: usize,
    }
    impl Adv {
        fn freeze(&mut self, x: usize) {
            self.val[x] = self.nsolid;
            self.nsolid += 1;
        }
        /// sign of key(x) - key(y)
        fn cmp(&mut self, x: usize, y: usize) -> i64 {
            if x == y {
                return 0;
            }
            if self.val[x] == self.gas && self.val[y] == self.gas {
                if x == self.candidate {
                    self.freeze(x);
                } else {
                    self.freeze(y);
                }
            }
            if self.val[x] == self.gas {
                self.candidate = x;
            } else if self.val[y] == self.gas {
                self.candidate = y;
            }
            self.val[x] - self.val[y]
        }
    }
    if n == 0 {
        return vec![];
    }
    let mut ad = Adv { val: vec![n as i64; n], gas: n as i64, nsolid: 0, candidate: 0 };
    let mut it: Vec<usize> = (0..n).collect(); // it[k] = id of the item now at position k
    let mut stack: Vec<(usize, usize)> = Vec::new();
    let (mut l, mut ir) = (0usize, n - 1);
    loop {
        if ir - l < 7 {
            for j in l + 1..=ir {
                let a = it[j];
                let mut i = j as i64 - 1;
                while i >= l as i64 {
                    if ad.cmp(it[i as usize], a) <= 0 {
                        break;
                    }
                    it[(i + 1) as usize] = it[i as usize];
                    i -= 1;
                }
                it[(i + 1) as usize] = a;
            }
            match stack.pop() {
                None => break,
                Some((a, b)) => {
                    l = a;
                    ir = b;
                }
            }
        } else {
            let k = (l + ir) >> 1;
            it.swap(k, l + 1);
            if ad.cmp(it[l], it[ir]) > 0 {
                it.swap(l, ir);
            }
            if ad.cmp(it[l + 1], it[ir]) > 0 {
                it.swap(l + 1, ir);
            }
            if ad.cmp(it[l], it[l + 1]) > 0 {
                it.swap(l, l + 1);
            }
            let mut i = l + 1;
            let mut j = ir;
            let a = it[l + 1];
            loop {
                loop {
                    i += 1;
                    if ad.cmp(it[i], a) >= 0 {
                        break;
                    }
                }
                loop {
                    j -= 1;
                    if ad.cmp(it[j], a) <= 0 {
                        break;
                    }
                }
                if j < i {
                    break;
                }
                it.swap(i, j);
            }
            it[l + 1] = it[j];
            it[j] = a;
            // larger part deferred, smaller part next (as the library does)
            if ir - i + 1 >= j - l {
                stack.push((i, ir));
                ir = j - 1;
            } else {
                stack.push((l, j - 1));
                l = i;
            }
        }
    }
    // items never compared while gas keep the remaining large keys
    for x in 0..n {
        if ad.val[x] == ad.gas {
            ad.val[x] = ad.nsolid;
            ad.nsolid += 1;
        }
    }
    ad.val
}

fn main() {
    let args: Vec<String> = std::env::args().skip(1).collect();
    silence_panics();
    let mode = arg(&args, 0);
    let mut out = Out::create(arg(&args, 1));
    let mut run = 0i64;
    let th = thorough();
    match mode {
        "gen-exhaustive" => {
            // the model's domain: every vector of length 1..=9 over {0,1,2}
            for n in 1..=9usize {
                let total = 3usize.pow(n as u32);
                for code in 0..total {
                    let mut c = code;
                    let mut vi = Vec::with_capacity(n);
                    for _ in 0..n {
                        vi.push((c % 3) as i64);
                        c /= 3;
                    }
                    let v: Vec<f64> = vi.iter().map(|&x| x as f64).collect();
                    run += 1;
                    event(run, &v, &vi, false, &mut out);
                }
            }
        }
        "gen-random" => {
            let mut r = rng(90);
            let cnt = if th { 6000 } else { 1500 };
            for t in 0..cnt {
                let n = match t % 4 {
                    0 => r.gen_range(1..=12),
                    1 => r.gen_range(8..=40),
                    2 => r.gen_range(30..=200),
                    _ => r.gen_range(100..=600),
                };
                let style = r.gen_range(0..6);
                let v: Vec<f64> = (0..n)
                    .map(|i| match style {
                        0 => r.gen_range(0..3) as f64,                 // heavy ties
                        1 => r.gen::<f64>() * 2.0 - 1.0,               // continuous
                        2 => i as f64,                                 // sorted
                        3 => (n - i) as f64,                           // reversed
                        4 => 7.0,                                      // constant
                        _ => ((i * 7919) % 13) as f64 - 6.0 + (r.gen_range(0..2) as f64) * 1e-9,
                    })
                    .collect();
                let vi = dense_ranks(&v);
                run += 1;
                event(run, &v, &vi, t % 3 == 0, &mut out);
            }
            // adversarial ORDER family: median-of-three killers (partition tree a chain ~n/2
            // deep), plain, reversed, mirrored and with tied pairs; the explicit stack of the
            // routine must stay bounded by log2 n whatever the order
            for (t, &n) in [72usize, 80, 100, 128, 200, 256, 300, 400].iter().enumerate() {
                let base = killer_order(n);
                let variants: Vec<Vec<i64>> = vec![
                    base.clone(),
                    base.iter().rev().cloned().collect(),
                    base.iter().map(|&k| n as i64 - 1 - k).collect(),
                    base.iter().map(|&k| k / 2).collect(),
                ];
                for (vi_, keys) in variants.iter().enumerate() {
                    let v: Vec<f64> = keys.iter().map(|&k| k as f64 / 512.0).collect();
                    let vi = dense_ranks(&v);
                    run += 1;
                    event(run, &v, &vi, (t + vi_) % 3 == 0, &mut out);
                }
            }
        }
        _ => {
            eprintln!("unknown mode");
            std::process::exit(2);
        }
    }
    let n = out.finish();
    println!("events={}", n);
}
