//! C13 — DBSCAN.  Drives the real `smartcore::cluster::dbscan::DBSCAN` (fit + predict) with
//! both neighbour-search back ends on integer-lattice data sets and records, per data set,
//! one ndjson event with the inputs and what the library returned: `cluster_labels` /
//! `num_classes` read from the serde dump of the fitted model and the labels `predict` gave
//! for a list of query rows.
//!
//! No property logic lives here.  Whether a labelling is a density-based clustering, whether
//! two back ends agree, whether a predicted label is a plurality label is decided by TLC from
//! `spec/cluster/DbscanProps.tla` (via `DbscanTrace.tla`).  This file only
//!   * generates inputs (random families; or the cases TLC enumerated: `replay-spec`),
//!   * feeds the library `2^scaleExp * integer` coordinates (exact) and the radius
//!     `2^scaleExp * eps` (Manhattan / Minkowski-1) or `2^scaleExp * sqrt(eps)` (Euclidean,
//!     `eps` being the squared radius), computed in the scalar type under test,
//!   * projects outputs to integers (labels are integers already).
//!
//! Sub-commands:  gen-random <out>            seeded random families (VERIF_SEED, VERIF_TIER)
//!                replay-spec <cases> <out>   run the cases listed in <cases> (ndjson)
//!                replay-file <replay> <out>  re-run the events stored in a replay artefact
use rand::rngs::StdRng;
use rand::seq::SliceRandom;
use rand::Rng;
use serde::Serialize;
use serde_json::{json, Value};
use smartcore::algorithm::neighbour::KNNAlgorithmName;
use smartcore::api::{Predictor, UnsupervisedEstimator};
use smartcore::cluster::dbscan::{DBSCANParameters, DBSCAN};
use smartcore::linalg::naive::dense_matrix::DenseMatrix;
use smartcore::math::distance::{Distance, Distances};
use smartcore::math::num::RealNumber;
use std::sync::mpsc;
use std::time::Duration;
use vutil::*;

#[derive(Clone, Debug, Default)]
struct Case {
    ev: String,     // "Run" | "BadParam"
    src: String,    // family / origin of the input
    case: i64,      // id of the TLC-enumerated case (replay-spec), else -1
    pts: Vec<Vec<i64>>,
    key: String,    // "man" | "euc2"
    eps: i64,       // Manhattan radius, or squared Euclidean radius
    min_pts: usize,
    metric: String, // "manhattan" | "minkowski1" | "euclidean"
    ty: String,     // "f64" | "f32"
    scale_exp: i32,
    qs: Vec<Vec<i64>>,
    /// two-level encoding of the coordinates (multi-scale family): when enc_m > 0 an integer
    /// coordinate c of `pts` / `qs` stands for the real coordinate (c div enc_m) * 2^enc_k +
    /// (c mod enc_m), with c mod enc_m < enc_l.  enc_m = 0: the coordinate is c itself.
    enc_m: i64,
    enc_l: i64,
    enc_k: i32,
    /// "inherent" (DBSCAN::fit / DBSCAN::predict) or "trait" (UnsupervisedEstimator::fit /
    /// Predictor::predict of smartcore::api)
    api: String,
}

fn conv<T: RealNumber>(v: i64, c: &Case) -> T {
    // plain: |v| < 2^30 and |s| <= 50: v * 2^s is exact in f64 (and in f32 for |v| < 2^24)
    // two-level: hi * 2^k + lo with hi < 8, k <= 48, lo < 2^12 has at most 51 significant bits
    let real = if c.enc_m > 0 {
        (v.div_euclid(c.enc_m) as f64) * 2f64.powi(c.enc_k) + (v.rem_euclid(c.enc_m) as f64)
    } else {
        v as f64
    };
    T::from_f64(real * 2f64.powi(c.scale_exp)).unwrap()
}

fn radius<T: RealNumber>(key: &str, eps: i64, s: i32) -> T {
    let two_s = T::from_f64(2f64.powi(s)).unwrap();
    let e = T::from_f64(eps as f64).unwrap();
    if key == "euc2" {
        e.sqrt() * two_s
    } else {
        e * two_s
    }
}

fn failed_fit(backend: &str, status: &str) -> Value {
    json!({"backend": backend, "status": status, "y": [], "k": 0,
           "pstatus": "none", "pint": false, "out": []})
}

/// one fit (+ predict on the query rows) of the real DBSCAN; a panic is an outcome
fn fit_one<T, D>(
    rows: Vec<Vec<T>>,
    qrows: Vec<Vec<T>>,
    eps: T,
    min_pts: usize,
    backend: &'static str,
    dist: D,
    use_trait: bool,
) -> Value
where
    T: RealNumber + Serialize + Send + 'static,
    D: Distance<Vec<T>, T> + Serialize + Send + 'static,
{
    let r = guard(move || {
        let x = DenseMatrix::from_2d_vec(&rows);
        let algo = if backend == "linear" {
            KNNAlgorithmName::LinearSearch
        } else {
            KNNAlgorithmName::CoverTree
        };
        let params = DBSCANParameters::default()
            .with_eps(eps)
            .with_min_samples(min_pts)
            .with_algorithm(algo)
            .with_distance(dist);
        let fitted = if use_trait {
            <DBSCAN<T, D> as UnsupervisedEstimator<DenseMatrix<T>, DBSCANParameters<T, D>>>::fit(&x, params)
        } else {
            DBSCAN::fit(&x, params)
        };
        match fitted {
            Err(_) => failed_fit(backend, "err"),
            Ok(m) => {
                let dump = serde_json::to_value(&m).expect("serde dump of the fitted model");
                let y: Vec<i64> = dump["cluster_labels"]
                    .as_array()
                    .expect("cluster_labels missing from the serde dump")
                    .iter()
                    .map(|v| v.as_i64().expect("non-integer cluster label"))
                    .collect();
                let k = dump["num_classes"]
                    .as_i64()
                    .expect("num_classes missing from the serde dump");
                let (pstatus, pint, out): (&str, bool, Vec<i64>) = if qrows.is_empty() {
                    ("none", false, vec![])
                } else {
                    let q = DenseMatrix::from_2d_vec(&qrows);
                    match guard(|| {
                        if use_trait {
                            <DBSCAN<T, D> as Predictor<DenseMatrix<T>, Vec<T>>>::predict(&m, &q)
                        } else {
                            m.predict(&q)
                        }
                    }) {
                        Ok(Ok(v)) => {
                            let f: Vec<f64> = v.iter().map(|t| t.to_f64().unwrap_or(f64::NAN)).collect();
                            match intv(&f) {
                                Some(iv) => ("ok", true, iv),
                                None => ("ok", false, vec![]),
                            }
                        }
                        Ok(Err(_)) => ("err", false, vec![]),
                        Err(_) => ("panic", false, vec![]),
                    }
                };
                json!({"backend": backend, "status": "ok", "y": y, "k": k,
                       "pstatus": pstatus, "pint": pint, "out": out})
            }
        }
    });
    match r {
        Ok(v) => v,
        Err(_) => failed_fit(backend, "panic"),
    }
}

fn fits_with<T, D>(c: &Case, dist: D) -> Vec<Value>
where
    T: RealNumber + Serialize + Send + 'static,
    D: Distance<Vec<T>, T> + Serialize + Send + 'static,
{
    let rows: Vec<Vec<T>> = c
        .pts
        .iter()
        .map(|p| p.iter().map(|&v| conv::<T>(v, c)).collect())
        .collect();
    let qrows: Vec<Vec<T>> = c
        .qs
        .iter()
        .map(|p| p.iter().map(|&v| conv::<T>(v, c)).collect())
        .collect();
    let eps: T = radius::<T>(&c.key, c.eps, c.scale_exp);
    let mut out = Vec::new();
    for backend in ["linear", "cover"].iter() {
        out.push(fit_one(rows.clone(), qrows.clone(), eps, c.min_pts, *backend, dist.clone(), c.api == "trait"));
    }
    out
}

fn fits_ty<T>(c: &Case) -> Vec<Value>
where
    T: RealNumber + Serialize + Send + 'static,
{
    match c.metric.as_str() {
        "manhattan" => fits_with::<T, _>(c, Distances::manhattan()),
        "minkowski1" => fits_with::<T, _>(c, Distances::minkowski(1)),
        "euclidean" => fits_with::<T, _>(c, Distances::euclidian()),
        m => {
            eprintln!("unknown metric {}", m);
            std::process::exit(2)
        }
    }
}

fn fits_of(c: &Case) -> Vec<Value> {
    if c.ty == "f32" {
        fits_ty::<f32>(c)
    } else {
        fits_ty::<f64>(c)
    }
}

/// Runs the cases on one long-lived helper thread.  A case that does not come back within
/// the deadline is recorded with outcome "timeout" for both back ends (a hang is an
/// outcome); the stuck thread is abandoned and a fresh one serves the remaining cases.
struct Runner {
    tx: mpsc::Sender<Case>,
    rx: mpsc::Receiver<Vec<Value>>,
}

impl Runner {
    fn new() -> Runner {
        let (tx, crx) = mpsc::channel::<Case>();
        let (ctx, rx) = mpsc::channel::<Vec<Value>>();
        std::thread::Builder::new()
            .stack_size(256 << 20)
            .spawn(move || {
                for c in crx.iter() {
                    if ctx.send(fits_of(&c)).is_err() {
                        break;
                    }
                }
            })
            .unwrap();
        Runner { tx, rx }
    }
    fn fits(&mut self, c: &Case) -> Vec<Value> {
        self.tx.send(c.clone()).expect("worker thread gone");
        match self.rx.recv_timeout(Duration::from_secs(120)) {
            Ok(v) => v,
            Err(_) => {
                *self = Runner::new();
                vec![failed_fit("linear", "timeout"), failed_fit("cover", "timeout")]
            }
        }
    }
}

/// Query rows whose eps-ball is *contested*: it holds rows of at least two clusters and at
/// least one unclustered row.  Pure input selection: a preliminary fit of the same data
/// supplies the labels, candidate rows (every training row moved along one axis by one unit or
/// by the radius) are kept when their ball looks contested, and the chosen rows are appended to
/// the case's query list.  What the right answer for such a row is, is decided by the
/// specification (PredictOK), not here.
fn add_contested_queries(rn: &mut Runner, c: &mut Case) {
    if c.ev != "Run" || c.enc_m > 0 || c.pts.len() > 200 || c.pts.len() < 5 {
        return;
    }
    let mut probe = c.clone();
    probe.qs = Vec::new();
    let fits = rn.fits(&probe);
    let y: Vec<i64> = match fits.iter().find(|f| f["status"] == "ok") {
        Some(f) => f["y"].as_array().unwrap().iter().map(|v| v.as_i64().unwrap()).collect(),
        None => return,
    };
    if y.len() != c.pts.len() {
        return;
    }
    let d = c.pts[0].len();
    let rad = axis_radius(&c.key, c.eps).max(1);
    let mut seen: std::collections::HashSet<Vec<i64>> = std::collections::HashSet::new();
    let mut found: Vec<(i64, Vec<i64>)> = Vec::new();
    'rows: for p in c.pts.iter() {
        for j in 0..d {
            for delta in [1i64, -1, rad, -rad].iter() {
                let mut q = p.clone();
                q[j] += *delta;
                if !seen.insert(q.clone()) {
                    continue;
                }
                if seen.len() > 800 {
                    break 'rows;
                }
                let mut labels: Vec<i64> = Vec::new();
                let mut noise = 0i64;
                for (i, t) in c.pts.iter().enumerate() {
                    if key_dist(&c.key, &q, t) <= c.eps {
                        if y[i] < 0 {
                            noise += 1;
                        } else if !labels.contains(&y[i]) {
                            labels.push(y[i]);
                        }
                    }
                }
                if labels.len() >= 2 && noise >= 1 {
                    found.push((noise, q));
                }
            }
        }
    }
    found.sort_by(|a, b| b.0.cmp(&a.0));
    for (_, q) in found.into_iter().take(6) {
        c.qs.push(q);
    }
}

fn run_case(rn: &mut Runner, run: i64, c: &Case) -> Value {
    let mut c = c.clone();
    if c.src != "refile" {
        add_contested_queries(rn, &mut c);
    }
    let c = &c;
    let fits = rn.fits(c);
    json!({"run": run, "ev": c.ev, "src": c.src, "case": c.case, "pts": c.pts, "key": c.key,
           "eps": c.eps, "minPts": c.min_pts, "metric": c.metric, "ty": c.ty,
           "scaleExp": c.scale_exp, "qs": c.qs,
           "enc": {"M": c.enc_m, "L": c.enc_l, "K": c.enc_k},
           "api": if c.api == "trait" { "trait" } else { "inherent" }, "fits": fits})
}

// ------------------------------------------------------------------ input generation only
fn key_dist(key: &str, a: &[i64], b: &[i64]) -> i64 {
    a.iter()
        .zip(b.iter())
        .map(|(x, y)| if key == "man" { (x - y).abs() } else { (x - y) * (x - y) })
        .sum()
}

/// integer radius along one axis that is still inside the neighbourhood
fn axis_radius(key: &str, eps: i64) -> i64 {
    if key == "man" {
        eps
    } else {
        let mut r = 0i64;
        while (r + 1) * (r + 1) <= eps {
            r += 1;
        }
        r
    }
}

/// query rows for a TLC-enumerated lattice case: the lattice points around the data and one
/// row far from everything
fn lattice_queries(pts: &[Vec<i64>], key: &str, eps: i64) -> Vec<Vec<i64>> {
    let d = pts[0].len();
    let lo: Vec<i64> = (0..d).map(|j| pts.iter().map(|p| p[j]).min().unwrap()).collect();
    let hi: Vec<i64> = (0..d).map(|j| pts.iter().map(|p| p[j]).max().unwrap()).collect();
    let mut qs: Vec<Vec<i64>> = Vec::new();
    if d == 1 {
        for v in (lo[0] - 1)..=(hi[0] + 1) {
            qs.push(vec![v]);
        }
    } else {
        let mut cur = lo.clone();
        'outer: loop {
            qs.push(cur.clone());
            if qs.len() >= 6 {
                break;
            }
            let mut j = 0;
            loop {
                if j == d {
                    break 'outer;
                }
                if cur[j] < hi[j] {
                    cur[j] += 1;
                    break;
                }
                cur[j] = lo[j];
                j += 1;
            }
        }
        qs.push(lo.iter().map(|v| v - 1).collect());
        qs.push(hi.iter().map(|v| v + 1).collect());
    }
    let far = axis_radius(key, eps) + 5;
    qs.push(hi.iter().map(|v| v + far).collect());
    qs
}

fn random_queries(r: &mut StdRng, pts: &[Vec<i64>], key: &str, eps: i64) -> Vec<Vec<i64>> {
    let d = pts[0].len();
    let n = pts.len();
    let rad = axis_radius(key, eps);
    let lo: Vec<i64> = (0..d).map(|j| pts.iter().map(|p| p[j]).min().unwrap()).collect();
    let hi: Vec<i64> = (0..d).map(|j| pts.iter().map(|p| p[j]).max().unwrap()).collect();
    let mut qs: Vec<Vec<i64>> = Vec::new();
    // in-sample rows
    for _ in 0..3 {
        qs.push(pts[r.gen_range(0..n)].clone());
    }
    // near rows: a training row moved along one axis by the radius, one less, one more
    for delta in [rad, rad + 1, (rad - 1).max(0), rad].iter() {
        let mut q = pts[r.gen_range(0..n)].clone();
        let j = r.gen_range(0..d);
        if r.gen_bool(0.5) {
            q[j] += *delta;
        } else {
            q[j] -= *delta;
        }
        qs.push(q);
    }
    // anywhere in the bounding box
    for _ in 0..2 {
        qs.push((0..d).map(|j| r.gen_range(lo[j]..=hi[j])).collect());
    }
    // far from everything
    qs.push(hi.iter().map(|v| v + rad + 5).collect());
    qs.push(lo.iter().map(|v| v - 2 * rad - 7).collect());
    qs
}

fn gen_points(r: &mut StdRng, family: &str, n: usize, d: usize, step: i64) -> Vec<Vec<i64>> {
    let mut pts: Vec<Vec<i64>> = Vec::with_capacity(n);
    match family {
        "uniform" => {
            // side chosen so that the box holds roughly n .. 4n lattice points: many ties
            let side = (((n as f64) * r.gen_range(1.0..4.0)).powf(1.0 / d as f64).ceil() as i64).max(2) * step;
            for _ in 0..n {
                pts.push((0..d).map(|_| r.gen_range(0..=side)).collect());
            }
        }
        "blobs" => {
            let nc = r.gen_range(1..=4usize);
            let centres: Vec<Vec<i64>> = (0..nc)
                .map(|_| (0..d).map(|_| r.gen_range(0..=12 * step)).collect())
                .collect();
            let spread = r.gen_range(1..=2) * step;
            for _ in 0..n {
                if r.gen_bool(0.12) {
                    pts.push((0..d).map(|_| r.gen_range(-3 * step..=15 * step)).collect());
                } else {
                    let c = &centres[r.gen_range(0..nc)];
                    pts.push(c.iter().map(|v| v + r.gen_range(-spread..=spread)).collect());
                }
            }
        }
        "chain" => {
            // consecutive points exactly `step` apart along an axis, with occasional gaps of
            // step+1 (a new cluster), duplicates and branches
            let mut cur: Vec<i64> = (0..d).map(|_| r.gen_range(0..=3)).collect();
            pts.push(cur.clone());
            while pts.len() < n {
                let u: f64 = r.gen();
                if u < 0.12 {
                    pts.push(cur.clone());
                    continue;
                }
                if u < 0.22 {
                    cur = pts[r.gen_range(0..pts.len())].clone();
                }
                let j = r.gen_range(0..d);
                let s = if u > 0.9 { step + 1 } else { step };
                if r.gen_bool(0.8) {
                    cur[j] += s;
                } else {
                    cur[j] -= s;
                }
                pts.push(cur.clone());
            }
        }
        "dups" => {
            let nl = r.gen_range(1..=5usize);
            let locs: Vec<Vec<i64>> = (0..nl)
                .map(|_| (0..d).map(|_| r.gen_range(0..=3) * step).collect())
                .collect();
            for _ in 0..n {
                pts.push(locs[r.gen_range(0..nl)].clone());
            }
        }
        "bridge" => {
            // two dense groups two steps apart along axis 0 and a single row half way: a
            // border row within reach of two different clusters
            let t = r.gen_range(2..=4usize);
            let at = |x: i64| -> Vec<i64> {
                let mut p = vec![0i64; d];
                p[0] = x * step;
                p
            };
            for _ in 0..t {
                pts.push(at(-1));
                pts.push(at(3));
            }
            pts.push(at(0));
            pts.push(at(1));
            pts.push(at(2));
            while pts.len() < n {
                if r.gen_bool(0.5) {
                    // far-away extra rows
                    pts.push((0..d).map(|_| r.gen_range(10..=14) * step).collect());
                } else {
                    pts.push(at(*[-1i64, 3].choose(r).unwrap()));
                }
            }
        }
        _ => {
            // "identical"
            let p: Vec<i64> = (0..d).map(|_| r.gen_range(0..=5)).collect();
            for _ in 0..n {
                pts.push(p.clone());
            }
        }
    }
    pts
}

fn gen_case(r: &mut StdRng, n: usize) -> Case {
    let d = *[1usize, 1, 2, 2, 2, 3, 4].choose(r).unwrap();
    let family = if n == 1 {
        "identical"
    } else {
        *["uniform", "uniform", "uniform", "blobs", "blobs", "blobs", "chain", "chain", "chain", "dups", "dups",
          "bridge", "bridge", "identical"]
            .choose(r)
            .unwrap()
    };
    let key = if r.gen_bool(0.5) { "man" } else { "euc2" };
    let step = r.gen_range(1..=3i64);
    let n = if family == "bridge" { n.max(9) } else { n };
    let mut pts = gen_points(r, family, n, d, step);
    if r.gen_bool(0.7) {
        pts.shuffle(r);
    }
    // radius: mostly the distance of an actual pair (rows exactly eps apart), otherwise
    // anything from "all noise" to "one cluster"
    let maxd = pts
        .iter()
        .flat_map(|a| pts.iter().map(move |b| key_dist(key, a, b)))
        .max()
        .unwrap()
        .max(1);
    let unit = if key == "man" { step } else { step * step };
    let u: f64 = r.gen();
    let mut eps = if family == "chain" || family == "bridge" {
        if u < 0.7 { unit } else if u < 0.85 { (unit - 1).max(1) } else { unit + 1 }
    } else if u < 0.55 {
        let a = &pts[r.gen_range(0..pts.len())];
        let b = &pts[r.gen_range(0..pts.len())];
        key_dist(key, a, b)
    } else if u < 0.65 {
        1
    } else if u < 0.75 {
        maxd
    } else {
        r.gen_range(1..=maxd)
    };
    if eps < 1 {
        eps = unit;
    }
    let min_pts = if family == "bridge" && r.gen_bool(0.7) {
        4
    } else {
        r.gen_range(1..=8usize)
    };
    let metric = if key == "euc2" {
        "euclidean"
    } else if r.gen_bool(0.5) {
        "manhattan"
    } else {
        "minkowski1"
    };
    let ty = if r.gen_bool(0.25) { "f32" } else { "f64" };
    let scale_exp = if r.gen_bool(0.4) { r.gen_range(-20..=20) } else { 0 };
    let qs = random_queries(r, &pts, key, eps);
    Case {
        ev: "Run".into(),
        src: family.into(),
        case: -1,
        pts,
        key: key.into(),
        eps,
        min_pts,
        metric: metric.into(),
        ty: ty.into(),
        scale_exp,
        qs,
        api: (if r.gen_bool(0.3) { "trait" } else { "inherent" }).into(),
        ..Default::default()
    }
}

/// Widely spread sets: coordinates on the half-integer grid 0, 1/2, .., 40 (integers 0..80
/// fed with scaleExp = -1, or another power of two) in 2..4 dimensions, either uniform or as
/// a few tight islands far apart; eps small relative to the spread, min_samples 1..3.  The
/// distances range over two orders of magnitude, so the cover tree gets several levels and
/// nodes with many children -- the situations its branch-and-bound pruning has to get right.
fn gen_spread_case(r: &mut StdRng) -> Case {
    let d = *[2usize, 2, 2, 3, 3, 4].choose(r).unwrap();
    let n = r.gen_range(4..=60usize);
    let islands = r.gen_bool(0.4);
    let mut pts: Vec<Vec<i64>> = Vec::with_capacity(n);
    if islands {
        let nc = r.gen_range(2..=8usize);
        let centres: Vec<Vec<i64>> = (0..nc)
            .map(|_| (0..d).map(|_| r.gen_range(4..=76)).collect())
            .collect();
        let spread = r.gen_range(1..=4i64);
        for _ in 0..n {
            let c = &centres[r.gen_range(0..nc)];
            pts.push(c.iter().map(|v| v + r.gen_range(-spread..=spread)).collect());
        }
    } else {
        for _ in 0..n {
            pts.push((0..d).map(|_| r.gen_range(0..=80)).collect());
        }
    }
    let key = if r.gen_bool(0.6) { "euc2" } else { "man" };
    // radius between 1/2 and 2 (Manhattan: 1/2 .. 3) in units of the half-integer grid
    let eps = if key == "man" { r.gen_range(1..=6i64) } else { r.gen_range(1..=16i64) };
    let min_pts = r.gen_range(1..=3usize);
    let metric = if key == "euc2" {
        "euclidean"
    } else if r.gen_bool(0.5) {
        "manhattan"
    } else {
        "minkowski1"
    };
    let ty = if r.gen_bool(0.2) { "f32" } else { "f64" };
    let scale_exp = if r.gen_bool(0.7) { -1 } else { r.gen_range(-12..=12) };
    // few query rows: the fit itself queries every training row
    let mut qs = random_queries(r, &pts, key, eps);
    qs.truncate(4);
    Case {
        ev: "Run".into(),
        src: (if islands { "islands" } else { "spread" }).into(),
        case: -1,
        pts,
        key: key.into(),
        eps,
        min_pts,
        metric: metric.into(),
        ty: ty.into(),
        scale_exp,
        qs,
        api: (if r.gen_bool(0.3) { "trait" } else { "inherent" }).into(),
        ..Default::default()
    }
}

/// Size ladder: n rows (beyond the property's "~150") of a 1-D / 2-D lattice.  The leading
/// rows are sparse filler; a chain (steps exactly eps) or a blob that forms the clusters is
/// stored LATE in the row order (after the filler), so a structure that mis-numbers rows
/// beyond an internal block boundary moves labels / votes to other rows.
fn gen_late_case(r: &mut StdRng, n: usize) -> Case {
    let d = *[1usize, 1, 2].choose(r).unwrap();
    let key = if r.gen_bool(0.5) { "man" } else { "euc2" };
    let step = r.gen_range(1..=2i64);
    let late = r.gen_range(6..=60usize).min(n - 1);
    let mut pts: Vec<Vec<i64>> = Vec::with_capacity(n);
    // filler: rows at least 3 steps apart from each other, far left of the late structure
    for i in 0..(n - late) {
        let mut p = vec![0i64; d];
        p[0] = -(4 * step) * (i as i64 + 2);
        if d == 2 {
            p[1] = r.gen_range(-2..=2) * 4 * step;
        }
        pts.push(p);
    }
    let fam = if r.gen_bool(0.5) { "chain" } else { "blobs" };
    let mut tail = gen_points(r, fam, late, d, step);
    for p in tail.iter_mut() {
        p[0] += 20 * step;
    }
    pts.extend(tail);
    if r.gen_bool(0.25) {
        pts.shuffle(r);
    }
    let eps = if key == "man" { step } else { step * step };
    let min_pts = r.gen_range(1..=4usize);
    let metric = if key == "euc2" { "euclidean" } else if r.gen_bool(0.5) { "manhattan" } else { "minkowski1" };
    let ty = if r.gen_bool(0.25) { "f32" } else { "f64" };
    let qs = random_queries(r, &pts, key, eps);
    Case {
        ev: "Run".into(),
        src: "late".into(),
        case: -1,
        pts,
        key: key.into(),
        eps,
        min_pts,
        metric: metric.into(),
        ty: ty.into(),
        scale_exp: if r.gen_bool(0.3) { r.gen_range(-8..=8) } else { 0 },
        qs,
        api: (if r.gen_bool(0.3) { "trait" } else { "inherent" }).into(),
        ..Default::default()
    }
}

/// Multi-scale dyadic sets: a few rows far apart (extent about 3 * 2^K) and one or two tight
/// groups whose rows are a few units apart, K = 40..48, eps a few units.  The coordinates are
/// written in the two-level code of `Case::enc_*` (code = hi * M + lo, real = hi * 2^K + lo,
/// lo < L), which the specification checks and under which "within eps" is the same relation
/// on codes and on real coordinates.  Everything is dyadic, hence exact in f64.  The cover
/// tree needs > 100 levels to separate the rows of a group.
fn gen_multiscale_case(r: &mut StdRng) -> Case {
    let (m, l) = (4096i64, 256i64);
    let k = r.gen_range(40..=48);
    let d = *[1usize, 1, 2, 2, 3].choose(r).unwrap();
    let key = if r.gen_bool(0.5) { "man" } else { "euc2" };
    let mut pts: Vec<Vec<i64>> = Vec::new();
    for _ in 0..r.gen_range(2..=6usize) {
        pts.push((0..d).map(|_| r.gen_range(0..=3) * m + r.gen_range(0..4)).collect());
    }
    let step = r.gen_range(1..=3i64);
    for _ in 0..r.gen_range(1..=2usize) {
        let anchor: Vec<i64> = (0..d).map(|_| r.gen_range(0..=3) * m + r.gen_range(20..100)).collect();
        let g = r.gen_range(3..=24usize);
        let axis = r.gen_range(0..d);
        for j in 0..g {
            let mut p = anchor.clone();
            if r.gen_bool(0.7) {
                p[axis] += (j as i64) * step; // a chain, steps exactly `step`
            } else {
                for c in p.iter_mut() {
                    *c += r.gen_range(-6..=6) * step;
                }
            }
            pts.push(p);
        }
    }
    if r.gen_bool(0.6) {
        pts.shuffle(r);
    }
    let eps = if key == "man" { step * r.gen_range(1..=2) } else { step * step * r.gen_range(1..=2) };
    let n = pts.len();
    let mut qs: Vec<Vec<i64>> = Vec::new();
    for _ in 0..3 {
        qs.push(pts[r.gen_range(0..n)].clone());
    }
    for _ in 0..3 {
        let mut q = pts[r.gen_range(0..n)].clone();
        let j = r.gen_range(0..d);
        let lo = q[j].rem_euclid(m);
        let nlo = (lo + r.gen_range(-3..=3) * step).max(0).min(l - 1);
        q[j] += nlo - lo;
        qs.push(q);
    }
    qs.push((0..d).map(|_| 5 * m + 7).collect()); // far from everything
    Case {
        ev: "Run".into(),
        src: "multiscale".into(),
        case: -1,
        pts,
        key: key.into(),
        eps,
        min_pts: r.gen_range(1..=4usize),
        metric: (if key == "euc2" { "euclidean" } else if r.gen_bool(0.5) { "manhattan" } else { "minkowski1" }).into(),
        ty: "f64".into(),
        scale_exp: if r.gen_bool(0.7) { -k } else { r.gen_range(-60..=0) },
        qs,
        enc_m: m,
        enc_l: l,
        enc_k: k,
        api: (if r.gen_bool(0.3) { "trait" } else { "inherent" }).into(),
    }
}

/// Geometric sets: coordinates +-2^j (j <= 27), sorted, anti-sorted or shuffled, with some
/// duplicates: every doubling adds levels to the cover tree.  Manhattan keys only (squared
/// distances would not fit the specification's 32-bit integers); f64.
fn gen_geometric_case(r: &mut StdRng) -> Case {
    let d = *[1usize, 1, 2].choose(r).unwrap();
    let n = r.gen_range(6..=40usize);
    let mut pts: Vec<Vec<i64>> = Vec::with_capacity(n);
    for i in 0..n {
        if i > 0 && r.gen_bool(0.15) {
            let p = pts[r.gen_range(0..i)].clone();
            pts.push(p);
            continue;
        }
        pts.push(
            (0..d)
                .map(|_| {
                    let j = if r.gen_bool(0.5) { (i % 28) as u32 } else { r.gen_range(0..=27u32) };
                    let v = 1i64 << j;
                    if r.gen_bool(0.2) { -v } else if r.gen_bool(0.1) { 0 } else { v }
                })
                .collect(),
        );
    }
    match r.gen_range(0..3) {
        0 => pts.sort(),
        1 => {
            pts.sort();
            pts.reverse();
        }
        _ => pts.shuffle(r),
    }
    let eps = if r.gen_bool(0.6) { 1i64 << r.gen_range(0..=27u32) } else { r.gen_range(1..=64) };
    let qs = random_queries(r, &pts, "man", eps);
    Case {
        ev: "Run".into(),
        src: "geometric".into(),
        case: -1,
        pts,
        key: "man".into(),
        eps,
        min_pts: r.gen_range(1..=4usize),
        metric: (if r.gen_bool(0.5) { "manhattan" } else { "minkowski1" }).into(),
        ty: "f64".into(),
        scale_exp: if r.gen_bool(0.3) { r.gen_range(-30..=20) } else { 0 },
        qs,
        api: (if r.gen_bool(0.3) { "trait" } else { "inherent" }).into(),
        ..Default::default()
    }
}

/// Contested predict balls by construction: around an empty centre cell, 2..4 cluster "arms"
/// (chains leaving the centre along different axis directions, steps exactly eps) and isolated
/// rows on other neighbouring cells (noise, since min_samples >= 2), with small multiplicities.
/// The centre -- found again by `add_contested_queries` -- sees one or two votes per cluster
/// and one or more noise votes.
fn gen_contested_case(r: &mut StdRng) -> Case {
    let d = *[2usize, 2, 3].choose(r).unwrap();
    let key = if r.gen_bool(0.5) { "man" } else { "euc2" };
    let s = r.gen_range(1..=3i64);
    let min_pts = r.gen_range(2..=3usize);
    let mut dirs: Vec<(usize, i64)> = (0..d).flat_map(|j| vec![(j, 1i64), (j, -1i64)]).collect();
    dirs.shuffle(r);
    let na = r.gen_range(2..=(2 * d - 1).min(4));
    let centre: Vec<i64> = (0..d).map(|_| r.gen_range(-5..=5) * s).collect();
    let mut pts: Vec<Vec<i64>> = Vec::new();
    for (a, &(j, sg)) in dirs.iter().enumerate() {
        if a < na {
            let len = min_pts as i64 + r.gen_range(0..=2);
            for t in 1..=len {
                let mut p = centre.clone();
                p[j] += sg * t * s;
                pts.push(p.clone());
                if t == 1 && r.gen_bool(0.3) {
                    pts.push(p);
                }
            }
        } else if r.gen_bool(0.85) {
            let mut p = centre.clone();
            p[j] += sg * s;
            for _ in 0..r.gen_range(1..=(min_pts - 1)) {
                pts.push(p.clone());
            }
        }
    }
    for _ in 0..r.gen_range(0..=6usize) {
        pts.push((0..d).map(|_| r.gen_range(12..=20) * s).collect());
    }
    pts.shuffle(r);
    let eps = if key == "man" { s } else { s * s };
    let qs = random_queries(r, &pts, key, eps);
    Case {
        ev: "Run".into(),
        src: "contested".into(),
        case: -1,
        pts,
        key: key.into(),
        eps,
        min_pts,
        metric: (if key == "euc2" { "euclidean" } else if r.gen_bool(0.5) { "manhattan" } else { "minkowski1" }).into(),
        ty: (if r.gen_bool(0.25) { "f32" } else { "f64" }).into(),
        scale_exp: if r.gen_bool(0.4) { r.gen_range(-20..=20) } else { 0 },
        qs,
        api: (if r.gen_bool(0.3) { "trait" } else { "inherent" }).into(),
        ..Default::default()
    }
}

fn ivec2(v: &Value) -> Vec<Vec<i64>> {
    v.as_array()
        .expect("array of points")
        .iter()
        .map(|p| p.as_array().expect("point").iter().map(|c| c.as_i64().expect("integer coordinate")).collect())
        .collect()
}

fn case_of_json(v: &Value) -> Case {
    let pts = ivec2(&v["pts"]);
    let key = v["key"].as_str().expect("key").to_string();
    let eps = v["eps"].as_i64().expect("eps");
    let qs = match v.get("qs") {
        Some(q) if q.is_array() && !q.as_array().unwrap().is_empty() => ivec2(q),
        _ => lattice_queries(&pts, &key, eps),
    };
    Case {
        ev: v.get("ev").and_then(|x| x.as_str()).unwrap_or("Run").to_string(),
        src: v.get("src").and_then(|x| x.as_str()).unwrap_or("replay").to_string(),
        case: v.get("case").and_then(|x| x.as_i64()).unwrap_or(-1),
        pts,
        key,
        eps,
        min_pts: v["minPts"].as_u64().expect("minPts") as usize,
        metric: v["metric"].as_str().expect("metric").to_string(),
        ty: v.get("ty").and_then(|x| x.as_str()).unwrap_or("f64").to_string(),
        scale_exp: v.get("scaleExp").and_then(|x| x.as_i64()).unwrap_or(0) as i32,
        qs,
        enc_m: v.get("enc").and_then(|e| e.get("M")).and_then(|x| x.as_i64()).unwrap_or(0),
        enc_l: v.get("enc").and_then(|e| e.get("L")).and_then(|x| x.as_i64()).unwrap_or(0),
        enc_k: v.get("enc").and_then(|e| e.get("K")).and_then(|x| x.as_i64()).unwrap_or(0) as i32,
        api: v.get("api").and_then(|x| x.as_str()).unwrap_or("inherent").to_string(),
    }
}

fn main() {
    let args: Vec<String> = std::env::args().skip(1).collect();
    let args = &args[..];
    silence_panics();
    let mode = arg(args, 0);
    let mut run = 0i64;
    let mut rn = Runner::new();
    match mode {
        "gen-random" => {
            let mut out = Out::create(arg(args, 1));
            let mut r = rng(13);
            let th = thorough();
            // boundary sizes first, every seed: a single row, two rows, all rows identical
            for (n, fam) in [(1usize, "identical"), (1, "identical"), (2, "identical"), (5, "identical"), (40, "identical")].iter() {
                let mut c = gen_case(&mut r, *n);
                if c.src != *fam {
                    let d = c.pts[0].len();
                    c.pts = gen_points(&mut r, fam, *n, d, 1);
                    c.src = fam.to_string();
                    c.qs = random_queries(&mut r, &c.pts, &c.key, c.eps);
                }
                run += 1;
                out.emit(run_case(&mut rn, run, &c));
            }
            let (small, large) = if th { (1500, 150) } else { (400, 30) };
            for _ in 0..small {
                let n = match r.gen_range(0..10) {
                    0 => r.gen_range(1..=4usize),
                    1..=4 => r.gen_range(5..=20usize),
                    5..=7 => r.gen_range(21..=40usize),
                    _ => r.gen_range(41..=60usize),
                };
                run += 1;
                out.emit(run_case(&mut rn, run, &gen_case(&mut r, n)));
            }
            for _ in 0..large {
                let n = r.gen_range(61..=150usize);
                run += 1;
                out.emit(run_case(&mut rn, run, &gen_case(&mut r, n)));
            }
            let nspread = match std::env::var("C13_SPREAD").ok().and_then(|v| v.parse::<usize>().ok()) {
                Some(v) => v,
                None => if th { 6000 } else { 800 },
            };
            for _ in 0..nspread {
                run += 1;
                out.emit(run_case(&mut rn, run, &gen_spread_case(&mut r)));
            }
            // size ladder: data sets and predict batches across internal block sizes
            let ladder: &[usize] = if th {
                &[63, 64, 65, 127, 128, 129, 255, 256, 257, 300, 400, 511, 512, 513, 1023, 1024, 1025]
            } else {
                &[255, 256, 257, 300, 400, 513]
            };
            for &n in ladder.iter() {
                run += 1;
                out.emit(run_case(&mut rn, run, &gen_late_case(&mut r, n)));
            }
            let generic: &[usize] = if th { &[200, 257, 260, 384, 520, 700] } else { &[260, 384] };
            for &n in generic.iter() {
                run += 1;
                out.emit(run_case(&mut rn, run, &gen_case(&mut r, n)));
            }
            // long predict batches on a small model
            for &nq in (if th { &[255usize, 256, 257, 513, 1025][..] } else { &[257usize, 300][..] }).iter() {
                let mut c = gen_case(&mut r, 24);
                let base = c.qs.clone();
                c.qs = (0..nq).map(|i| if i % 3 == 0 { c.pts[(i / 3) % c.pts.len()].clone() } else { base[i % base.len()].clone() }).collect();
                c.src = "longbatch".into();
                run += 1;
                out.emit(run_case(&mut rn, run, &c));
            }
            // contested predict balls (>= 2 clusters and noise within eps of the query row)
            for _ in 0..(if th { 1000 } else { 150 }) {
                run += 1;
                out.emit(run_case(&mut rn, run, &gen_contested_case(&mut r)));
            }
            // deep structures
            let ndeep = if th { 400 } else { 60 };
            for _ in 0..ndeep {
                run += 1;
                out.emit(run_case(&mut rn, run, &gen_multiscale_case(&mut r)));
                run += 1;
                out.emit(run_case(&mut rn, run, &gen_geometric_case(&mut r)));
            }
            // parameters outside the statement's domain (recorded, nothing is demanded)
            for &(eps, mp) in [(0i64, 2usize), (-1, 2), (1, 0), (0, 0)].iter() {
                let mut c = gen_case(&mut r, 6);
                c.ev = "BadParam".into();
                c.key = "man".into();
                c.metric = "manhattan".into();
                c.eps = eps;
                c.min_pts = mp;
                run += 1;
                out.emit(run_case(&mut rn, run, &c));
            }
            let n = out.finish();
            println!("events={} runs={}", n, run);
        }
        "replay-spec" => {
            let cases = read_ndjson(arg(args, 1));
            let mut out = Out::create(arg(args, 2));
            for v in cases.iter() {
                run += 1;
                out.emit(run_case(&mut rn, run, &case_of_json(v)));
            }
            let n = out.finish();
            println!("events={} runs={}", n, run);
        }
        "replay-file" => {
            let txt = std::fs::read_to_string(arg(args, 1)).expect("cannot read replay file");
            let v: Value = serde_json::from_str(&txt).expect("bad replay file");
            let mut out = Out::create(arg(args, 2));
            for e in v["events"].as_array().expect("events").iter() {
                run = e.get("run").and_then(|x| x.as_i64()).unwrap_or(run + 1);
                // re-run exactly the recorded inputs (query rows included)
                let mut c = case_of_json(e);
                let src = c.src.clone();
                c.src = "refile".into();
                let mut v = run_case(&mut rn, run, &c);
                v["src"] = json!(src);
                out.emit(v);
            }
            let n = out.finish();
            println!("events={}", n);
        }
        _ => {
            eprintln!("unknown c13 mode {}", mode);
            std::process::exit(2);
        }
    }
}
