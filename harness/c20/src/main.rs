//! C20 — all matrix back ends give the same answers.
//! The op-programs of C03 (same interpreter, `ops.rs`, and generator, `gen.rs`, included from
//! the c03 crate) are generated on DenseMatrix<f64> and replayed call by call on
//! ndarray::Array2<f64> and nalgebra::DMatrix<f64> (and their row-vector types), including
//! registers produced by `transpose` and by column-major constructors, whose memory layout is
//! not the standard one.  `gen-prog` writes (1) the events of the three back ends, validated
//! one by one against MatrixADT by MatrixTrace.tla, and (2) one `Agree` event per call holding
//! the three observations side by side, judged by BackendAgree.tla.  `gen-est` solves the same
//! integer-valued problems with the decompositions and the deterministic estimators on the three
//! back ends (`Est` events, BackendAgree.tla).  No expectation lives in here.
#[path = "../../c03/src/dense.rs"]
mod dense;
#[path = "../../c03/src/gen.rs"]
mod gen;
#[path = "../../c03/src/ops.rs"]
mod ops;
mod est;

use dense::Dense64;
use gen::Gen;
use nalgebra::{DMatrix, RowDVector};
use ndarray::{s, Array1, Array2, Axis, ShapeBuilder, Slice};
use ops::*;
use serde_json::{json, Value};
use vutil::*;

pub struct NdArr;
pub struct Nalg;

impl Be for NdArr {
    type T = f64;
    type M = Array2<f64>;
    const NAME: &'static str = "ndarray";
    const TY: &'static str = "f64";
    fn build(via: &str, r: usize, c: usize, data: &[f64]) -> Array2<f64> {
        match via {
            // column-major data: an array in Fortran layout (non-standard memory order)
            "new" => Array2::from_shape_vec((r, c).f(), data.to_vec()).unwrap(),
            "from_2d_array" | "from_2d_vec" => Array2::from_shape_fn((r, c), |(i, j)| data[i * c + j]),
            // ---- constructions through ndarray's own API: the logical content is `data` (row-major, r x c),
            //      the buffer behind it is larger, offset, stepped, reversed or differently ordered.  Cells
            //      that do not belong to the logical matrix hold the sentinels 77 / -77.
            "nat_row_offset" => {
                // rows cut off in place: slice_move of an (r+3) x c array (still row-major, pointer offset)
                let big = Array2::from_shape_fn((r + 3, c), |(i, j)| if i >= 1 && i <= r { data[(i - 1) * c + j] } else { 77.0 });
                big.slice_move(s![1..r + 1, ..])
            }
            "nat_col_offset" => {
                // columns cut off: row stride larger than the row length (not contiguous)
                let big = Array2::from_shape_fn((r, c + 2), |(i, j)| if j >= 1 && j <= c { data[i * c + j - 1] } else { -77.0 });
                big.slice_move(s![.., 1..c + 1])
            }
            "nat_inplace" => {
                let mut big = Array2::from_shape_fn((r + 2, c + 1), |(i, j)| if i >= 2 && j < c { data[(i - 2) * c + j] } else { 77.0 });
                big.slice_axis_inplace(Axis(0), Slice::from(2..r + 2));
                big.slice_axis_inplace(Axis(1), Slice::from(0..c));
                big
            }
            "nat_strided" => {
                // every second row and every second column of a larger array
                let big = Array2::from_shape_fn((2 * r, 2 * c), |(i, j)| if i % 2 == 0 && j % 2 == 0 { data[(i / 2) * c + j / 2] } else { -77.0 });
                big.slice_move(s![..;2, ..;2])
            }
            "nat_reversed" => {
                // negative strides: built upside down and mirrored, then both axes inverted
                let mut a = Array2::from_shape_fn((r, c), |(i, j)| data[(r - 1 - i) * c + (c - 1 - j)]);
                a.invert_axis(Axis(0));
                a.invert_axis(Axis(1));
                a
            }
            "nat_t_owned" => {
                let t = Array2::from_shape_fn((c, r), |(j, i)| data[i * c + j]);
                t.t().to_owned()
            }
            "nat_broadcast" => {
                // all rows equal (the generator supplies such data): a 1-d row broadcast to r x c, made owned
                let row = Array1::from_vec(data[..c].to_vec());
                row.broadcast((r, c)).unwrap().to_owned()
            }
            "nat_remove_row" => {
                let mut big = Array2::from_shape_fn((r + 1, c), |(i, j)| if i >= 1 { data[(i - 1) * c + j] } else { 77.0 });
                big.remove_index(Axis(0), 0);
                big
            }
            "nat_resize" => {
                // no resize in ndarray: the leading block of a larger array, taken by value
                let big = Array2::from_shape_fn((r + 1, c + 1), |(i, j)| if i < r && j < c { data[i * c + j] } else { -77.0 });
                big.slice_move(s![..r, ..c])
            }
            _ => Array2::from_shape_vec((r, c), data.to_vec()).unwrap(),
        }
    }
    fn vbuild(via: &str, data: &[f64]) -> Array1<f64> {
        let n = data.len();
        match via {
            "v_nat_reversed" => {
                // negative stride: stored back to front, axis inverted
                let mut v = Array1::from_iter(data.iter().rev().copied());
                v.invert_axis(Axis(0));
                v
            }
            "v_nat_strided" => {
                let big = Array1::from_shape_fn(2 * n, |i| if i % 2 == 0 { data[i / 2] } else { -77.0 });
                big.slice_move(s![..;2])
            }
            "v_nat_offset" => {
                let big = Array1::from_shape_fn(n + 3, |i| if i >= 2 && i < n + 2 { data[i - 2] } else { 77.0 });
                big.slice_move(s![2..n + 2])
            }
            _ => Array1::from_vec(data.to_vec()),
        }
    }
    fn iter_flat(_m: &Array2<f64>) -> Option<Vec<f64>> {
        None
    }
    fn veq(a: &Array1<f64>, b: &Array1<f64>) -> bool {
        a == b
    }
}

impl Be for Nalg {
    type T = f64;
    type M = DMatrix<f64>;
    const NAME: &'static str = "nalgebra";
    const TY: &'static str = "f64";
    fn build(via: &str, r: usize, c: usize, data: &[f64]) -> DMatrix<f64> {
        match via {
            "new" => DMatrix::from_vec(r, c, data.to_vec()),
            "from_2d_array" | "from_2d_vec" => DMatrix::from_fn(r, c, |i, j| data[i * c + j]),
            // ---- constructions through nalgebra's own API
            "nat_row_offset" | "nat_inplace" => {
                let big = DMatrix::from_fn(r + 3, c, |i, j| if i >= 1 && i <= r { data[(i - 1) * c + j] } else { 77.0 });
                big.rows(1, r).into_owned()
            }
            "nat_col_offset" => {
                let big = DMatrix::from_fn(r, c + 2, |i, j| if j >= 1 && j <= c { data[i * c + j - 1] } else { -77.0 });
                big.columns(1, c).into_owned()
            }
            "nat_strided" => {
                let big = DMatrix::from_fn(2 * r, 2 * c, |i, j| if i % 2 == 0 && j % 2 == 0 { data[(i / 2) * c + j / 2] } else { -77.0 });
                big.slice_with_steps((0, 0), (r, c), (1, 1)).into_owned()
            }
            "nat_remove_row" => {
                let big = DMatrix::from_fn(r + 1, c, |i, j| if i >= 1 { data[(i - 1) * c + j] } else { 77.0 });
                big.remove_row(0)
            }
            "nat_resize" => {
                let big = DMatrix::from_fn(r + 1, c + 2, |i, j| if i < r && j < c { data[i * c + j] } else { -77.0 });
                big.resize(r, c, 0.0)
            }
            "nat_t_owned" => DMatrix::from_fn(c, r, |j, i| data[i * c + j]).transpose(),
            _ => DMatrix::from_row_slice(r, c, data),
        }
    }
    fn vbuild(via: &str, data: &[f64]) -> RowDVector<f64> {
        let n = data.len();
        match via {
            "v_nat_offset" => {
                let big = RowDVector::from_fn(n + 3, |_, j| if j >= 2 && j < n + 2 { data[j - 2] } else { 77.0 });
                big.columns(2, n).into_owned()
            }
            "v_nat_strided" => {
                let big = RowDVector::from_fn(2 * n, |_, j| if j % 2 == 0 { data[j / 2] } else { -77.0 });
                big.columns_with_step(0, n, 1).into_owned()
            }
            _ => RowDVector::from_vec(data.to_vec()),
        }
    }
    fn iter_flat(_m: &DMatrix<f64>) -> Option<Vec<f64>> {
        None
    }
    fn veq(a: &RowDVector<f64>, b: &RowDVector<f64>) -> bool {
        a == b
    }
}

fn skipped(be: &str) -> Value {
    json!({"be": be, "status": "skipped", "kind": "n", "r": 0, "c": 0, "d": [], "out": [], "flag": true, "bool": false})
}

fn obs_of(e: &Value) -> Value {
    json!({"be": e["be"], "status": e["status"], "kind": e["kind"], "r": e["r"], "c": e["c"], "d": e["d"],
           "out": e["out"], "flag": e["flag"], "bool": e["bool"]})
}

/// one program: generated against the dense back end, replayed on the other two
fn group(g: &mut Gen, grp: i64, nops: usize, out: &mut Out, agree: &mut Out) -> usize {
    let mut fd: File<Dense64> = File::new();
    g.reset();
    g.vec_bias = grp % 3 == 0;
    let codec = match if g.ladder { 0 } else { grp % 5 } {
        3 => Codec::Scale(if (grp / 5) % 2 == 0 { -60 } else { 40 }),
        4 => Codec::Ulp,
        _ => Codec::Plain,
    };
    fd.codec = codec;
    g.mode = codec;
    let mut calls: Vec<OpCall> = vec![];
    let mut evd: Vec<Value> = vec![];
    let mut tries = 0;
    while calls.len() < nops && tries < 10 * nops {
        tries += 1;
        let call = g.step(&fd.meta);
        if let Some(mut e) = fd.exec(grp * 3, &call) {
            calls.push(call);
            e["step"] = json!(calls.len());
            evd.push(e);
        }
    }
    out.emit(reset_event_mode::<Dense64>(grp * 3, codec));
    for e in evd.iter() {
        out.emit(e.clone());
    }
    let mut fn_: File<NdArr> = File::new();
    let mut fa: File<Nalg> = File::new();
    fn_.codec = codec;
    fa.codec = codec;
    let mut evn: Vec<Option<Value>> = vec![];
    let mut eva: Vec<Option<Value>> = vec![];
    for (k, c) in calls.iter().enumerate() {
        evn.push(fn_.exec(grp * 3 + 1, c).map(|mut e| {
            e["step"] = json!(k + 1);
            e
        }));
    }
    for (k, c) in calls.iter().enumerate() {
        eva.push(fa.exec(grp * 3 + 2, c).map(|mut e| {
            e["step"] = json!(k + 1);
            e
        }));
    }
    out.emit(reset_event_mode::<NdArr>(grp * 3 + 1, codec));
    for e in evn.iter().flatten() {
        out.emit(e.clone());
    }
    out.emit(reset_event_mode::<Nalg>(grp * 3 + 2, codec));
    for e in eva.iter().flatten() {
        out.emit(e.clone());
    }
    for (k, c) in calls.iter().enumerate() {
        let od = obs_of(&evd[k]);
        let on = evn[k].as_ref().map(obs_of).unwrap_or_else(|| skipped("ndarray"));
        let oa = eva[k].as_ref().map(obs_of).unwrap_or_else(|| skipped("nalgebra"));
        agree.emit(json!({"run": grp, "ev": "Agree", "step": k + 1, "op": c.op, "a": c.a, "b": c.b, "dst": c.dst,
            "ia": c.ia, "iv": c.iv, "iw": c.iw, "atr": evd[k]["atr"], "btr": evd[k]["btr"], "obs": [od, on, oa]}));
    }
    fn_.skipped + fa.skipped
}

fn main() {
    let args: Vec<String> = std::env::args().skip(1).collect();
    let args = &args[..];
    silence_panics();
    let mode = arg(args, 0);
    let th = thorough();
    match mode {
        "gen-prog" => {
            let mut out = Out::create(arg(args, 1));
            let mut agree = Out::create(arg(args, 2));
            let groups: usize = args.get(3).and_then(|s| s.parse().ok()).unwrap_or(if th { 12000 } else { 1300 });
            let mut g = Gen::new(rng(20), false, 8);
            g.allow_native = true;
            let mut skipped_calls = 0;
            for i in 0..groups {
                skipped_calls += group(&mut g, i as i64 + 1, 12, &mut out, &mut agree);
            }
            // the size ladder: a handful of programs on operands with 63 .. 3000 entries
            g.ladder = true;
            for i in 0..(if th { 60 } else { 16 }) {
                skipped_calls += group(&mut g, (groups + i) as i64 + 1, 8, &mut out, &mut agree);
            }
            g.ladder = false;
            let n = out.finish();
            let m = agree.finish();
            println!("events={} agree={} groups={} skipped={}", n, m, groups, skipped_calls);
        }
        "gen-est" => {
            let mut out = Out::create(arg(args, 1));
            let n: usize = args.get(2).and_then(|s| s.parse().ok()).unwrap_or(if th { 120 } else { 12 });
            est::gen_est(n, args.get(3).map(|s| s.as_str()), &mut out);
            let k = out.finish();
            println!("events={}", k);
        }
        "replay-events" => {
            // re-execute recorded Op events (per back end) and write fresh events
            let evs = read_ndjson(arg(args, 1));
            let mut out = Out::create(arg(args, 2));
            let mut i = 0;
            while i < evs.len() {
                let mut j = i + 1;
                while j < evs.len() && evs[j]["ev"] != "Reset" {
                    j += 1;
                }
                let run = evs[i]["run"].as_i64().unwrap_or(0);
                let codec = match evs[i]["mode"].as_str().unwrap_or("plain") {
                    "scale" => Codec::Scale(evs[i]["se"].as_i64().unwrap_or(0) as i32),
                    "ulp" => Codec::Ulp,
                    _ => Codec::Plain,
                };
                let calls: Vec<OpCall> = evs[i + 1..j].iter().filter(|e| e["ev"] == "Op").map(OpCall::from_json).collect();
                match evs[i]["be"].as_str().unwrap_or("dense") {
                    "ndarray" => replay::<NdArr>(run, codec, &calls, &mut out),
                    "nalgebra" => replay::<Nalg>(run, codec, &calls, &mut out),
                    _ => replay::<Dense64>(run, codec, &calls, &mut out),
                }
                i = j;
            }
            let n = out.finish();
            println!("events={}", n);
        }
        _ => {
            eprintln!("unknown c20 mode {}", mode);
            std::process::exit(2);
        }
    }
}

fn replay<B: Be>(run: i64, codec: Codec, calls: &[OpCall], out: &mut Out) {
    let mut file: File<B> = File::new();
    file.codec = codec;
    out.emit(reset_event_mode::<B>(run, codec));
    for c in calls {
        if let Some(e) = file.exec(run, c) {
            out.emit(e);
        }
    }
}
