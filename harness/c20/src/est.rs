//! C20, second part: the decompositions and the deterministic estimators on identical
//! integer-valued data on the three back ends.  Every estimator is fitted and evaluated inside
//! a watchdog (a hang is the outcome "timeout") and inside catch_unwind (a panic is the outcome
//! "panic"); a returned `Err` is the outcome "err".  The observable (predictions on the training
//! rows, transformed data, factors, singular values, metric values) is quantised with 2^10.
//! One `Est` event carries the three observations; spec/linalg/BackendAgree.tla decides.
use crate::dense::Dense64;
use crate::ops::{fx, Be, NONFIN, V};
use crate::{Nalg, NdArr};
use rand::Rng;
use serde_json::{json, Value};
use smartcore::decomposition::pca::{PCAParameters, PCA};
use smartcore::ensemble::random_forest_classifier::{RandomForestClassifier, RandomForestClassifierParameters};
use smartcore::ensemble::random_forest_regressor::{RandomForestRegressor, RandomForestRegressorParameters};
use smartcore::error::Failed;
use smartcore::linalg::cholesky::CholeskyDecomposableMatrix;
use smartcore::linalg::evd::EVDDecomposableMatrix;
use smartcore::linalg::lu::LUDecomposableMatrix;
use smartcore::linalg::qr::QRDecomposableMatrix;
use smartcore::linalg::svd::SVDDecomposableMatrix;
use smartcore::linalg::{BaseMatrix, BaseVector};
use smartcore::linear::elastic_net::{ElasticNet, ElasticNetParameters};
use smartcore::linear::lasso::{Lasso, LassoParameters};
use smartcore::linear::linear_regression::{LinearRegression, LinearRegressionParameters, LinearRegressionSolverName};
use smartcore::linear::logistic_regression::LogisticRegression;
use smartcore::linear::ridge_regression::{RidgeRegression, RidgeRegressionParameters, RidgeRegressionSolverName};
use smartcore::metrics;
use smartcore::naive_bayes::bernoulli::BernoulliNB;
use smartcore::naive_bayes::categorical::CategoricalNB;
use smartcore::naive_bayes::gaussian::GaussianNB;
use smartcore::naive_bayes::multinomial::MultinomialNB;
use smartcore::neighbors::knn_classifier::{KNNClassifier, KNNClassifierParameters};
use smartcore::neighbors::knn_regressor::{KNNRegressor, KNNRegressorParameters};
use smartcore::preprocessing::categorical::{OneHotEncoder, OneHotEncoderParams};
use smartcore::svm::svr::{SVRParameters, SVR};
use smartcore::tree::decision_tree_classifier::DecisionTreeClassifier;
use smartcore::tree::decision_tree_regressor::DecisionTreeRegressor;
use vutil::{guard, rng, watchdog, Out};

/// one data set; everything integer valued
#[derive(Clone)]
pub struct Problem {
    pub n: usize,
    pub p: usize,
    pub x: Vec<f64>,     // n x p, entries -6..6
    pub xcount: Vec<f64>, // n x p, entries 0..5 (counts / categories)
    pub xbin: Vec<f64>,  // n x p, entries 0/1
    pub yreg: Vec<f64>,
    pub ycls: Vec<f64>, // 0 / 1, linearly separable with a margin
    pub y3: Vec<f64>,   // three classes
    pub spd: Vec<f64>,  // p x p symmetric positive definite (X^T X + I)
    pub seed: u64,
}

pub const NAMES: [&str; 35] = [
    "linear_qr", "linear_svd", "ridge_cholesky", "ridge_svd", "lasso", "elastic_net", "logistic", "gaussian_nb",
    "bernoulli_nb", "multinomial_nb", "categorical_nb", "knn_classifier", "knn_regressor", "tree_classifier",
    "tree_regressor", "forest_classifier", "forest_regressor", "svr", "pca", "pca_corr", "onehot", "accuracy",
    "f1", "auc", "mse", "mae", "r2", "lu_inverse", "qr_r", "svd_s", "evd_sym_d", "cholesky_l", "lu_solve", "cholesky_not_spd", "ridge_n_le_p",
];

fn m<B: Be<T = f64>>(r: usize, c: usize, d: &[f64]) -> B::M {
    B::build("from_array", r, c, d)
}
fn v<B: Be<T = f64>>(d: &[f64]) -> V<B> {
    <V<B> as BaseVector<f64>>::from_array(d)
}
fn fv<W: BaseVector<f64>>(w: &W) -> Vec<f64> {
    (0..w.len()).map(|i| w.get(i)).collect()
}
fn fm<M: BaseMatrix<f64>>(a: &M) -> Vec<f64> {
    let (r, c) = a.shape();
    let mut o = Vec::with_capacity(r * c);
    for i in 0..r {
        for j in 0..c {
            o.push(a.get(i, j));
        }
    }
    o
}

fn run_one<B: Be<T = f64>>(name: &str, pr: &Problem) -> Result<Vec<f64>, Failed> {
    let (n, p) = (pr.n, pr.p);
    let x = m::<B>(n, p, &pr.x);
    let yr = v::<B>(&pr.yreg);
    let yc = v::<B>(&pr.ycls);
    let y3 = v::<B>(&pr.y3);
    Ok(match name {
        "linear_qr" => fv(&LinearRegression::fit(&x, &yr, LinearRegressionParameters::default().with_solver(LinearRegressionSolverName::QR))?.predict(&x)?),
        "linear_svd" => fv(&LinearRegression::fit(&x, &yr, LinearRegressionParameters::default().with_solver(LinearRegressionSolverName::SVD))?.predict(&x)?),
        "ridge_cholesky" => fv(&RidgeRegression::fit(&x, &yr, RidgeRegressionParameters::default().with_alpha(1.0).with_solver(RidgeRegressionSolverName::Cholesky))?.predict(&x)?),
        "ridge_svd" => fv(&RidgeRegression::fit(&x, &yr, RidgeRegressionParameters::default().with_alpha(1.0).with_solver(RidgeRegressionSolverName::SVD))?.predict(&x)?),
        "lasso" => fv(&Lasso::fit(&x, &yr, LassoParameters::default().with_alpha(0.5))?.predict(&x)?),
        "elastic_net" => fv(&ElasticNet::fit(&x, &yr, ElasticNetParameters::default().with_alpha(0.5).with_l1_ratio(0.5))?.predict(&x)?),
        "logistic" => fv(&LogisticRegression::fit(&x, &yc, Default::default())?.predict(&x)?),
        "gaussian_nb" => fv(&GaussianNB::fit(&x, &y3, Default::default())?.predict(&x)?),
        "bernoulli_nb" => {
            let xb = m::<B>(n, p, &pr.xbin);
            fv(&BernoulliNB::fit(&xb, &yc, Default::default())?.predict(&xb)?)
        }
        "multinomial_nb" => {
            let xc = m::<B>(n, p, &pr.xcount);
            fv(&MultinomialNB::fit(&xc, &y3, Default::default())?.predict(&xc)?)
        }
        "categorical_nb" => {
            let xc = m::<B>(n, p, &pr.xcount);
            fv(&CategoricalNB::fit(&xc, &y3, Default::default())?.predict(&xc)?)
        }
        "knn_classifier" => fv(&KNNClassifier::fit(&x, &y3, KNNClassifierParameters::default().with_k(3))?.predict(&x)?),
        "knn_regressor" => fv(&KNNRegressor::fit(&x, &yr, KNNRegressorParameters::default().with_k(3))?.predict(&x)?),
        "tree_classifier" => fv(&DecisionTreeClassifier::fit(&x, &y3, Default::default())?.predict(&x)?),
        "tree_regressor" => fv(&DecisionTreeRegressor::fit(&x, &yr, Default::default())?.predict(&x)?),
        "forest_classifier" => fv(&RandomForestClassifier::fit(&x, &y3, RandomForestClassifierParameters::default().with_n_trees(7).with_seed(pr.seed))?.predict(&x)?),
        "forest_regressor" => fv(&RandomForestRegressor::fit(&x, &yr, RandomForestRegressorParameters::default().with_n_trees(7).with_seed(pr.seed))?.predict(&x)?),
        "svr" => fv(&SVR::fit(&x, &yr, SVRParameters::default().with_eps(0.5).with_c(1.0))?.predict(&x)?),
        "pca" => fm(&PCA::fit(&x, PCAParameters::default().with_n_components(2.min(p)))?.transform(&x)?),
        "pca_corr" => fm(&PCA::fit(&x, PCAParameters::default().with_n_components(2.min(p)).with_use_correlation_matrix(true))?.transform(&x)?),
        "onehot" => {
            let xc = m::<B>(n, p, &pr.xcount);
            fm(&OneHotEncoder::fit(&xc, OneHotEncoderParams::from_cat_idx(&[0, p - 1]))?.transform(&xc)?)
        }
        "accuracy" => vec![metrics::accuracy(&y3, &v::<B>(&rot(&pr.y3)))],
        "f1" => vec![metrics::f1(&yc, &v::<B>(&rot(&pr.ycls)), 1.0)],
        "auc" => vec![metrics::roc_auc_score(&yc, &v::<B>(&pr.yreg))],
        "mse" => vec![metrics::mean_squared_error(&yr, &v::<B>(&rot(&pr.yreg)))],
        "mae" => vec![metrics::mean_absolute_error(&yr, &v::<B>(&rot(&pr.yreg)))],
        "r2" => vec![metrics::r2(&yr, &v::<B>(&rot(&pr.yreg)))],
        "lu_inverse" => fm(&m::<B>(p, p, &pr.spd).lu()?.inverse()?),
        "qr_r" => fm(&x.qr()?.R()),
        "svd_s" => x.svd()?.s,
        "evd_sym_d" => x_evd::<B>(pr)?,
        "cholesky_l" => fm(&m::<B>(p, p, &pr.spd).cholesky()?.L()),
        "lu_solve" => fm(&m::<B>(p, p, &pr.spd).lu_solve_mut(m::<B>(p, 1, &pr.yreg[..p]))?),
        // documented errors: every back end must report them the same way
        "cholesky_not_spd" => {
            let neg: Vec<f64> = pr.spd.iter().map(|x| -x).collect();
            fm(&m::<B>(p, p, &neg).cholesky()?.L())
        }
        "ridge_n_le_p" => {
            let xs = m::<B>(p, p, &pr.x[..p * p]);
            let ys = v::<B>(&pr.yreg[..p]);
            fv(&RidgeRegression::fit(&xs, &ys, RidgeRegressionParameters::default())?.predict(&xs)?)
        }
        other => panic!("harness: unknown estimator {}", other),
    })
}

fn x_evd<B: Be<T = f64>>(pr: &Problem) -> Result<Vec<f64>, Failed> {
    Ok(m::<B>(pr.p, pr.p, &pr.spd).evd(true)?.d)
}

/// the same vector rotated by one position (a second, different vector for the metrics)
fn rot(v: &[f64]) -> Vec<f64> {
    let mut o = v.to_vec();
    o.rotate_left(1);
    o
}

fn observe<B: Be<T = f64>>(name: &'static str, pr: &Problem) -> Value {
    let prc = pr.clone();
    let secs: u64 = std::env::var("VERIF_WATCHDOG").ok().and_then(|s| s.parse().ok()).unwrap_or(10);
    let r = watchdog(secs, move || guard(|| run_one::<B>(name, &prc)));
    let (status, out, flag): (&str, Vec<i64>, bool) = match r {
        None => ("timeout", vec![], true),
        Some(Err(_)) | Some(Ok(Err(_))) => ("panic", vec![], true),
        Some(Ok(Ok(Err(_)))) => ("err", vec![], true),
        Some(Ok(Ok(Ok(vals)))) => {
            let q: Vec<i64> = vals.iter().map(|&x| fx(x, 1024.0)).collect();
            let ok = !q.contains(&NONFIN);
            ("ok", q, ok)
        }
    };
    json!({"be": B::NAME, "status": status, "out": out, "flag": flag})
}

pub fn make_problem(k: usize) -> Problem {
    make_problem_n(k, None)
}

/// `rows`: a prescribed number of rows (size ladder: more than 1024 rows crosses every block size in use)
pub fn make_problem_n(k: usize, rows: Option<usize>) -> Problem {
    let mut r = rng(2000 + k as u64);
    let n = rows.unwrap_or_else(|| r.gen_range(12..=28usize));
    let p = r.gen_range(2..=4usize);
    let mut x: Vec<f64> = (0..n * p).map(|_| r.gen_range(-6..=6) as f64).collect();
    // every class is present: rows 0, 1, 2 carry first features -4, 1, 4
    x[0] = -4.0;
    x[p] = 1.0;
    x[2 * p] = 4.0;
    let xcount: Vec<f64> = (0..n * p).map(|_| r.gen_range(0..=3) as f64).collect();
    let xbin: Vec<f64> = (0..n * p).map(|_| r.gen_range(0..=1) as f64).collect();
    let w: Vec<f64> = (0..p).map(|_| r.gen_range(-3..=3) as f64).collect();
    let mut yreg = vec![0.0; n];
    let mut ycls = vec![0.0; n];
    let mut y3 = vec![0.0; n];
    for i in 0..n {
        let s: f64 = (0..p).map(|j| x[i * p + j] * w[j]).sum();
        // (large problems: a common level of 100, so that losing any single target moves the mean visibly)
        yreg[i] = s + r.gen_range(-2..=2) as f64 + if rows.is_some() { 100.0 } else { 0.0 };
        // the class is decided by the first feature with a margin of one unit around 0.5
        ycls[i] = if x[i * p] >= 1.0 { 1.0 } else { 0.0 };
        y3[i] = if x[i * p] <= -3.0 { 0.0 } else if x[i * p] <= 2.0 { 1.0 } else { 2.0 };
    }
    let mut spd = vec![0.0; p * p];
    for a in 0..p {
        for b in 0..p {
            let mut s = 0.0;
            for i in 0..n {
                s += x[i * p + a] * x[i * p + b];
            }
            spd[a * p + b] = s + if a == b { 1.0 } else { 0.0 };
        }
    }
    Problem { n, p, x, xcount, xbin, yreg, ycls, y3, spd, seed: 11 + k as u64 }
}

/// estimators whose cost stays small on a thousand rows
const LARGE: [&str; 14] = [
    "linear_qr", "ridge_cholesky", "lasso", "elastic_net", "gaussian_nb", "tree_regressor", "pca", "accuracy", "mse", "mae", "r2",
    "qr_r", "svd_s", "logistic",
];

pub fn gen_est(nprob: usize, only: Option<&str>, out: &mut Out) {
    let mut run = 5_000_000i64;
    // size ladder: the same problems with 1025 / 1100 (thorough: also 2049) rows
    let sizes: &[usize] = if vutil::thorough() { &[1025, 1100, 2049] } else { &[1100] };
    for (j, &rows) in sizes.iter().enumerate() {
        let pr = make_problem_n(900 + j, Some(rows));
        for name in LARGE.iter() {
            if let Some(f) = only {
                if !name.contains(f) {
                    continue;
                }
            }
            run += 1;
            let obs = vec![observe::<Dense64>(name, &pr), observe::<NdArr>(name, &pr), observe::<Nalg>(name, &pr)];
            out.emit(json!({"run": run, "ev": "Est", "op": name, "n": pr.n, "p": pr.p, "problem": 900 + j, "obs": obs}));
        }
    }
    for k in 0..nprob {
        let pr = make_problem(k);
        for name in NAMES.iter() {
            // the interior-point solvers used to hang on one back end (nalgebra max folded from 0, repaired by
            // bf8c8ce): a hang costs a full watchdog period per back end, so a regression of that kind is
            // looked for on the first problems only in the quick tier
            if (*name == "lasso" || *name == "elastic_net") && k >= (if vutil::thorough() { 1000 } else { 3 }) {
                continue;
            }
            if let Some(f) = only {
                if !name.contains(f) {
                    continue;
                }
            }
            run += 1;
            let obs = vec![observe::<Dense64>(name, &pr), observe::<NdArr>(name, &pr), observe::<Nalg>(name, &pr)];
            out.emit(json!({"run": run, "ev": "Est", "op": name, "n": pr.n, "p": pr.p, "problem": k, "obs": obs}));
        }
    }
}
