//! Shared helpers of the conformance harness.  No property logic lives here: only
//! I/O (ndjson), deterministic RNG, panic capture, a watchdog and the exact / monotone
//! projections of floats to integers described in DESIGN.md §2.5.

use rand::rngs::StdRng;
use rand::SeedableRng;
use serde_json::{json, Value};
use std::fs::File;
use std::io::{BufRead, BufReader, BufWriter, Write};
use std::panic::{self, AssertUnwindSafe};
use std::sync::mpsc;
use std::time::Duration;

pub fn seed() -> u64 {
    std::env::var("VERIF_SEED")
        .ok()
        .and_then(|s| s.trim().parse::<i64>().ok())
        .map(|v| v as u64)
        .unwrap_or(1)
}

pub fn thorough() -> bool {
    std::env::var("VERIF_TIER")
        .map(|s| s.trim() == "thorough")
        .unwrap_or(false)
}

pub fn rng(stream: u64) -> StdRng {
    StdRng::seed_from_u64(seed().wrapping_mul(0x9E37_79B9_7F4A_7C15).wrapping_add(stream))
}

/// ndjson writer
pub struct Out {
    w: BufWriter<File>,
    pub n: usize,
}

impl Out {
    pub fn create(path: &str) -> Out {
        Out {
            w: BufWriter::new(File::create(path).expect("cannot create output file")),
            n: 0,
        }
    }
    pub fn emit(&mut self, v: Value) {
        serde_json::to_writer(&mut self.w, &v).unwrap();
        self.w.write_all(b"\n").unwrap();
        self.n += 1;
    }
    pub fn finish(mut self) -> usize {
        self.w.flush().unwrap();
        self.n
    }
}

pub fn read_ndjson(path: &str) -> Vec<Value> {
    let f = BufReader::new(File::open(path).expect("cannot open input file"));
    f.lines()
        .map(|l| l.unwrap())
        .filter(|l| !l.trim().is_empty())
        .map(|l| serde_json::from_str(&l).expect("bad json line"))
        .collect()
}

pub fn silence_panics() {
    panic::set_hook(Box::new(|_| {}));
}

/// Run `f`, turning a panic into `Err(message)`.  A panic of the code under test is data.
pub fn guard<R, F: FnOnce() -> R>(f: F) -> Result<R, String> {
    match panic::catch_unwind(AssertUnwindSafe(f)) {
        Ok(r) => Ok(r),
        Err(e) => {
            let msg = if let Some(s) = e.downcast_ref::<&str>() {
                s.to_string()
            } else if let Some(s) = e.downcast_ref::<String>() {
                s.clone()
            } else {
                "panic".to_string()
            };
            Err(msg)
        }
    }
}

/// Run `f` on a helper thread; `None` if it does not finish within `secs` (the thread is
/// abandoned; the process exits normally at the end of the run).
pub fn watchdog<R: Send + 'static, F: FnOnce() -> R + Send + 'static>(
    secs: u64,
    f: F,
) -> Option<Result<R, String>> {
    let (tx, rx) = mpsc::channel();
    std::thread::Builder::new()
        .stack_size(64 << 20)
        .spawn(move || {
            let r = guard(f);
            let _ = tx.send(r);
        })
        .unwrap();
    rx.recv_timeout(Duration::from_secs(secs)).ok()
}

/// Fixed-point quantiser: round(v * 2^s).  TLC cannot compare an integer with a string, so a
/// non-finite or out-of-range value is emitted as 0 and recorded in the flags `finite` /
/// `inrange`, which every event carries next to its quantised fields; the specification
/// tests the flags before it touches the numbers.
pub struct Q {
    pub s: u32,
    pub finite: std::cell::Cell<bool>,
    pub inrange: std::cell::Cell<bool>,
    pub limit: f64,
}

impl Q {
    pub fn new(s: u32) -> Q {
        Q {
            s,
            finite: std::cell::Cell::new(true),
            inrange: std::cell::Cell::new(true),
            limit: 2.0e9,
        }
    }
    pub fn with_limit(s: u32, limit: f64) -> Q {
        let mut q = Q::new(s);
        q.limit = limit;
        q
    }
    pub fn x(&self, v: f64) -> i64 {
        if !v.is_finite() {
            self.finite.set(false);
            return 0;
        }
        let q = (v * (1u64 << self.s) as f64).round();
        if q.abs() > self.limit {
            self.inrange.set(false);
            return 0;
        }
        q as i64
    }
    pub fn v(&self, v: &[f64]) -> Vec<i64> {
        v.iter().map(|&x| self.x(x)).collect()
    }
    pub fn m(&self, rows: &[Vec<f64>]) -> Vec<Vec<i64>> {
        rows.iter().map(|r| self.v(r)).collect()
    }
    pub fn ok(&self) -> bool {
        self.finite.get() && self.inrange.get()
    }
}

/// exact integer projection: Some(i) iff the value is an integer of moderate size
pub fn int_exact(v: f64) -> Option<i64> {
    if v.is_finite() && v.fract() == 0.0 && v.abs() < 2.0e9 {
        Some(v as i64)
    } else {
        None
    }
}

/// vector of exact integers; `None` when some entry is not an integer (the caller reports
/// that through a boolean field of the event)
pub fn intv(v: &[f64]) -> Option<Vec<i64>> {
    v.iter().map(|&x| int_exact(x)).collect()
}

pub fn intm(rows: &[Vec<f64>]) -> Option<Vec<Vec<i64>>> {
    rows.iter().map(|r| intv(r)).collect()
}

/// dense ranks (1-based) of a list of finite floats: preserves < and =
pub fn dense_ranks(v: &[f64]) -> Vec<i64> {
    let mut s: Vec<f64> = v.to_vec();
    s.sort_by(|a, b| a.partial_cmp(b).unwrap());
    s.dedup();
    v.iter()
        .map(|x| s.binary_search_by(|p| p.partial_cmp(x).unwrap()).unwrap() as i64 + 1)
        .collect()
}

/// binary exponent of a float (frexp): v = m * 2^e with 0.5 <= |m| < 1; 0 -> -2000
pub fn bin_exp(v: f64) -> i64 {
    if v == 0.0 {
        return -2000;
    }
    if !v.is_finite() {
        return 2000;
    }
    let bits = v.to_bits();
    let e = ((bits >> 52) & 0x7ff) as i64;
    if e == 0 {
        // subnormal
        let m = bits & ((1u64 << 52) - 1);
        let lz = m.leading_zeros() as i64 - 12;
        return -1022 - lz;
    }
    e - 1022
}

pub fn bits64(v: f64) -> Value {
    let b = v.to_bits();
    json!([(b >> 32) as i64, (b & 0xffff_ffff) as i64])
}

pub fn arg<'a>(args: &'a [String], i: usize) -> &'a str {
    args.get(i).map(|s| s.as_str()).unwrap_or_else(|| {
        eprintln!("missing argument {}", i);
        std::process::exit(2)
    })
}
