//! C02 — eigen-decomposition returns genuine eigenvalues and eigenvectors.
//!
//! No property logic here.  The driver
//!   * generates integer-valued square matrices B (families in `SYM_FAMILIES`, `GEN_FAMILIES`),
//!     feeds them to `evd(symmetric)` as D * B * D^-1 * 2^se with D = diag(2^bal[i]) (an exact
//!     power-of-two similarity: "badly balanced" input with the same spectrum as B) in f64 / f32,
//!     inside `catch_unwind` and under a watchdog;
//!   * projects the result to integers: eigenvalues descaled exactly by 2^-se and quantised
//!     round(v * 2^S); exact sign patterns of e and V; dense ranks of d and of |e| (bit-exact
//!     equality and order); eigenvector rows descaled exactly by 2^-bal[i]; for the general
//!     solver every column of V additionally divided by the power of two that brings its
//!     largest entry into [1/2, 1) (eigenvectors are defined up to scale; the exponent is exact);
//!   * marks numbers whose products would leave TLC's 32-bit range (`inr:false`).
//! Pass / fail is decided by spec/linalg/Eigen.tla evaluated by TLC on each recorded line.
use rand::rngs::StdRng;
use rand::seq::SliceRandom;
use rand::Rng;
use serde_json::json;
use smartcore::linalg::evd::EVDDecomposableMatrix;
use smartcore::linalg::naive::dense_matrix::DenseMatrix;
use smartcore::linalg::BaseMatrix;
use smartcore::math::num::RealNumber;
use vutil::*;

type IM = Vec<Vec<i64>>;

const S: u32 = 10;
const PROD_LIMIT: f64 = 1_073_741_824.0;

trait Width: RealNumber + Send + 'static {
    const NAME: &'static str;
}
impl Width for f64 {
    const NAME: &'static str = "f64";
}
impl Width for f32 {
    const NAME: &'static str = "f32";
}

fn pow2(e: i32) -> f64 {
    (2.0f64).powi(e)
}

fn maxabs(m: &IM) -> f64 {
    m.iter().flat_map(|r| r.iter()).map(|v| v.abs()).max().unwrap_or(0) as f64
}

fn sgn(v: f64) -> i64 {
    if v > 0.0 {
        1
    } else if v < 0.0 {
        -1
    } else {
        0
    }
}

/// frexp exponent: v = f * 2^e with 1/2 <= |f| < 1 (v finite, non-zero)
fn exp2_of(v: f64) -> i32 {
    bin_exp(v) as i32
}

#[derive(Default)]
struct Stats {
    events: usize,
    out_of_range: usize,
    nonfinite: usize,
}

#[allow(clippy::too_many_arguments)]
fn ev_evd<T: Width>(out: &mut Out, stats: &mut Stats, run: i64, fam: &str, b: &IM, bal: &[i32], se: i32, sym: bool) {
    let n = b.len();
    let mut v = Vec::with_capacity(n * n);
    for i in 0..n {
        for j in 0..n {
            v.push(T::from_f64(b[i][j] as f64 * pow2(se + bal[i] - bal[j])).unwrap());
        }
    }
    let a = DenseMatrix::from_array(n, n, &v);
    let res = watchdog(30, move || a.evd(sym));
    let mut msg = String::new();
    let (status, fin, inr, o) = match res {
        None => ("timeout", true, true, json!({})),
        Some(Err(p)) => {
            msg = p;
            ("panic", true, true, json!({}))
        }
        Some(Ok(Err(e))) => {
            msg = format!("{}", e);
            ("err", true, true, json!({}))
        }
        Some(Ok(Ok(evd))) => {
            let q = Q::new(S);
            let d: Vec<f64> = evd.d.iter().map(|x| x.to_f64().unwrap() * pow2(-se)).collect();
            let e: Vec<f64> = evd.e.iter().map(|x| x.to_f64().unwrap() * pow2(-se)).collect();
            let (vr, vc) = evd.V.shape();
            // rows descaled by 2^-bal[i]: eigenvectors of B from those of D B D^-1
            let mut vm: Vec<Vec<f64>> = (0..vr)
                .map(|i| (0..vc).map(|j| evd.V.get(i, j).to_f64().unwrap() * pow2(-bal[i.min(n - 1)])).collect())
                .collect();
            let mut vnz = vec![false; vc];
            let mut vexp = vec![0i32; vc];
            for j in 0..vc {
                let mx = (0..vr).map(|i| vm[i][j].abs()).fold(0.0f64, f64::max);
                vnz[j] = (0..vr).any(|i| vm[i][j] != 0.0);
                if !sym && mx.is_finite() && mx > 0.0 {
                    let ex = exp2_of(mx);
                    vexp[j] = ex;
                    for row in vm.iter_mut() {
                        row[j] *= pow2(-ex);
                    }
                }
            }
            let allfin = d.iter().chain(e.iter()).all(|x| x.is_finite());
            let dq = q.v(&d);
            let eq = q.v(&e);
            // columns that belong to a non-real eigenvalue are not constrained by the property:
            // they are quantised with a separate quantiser so that a non-finite or huge entry
            // there does not mark the event as non-finite
            let qc = Q::new(S);
            let vq: Vec<Vec<i64>> = vm
                .iter()
                .map(|row| {
                    row.iter()
                        .enumerate()
                        .map(|(j, &x)| if !sym && e.get(j).map(|v| *v != 0.0).unwrap_or(false) { qc.x(x) } else { q.x(x) })
                        .collect()
                })
                .collect();
            let ea: Vec<f64> = e.iter().map(|x| x.abs()).collect();
            let (drk, eark) = if allfin { (dense_ranks(&d), dense_ranks(&ea)) } else { (vec![], vec![]) };
            let esg: Vec<i64> = e.iter().map(|&x| sgn(x)).collect();
            let fin = q.ok();
            let dm = dq.iter().chain(eq.iter()).map(|x| x.abs()).max().unwrap_or(0) as f64;
            let vmx = maxabs(&vq);
            let am = maxabs(b);
            let s2 = (1u64 << S) as f64;
            // f32 rounding slack of a balanced input is amplified by 4^spread in the specification
            let spread = (bal.iter().max().unwrap() - bal.iter().min().unwrap()) as f64;
            let amp = if T::NAME == "f32" { (4.0f64).powf(spread.min(4.0)) } else { 1.0 };
            let inr = (n as f64) * am.max(1.0) * s2 * vmx.max(1.0) * amp < PROD_LIMIT
                && dm.max(1.0) * vmx.max(1.0) < PROD_LIMIT
                && (n as f64) * vmx.max(1.0) * vmx.max(1.0) < PROD_LIMIT
                && (n as f64) * (dm / 16.0 + 1.0) * (dm / 16.0 + 1.0) < PROD_LIMIT
                && (n * n) as f64 * am * am * 4096.0 < PROD_LIMIT;
            ("ok", fin, inr, json!({"d": dq, "e": eq, "dRk": drk, "eaRk": eark, "eSg": esg,
                                     "V": vq, "vnz": vnz, "vexp": vexp}))
        }
    };
    let ok = status == "ok" && fin && inr;
    stats.events += 1;
    if status == "ok" && !fin {
        stats.nonfinite += 1;
    }
    if status == "ok" && fin && !inr {
        stats.out_of_range += 1;
    }
    out.emit(json!({"run": run, "ev": "EVD", "sym": sym, "w": T::NAME, "se": se, "S": S, "fam": fam, "n": n,
                    "A": b, "bal": bal, "status": status, "msg": msg, "fin": fin, "inr": inr,
                    "out": if ok { o } else { json!({}) }}));
}

// ---------------------------------------------------------------------------------------------
// families
// ---------------------------------------------------------------------------------------------
fn cap(n: usize) -> i64 {
    match n {
        0..=5 => 16,
        6 => 8,
        7 => 5,
        _ => 4,
    }
}
fn rnd(rng: &mut StdRng, c: i64) -> i64 {
    rng.gen_range(-c..=c)
}
fn dense(rng: &mut StdRng, m: usize, n: usize, c: i64) -> IM {
    (0..m).map(|_| (0..n).map(|_| rnd(rng, c)).collect()).collect()
}
fn transpose(a: &IM) -> IM {
    let m = a.len();
    let n = a[0].len();
    (0..n).map(|j| (0..m).map(|i| a[i][j]).collect()).collect()
}
fn matmul(a: &IM, b: &IM) -> IM {
    let m = a.len();
    let k = b.len();
    let n = b[0].len();
    (0..m).map(|i| (0..n).map(|j| (0..k).map(|t| a[i][t] * b[t][j]).sum()).collect()).collect()
}
fn hadamard(n: usize) -> IM {
    let mut h: IM = vec![vec![1]];
    while h.len() < n {
        let k = h.len();
        let mut g = vec![vec![0; 2 * k]; 2 * k];
        for i in 0..k {
            for j in 0..k {
                g[i][j] = h[i][j];
                g[i][j + k] = h[i][j];
                g[i + k][j] = h[i][j];
                g[i + k][j + k] = -h[i][j];
            }
        }
        h = g;
    }
    h
}
fn sym_random(rng: &mut StdRng, n: usize, c: i64) -> IM {
    let mut a = vec![vec![0i64; n]; n];
    for i in 0..n {
        for j in 0..=i {
            let v = rnd(rng, c);
            a[i][j] = v;
            a[j][i] = v;
        }
    }
    a
}
/// place square blocks on the diagonal
fn block_diag(blocks: &[IM]) -> IM {
    let n: usize = blocks.iter().map(|b| b.len()).sum();
    let mut a = vec![vec![0i64; n]; n];
    let mut o = 0;
    for b in blocks {
        for i in 0..b.len() {
            for j in 0..b.len() {
                a[o + i][o + j] = b[i][j];
            }
        }
        o += b.len();
    }
    a
}
/// random split of n into block sizes
fn split(rng: &mut StdRng, n: usize, maxb: usize) -> Vec<usize> {
    let mut left = n;
    let mut v = Vec::new();
    while left > 0 {
        let b = rng.gen_range(1..=left.min(maxb));
        v.push(b);
        left -= b;
    }
    v
}

const SYM_FAMILIES: &[&str] = &["sym_dense", "sym_dense", "sym_repeated", "sym_diag", "sym_block", "sym_lowrank",
                                "sym_hadamard", "sym_tridiag", "sym_zero"];
const GEN_FAMILIES: &[&str] = &["gen_dense", "gen_dense", "gen_triangular", "gen_companion", "gen_rotation",
                                "gen_balanced", "gen_normal", "gen_nilpotent", "gen_perm", "gen_block", "gen_symmetric",
                                "gen_upper_gap", "gen_nil_gap", "gen_block_far", "gen_hess_gap", "gen_companion_top",
                                "gen_upper_gap", "gen_nil_gap"];
/// families used on the size ladder (orders 20, 33, 64)
const LADDER_GEN: &[&str] = &["gen_dense", "gen_upper_gap", "gen_nil_gap", "gen_block_far", "gen_hess_gap",
                              "gen_companion", "gen_triangular", "gen_rotation", "gen_perm", "gen_companion_top"];
const LADDER_SYM: &[&str] = &["sym_dense", "sym_tridiag", "sym_block", "sym_hadamard", "sym_repeated"];

/// entries clamped to [-c, c]: keeps the zero pattern, symmetry and the sign structure
fn clamp(a: &IM, c: i64) -> IM {
    a.iter().map(|r| r.iter().map(|&v| v.max(-c).min(c)).collect()).collect()
}

/// P A P^T for a random permutation (half of the time), or the transpose (a quarter)
fn disguise(rng: &mut StdRng, a: IM) -> IM {
    let n = a.len();
    match rng.gen_range(0..4) {
        0 | 1 => a,
        2 => transpose(&a),
        _ => {
            let mut p: Vec<usize> = (0..n).collect();
            p.shuffle(rng);
            (0..n).map(|i| (0..n).map(|j| a[p[i]][p[j]]).collect()).collect()
        }
    }
}

fn gen_sym(rng: &mut StdRng, n: usize, fam: &str) -> IM {
    let c = cap(n);
    match fam {
        "sym_dense" => sym_random(rng, n, c),
        "sym_repeated" => {
            // a*I + b*J : eigenvalue a with multiplicity n-1; sometimes two such blocks
            let a = rnd(rng, 6);
            let b = rnd(rng, 3);
            (0..n).map(|i| (0..n).map(|j| b + if i == j { a } else { 0 }).collect()).collect()
        }
        "sym_diag" => {
            let vals: Vec<i64> = (0..n).map(|_| rnd(rng, 4)).collect();
            (0..n).map(|i| (0..n).map(|j| if i == j { vals[i] } else { 0 }).collect()).collect()
        }
        "sym_block" => {
            let sizes = split(rng, n, 3);
            let blocks: Vec<IM> = sizes.iter().map(|&s| sym_random(rng, s, 6)).collect();
            block_diag(&blocks)
        }
        "sym_lowrank" => {
            let r = if n > 1 { rng.gen_range(1..n) } else { 1 };
            let g = dense(rng, n, r, 2);
            matmul(&g, &transpose(&g))
        }
        "sym_hadamard" => {
            // H diag(lambda) H^T on the leading 2^k block (eigenvalues 2^k * lambda, repeated), rest diagonal
            let k = [1usize, 2, 4, 8].iter().cloned().filter(|&k| k <= n).max().unwrap();
            let h = hadamard(k);
            let lam: Vec<i64> = (0..k).map(|_| rng.gen_range(-1..=1)).collect();
            let mut a = vec![vec![0i64; n]; n];
            for i in 0..k {
                for j in 0..k {
                    a[i][j] = (0..k).map(|t| h[i][t] * lam[t] * h[j][t]).sum();
                }
            }
            for i in k..n {
                a[i][i] = rnd(rng, 8);
            }
            a
        }
        "sym_tridiag" => {
            let mut a = vec![vec![0i64; n]; n];
            for i in 0..n {
                a[i][i] = rnd(rng, 8);
                if i + 1 < n {
                    let v = if rng.gen_bool(0.2) { 0 } else { rnd(rng, 8) };
                    a[i][i + 1] = v;
                    a[i + 1][i] = v;
                }
            }
            a
        }
        "sym_zero" => {
            let mut a = vec![vec![0i64; n]; n];
            if n > 1 && rng.gen_bool(0.5) {
                a[0][n - 1] = 3;
                a[n - 1][0] = 3;
            }
            a
        }
        _ => unreachable!(),
    }
}

fn gen_gen(rng: &mut StdRng, n: usize, fam: &str) -> IM {
    let c = cap(n);
    match fam {
        "gen_dense" => dense(rng, n, n, c),
        "gen_triangular" => {
            let mut a = vec![vec![0i64; n]; n];
            let rep = rnd(rng, 4);
            for i in 0..n {
                for j in i..n {
                    a[i][j] = if i == j {
                        if rng.gen_bool(0.3) { rep } else { rnd(rng, 6) }
                    } else {
                        rnd(rng, 4)
                    };
                }
            }
            if rng.gen_bool(0.5) {
                transpose(&a)
            } else {
                a
            }
        }
        "gen_companion" => {
            let mut a = vec![vec![0i64; n]; n];
            for i in 1..n {
                a[i][i - 1] = 1;
            }
            for r in a.iter_mut() {
                r[n - 1] = rnd(rng, 4);
            }
            if rng.gen_bool(0.5) {
                transpose(&a)
            } else {
                a
            }
        }
        "gen_rotation" => {
            // [[a,-b],[b,a]] blocks (eigenvalues a +- ib) and 1x1 blocks, then mixed by a
            // unimodular integer similarity (elementary row/column operation) half of the time
            let mut blocks: Vec<IM> = Vec::new();
            let mut left = n;
            while left > 0 {
                if left >= 2 && rng.gen_bool(0.7) {
                    let a = rnd(rng, 4);
                    let b = rng.gen_range(1..=4);
                    blocks.push(vec![vec![a, -b], vec![b, a]]);
                    left -= 2;
                } else {
                    blocks.push(vec![vec![rnd(rng, 4)]]);
                    left -= 1;
                }
            }
            blocks.shuffle(rng);
            let mut a = block_diag(&blocks);
            if n >= 2 && rng.gen_bool(0.5) {
                // A <- E A E^-1 with E = I + t e_p e_q^T
                let p = rng.gen_range(0..n);
                let mut q = rng.gen_range(0..n);
                if q == p {
                    q = (p + 1) % n;
                }
                let t = if rng.gen_bool(0.5) { 1 } else { -1 };
                for j in 0..n {
                    a[p][j] += t * a[q][j];
                }
                for r in a.iter_mut() {
                    r[q] -= t * r[p];
                }
            }
            a
        }
        "gen_balanced" => dense(rng, n, n, 4),
        "gen_normal" => match rng.gen_range(0..3) {
            0 => {
                // skew-symmetric plus a multiple of the identity: eigenvalues c +- i*mu
                let mut a = vec![vec![0i64; n]; n];
                let c0 = rnd(rng, 3);
                for i in 0..n {
                    a[i][i] = c0;
                    for j in 0..i {
                        let v = rnd(rng, 5);
                        a[i][j] = v;
                        a[j][i] = -v;
                    }
                }
                a
            }
            1 => {
                // circulant
                let c0: Vec<i64> = (0..n).map(|_| rnd(rng, 5)).collect();
                (0..n).map(|i| (0..n).map(|j| c0[(j + n - i) % n]).collect()).collect()
            }
            _ => sym_random(rng, n, c),
        },
        "gen_nilpotent" => {
            let mut a = vec![vec![0i64; n]; n];
            for i in 0..n {
                for j in i + 1..n {
                    a[i][j] = if j == i + 1 { 1 } else if rng.gen_bool(0.3) { rnd(rng, 2) } else { 0 };
                }
            }
            let mut p: Vec<usize> = (0..n).collect();
            p.shuffle(rng);
            (0..n).map(|i| (0..n).map(|j| a[p[i]][p[j]]).collect()).collect()
        }
        "gen_perm" => {
            let mut p: Vec<usize> = (0..n).collect();
            p.shuffle(rng);
            let mut a = vec![vec![0i64; n]; n];
            for i in 0..n {
                a[i][p[i]] = if rng.gen_bool(0.3) { -1 } else { 1 };
            }
            a
        }
        "gen_block" => {
            let sizes = split(rng, n, 3);
            let blocks: Vec<IM> = sizes.iter().map(|&s| dense(rng, s, s, 6)).collect();
            let mut a = block_diag(&blocks);
            // coupling above the diagonal keeps the spectrum (block upper triangular)
            for i in 0..n {
                for j in i + 1..n {
                    if a[i][j] == 0 && a[j][i] == 0 && rng.gen_bool(0.3) {
                        a[i][j] = rnd(rng, 3);
                    }
                }
            }
            a
        }
        "gen_symmetric" => sym_random(rng, n, c),
        "gen_upper_gap" => {
            // diagonal + strictly upper part with an EMPTY first super-diagonal; the far entries are
            // 2^k times the diagonal scale
            let mut a = vec![vec![0i64; n]; n];
            let zero_diag = rng.gen_bool(0.3);
            for i in 0..n {
                if !zero_diag {
                    a[i][i] = rnd(rng, 2);
                }
                for j in i + 2..n {
                    if rng.gen_bool(0.6) {
                        a[i][j] = rnd(rng, 2) * (1i64 << rng.gen_range(0..=3));
                    }
                }
            }
            disguise(rng, a)
        }
        "gen_nil_gap" => {
            // nilpotent: all entries at distance >= g >= 2 above the diagonal (squares / cubes of a shift
            // matrix and their sparse perturbations); zero diagonal, sub- and super-diagonal
            let mut a = vec![vec![0i64; n]; n];
            let g = if n > 2 { rng.gen_range(2..=(n - 1).min(4)) } else { 2 };
            let dense_far = rng.gen_bool(0.5);
            for i in 0..n {
                for j in i + g..n {
                    if j == i + g || (dense_far && rng.gen_bool(0.4)) {
                        a[i][j] = if rng.gen_bool(0.5) { 1 } else { rnd(rng, 5) };
                    }
                }
            }
            disguise(rng, a)
        }
        "gen_block_far" => {
            // block upper triangular: small diagonal blocks, LARGE off-diagonal blocks (2^k times larger)
            let sizes = split(rng, n, 3);
            let blocks: Vec<IM> = sizes.iter().map(|&s| dense(rng, s, s, 1)).collect();
            let mut a = block_diag(&blocks);
            let mut start = Vec::new();
            let mut o = 0;
            for &sz in &sizes {
                start.push((o, o + sz));
                o += sz;
            }
            for (bi, &(r0, r1)) in start.iter().enumerate() {
                for &(c0, c1) in start.iter().skip(bi + 1) {
                    if rng.gen_bool(0.6) {
                        let k = rng.gen_range(2..=4);
                        for row in a.iter_mut().take(r1).skip(r0) {
                            for v in row.iter_mut().take(c1).skip(c0) {
                                *v = rnd(rng, 1) * (1i64 << k);
                            }
                        }
                    }
                }
            }
            disguise(rng, a)
        }
        "gen_hess_gap" => {
            // already upper Hessenberg, zeros on the first super-diagonal, some sub-diagonal gaps
            let mut a = vec![vec![0i64; n]; n];
            for i in 0..n {
                a[i][i] = rnd(rng, 2);
                if i + 1 < n && rng.gen_bool(0.7) {
                    a[i + 1][i] = if rng.gen_bool(0.5) { 1 } else { rnd(rng, 3) };
                }
                for j in i + 2..n {
                    if rng.gen_bool(0.5) {
                        a[i][j] = rnd(rng, 2) * (1i64 << rng.gen_range(0..=3));
                    }
                }
            }
            a
        }
        "gen_companion_top" => {
            // coefficients in the first row, ones on the sub-diagonal (and its transpose / flipped form)
            let mut a = vec![vec![0i64; n]; n];
            for i in 1..n {
                a[i][i - 1] = 1;
            }
            for j in 0..n {
                a[0][j] = rnd(rng, 4);
            }
            disguise(rng, a)
        }
        _ => unreachable!(),
    }
}

fn pick_se(rng: &mut StdRng) -> i32 {
    match rng.gen_range(0..10) {
        0..=5 => 0,
        6 | 7 => 40,
        _ => -40,
    }
}

/// orders 1..8 mostly, 9..12 for one input in seven (the ladder sizes 20, 33, 64 are generated
/// separately, a handful each)
fn pick_n(rng: &mut StdRng) -> usize {
    if rng.gen_range(0..7) == 0 {
        rng.gen_range(9..=12usize)
    } else {
        1 + rng.gen_range(0..8usize).min(rng.gen_range(0..10usize).min(7))
    }
}

/// entry bound that keeps the specification's sums of products inside 32 bits at order n
fn fit(a: IM) -> IM {
    let n = a.len();
    if n >= 13 {
        clamp(&a, 2)
    } else if n >= 9 {
        clamp(&a, 4)
    } else {
        a
    }
}

fn one(out: &mut Out, stats: &mut Stats, rng: &mut StdRng, run: i64, fam: &str, a: &IM, bal: &[i32], sym: bool,
       w32: Option<bool>, se: Option<i32>) {
    let se = se.unwrap_or_else(|| pick_se(rng));
    let w32 = w32.unwrap_or_else(|| rng.gen_bool(0.4));
    if w32 {
        ev_evd::<f32>(out, stats, run, fam, a, bal, se, sym);
    } else {
        ev_evd::<f64>(out, stats, run, fam, a, bal, se, sym);
    }
}

fn gen_random(path: &str) {
    let mut out = Out::create(path);
    let mut stats = Stats::default();
    let mut rng = rng(201);
    let big = thorough();
    let n_sym = if big { 60000 } else { 3000 };
    let n_gen = if big { 120000 } else { 5000 };
    let mut run = 0i64;
    for i in 0..n_sym {
        let fam = SYM_FAMILIES[i % SYM_FAMILIES.len()];
        let n = pick_n(&mut rng);
        let a = fit(gen_sym(&mut rng, n, fam));
        run += 1;
        one(&mut out, &mut stats, &mut rng, run, fam, &a, &vec![0; n], true, None, None);
    }
    // size ladder: a handful of inputs at orders 20, 33 and 64
    let reps = if big { 4 } else { 1 };
    for rep in 0..reps {
        for (si, &n) in [20usize, 33, 64].iter().enumerate() {
            for (fi, fam) in LADDER_SYM.iter().enumerate() {
                if !big && (fi + si) % 3 != 0 {
                    continue;
                }
                let a = fit(gen_sym(&mut rng, n, fam));
                run += 1;
                let name = format!("{}@{}", fam, n);
                one(&mut out, &mut stats, &mut rng, run, &name, &a, &vec![0; n], true, Some((rep + fi) % 2 == 1), Some(0));
            }
            for (fi, fam) in LADDER_GEN.iter().enumerate() {
                if !big && (fi + si) % 2 != 0 && n == 64 {
                    continue;
                }
                let a = fit(gen_gen(&mut rng, n, fam));
                run += 1;
                let name = format!("{}@{}", fam, n);
                one(&mut out, &mut stats, &mut rng, run, &name, &a, &vec![0; n], false, Some((rep + fi) % 2 == 1), Some(0));
            }
        }
    }
    for i in 0..n_gen {
        let fam = GEN_FAMILIES[i % GEN_FAMILIES.len()];
        let n = pick_n(&mut rng);
        let a = fit(gen_gen(&mut rng, n, fam));
        // accuracy is promised relative to the norm of the matrix actually fed (D A D^-1), so the
        // specification can only judge moderate exponents: spread <= 10 in f64, <= 2 in f32
        let w32 = rng.gen_bool(0.4);
        let bal: Vec<i32> = if fam == "gen_balanced" {
            let k = if w32 { 1 } else { 5 };
            (0..n).map(|_| rng.gen_range(-k..=k)).collect()
        } else {
            vec![0; n]
        };
        run += 1;
        // the statement quantifies uniform rescaling (1e-12..1e12) over the symmetric inputs only;
        // general inputs are fed unscaled (the "badly balanced" family has its own exponents)
        one(&mut out, &mut stats, &mut rng, run, fam, &a, &bal, false, Some(w32), Some(0));
    }
    let n = out.finish();
    println!("{}", json!({"events": n, "out_of_range": stats.out_of_range, "nonfinite": stats.nonfinite}));
}

/// exhaustive small domains: all symmetric 3x3 over {-1,0,1} (729) through evd(true) and
/// evd(false); all 2x2 over {-2..2} (625; thorough {-3..3}) through evd(false); thorough: all
/// 3x3 over {-1,0,1} (19683) through evd(false)
fn gen_exhaustive(path: &str) {
    let mut out = Out::create(path);
    let mut stats = Stats::default();
    let mut rng = rng(202);
    let mut run = 100_000i64;
    let big = thorough();
    for code in 0..729u32 {
        let mut c = code;
        let mut v = [0i64; 6];
        for x in v.iter_mut() {
            *x = (c % 3) as i64 - 1;
            c /= 3;
        }
        let a = vec![vec![v[0], v[1], v[2]], vec![v[1], v[3], v[4]], vec![v[2], v[4], v[5]]];
        run += 1;
        let w32 = code % 2 == 1;
        one(&mut out, &mut stats, &mut rng, run, "exh_sym3", &a, &[0, 0, 0], true, Some(w32), Some(0));
        one(&mut out, &mut stats, &mut rng, run, "exh_sym3", &a, &[0, 0, 0], false, Some(!w32), Some(0));
    }
    let lim = if big { 3i64 } else { 2 };
    for a00 in -lim..=lim {
        for a01 in -lim..=lim {
            for a10 in -lim..=lim {
                for a11 in -lim..=lim {
                    let a = vec![vec![a00, a01], vec![a10, a11]];
                    run += 1;
                    let w32 = (a00 + a01 + a10 + a11).rem_euclid(2) == 1;
                    one(&mut out, &mut stats, &mut rng, run, "exh_2x2", &a, &[0, 0], false, Some(w32), Some(0));
                }
            }
        }
    }
    if big {
        // every symmetric 3x3 matrix over {-2..2} not covered above (14 896) through evd(true)
        for code in 0..15625u32 {
            let mut c = code;
            let mut v = [0i64; 6];
            for x in v.iter_mut() {
                *x = (c % 5) as i64 - 2;
                c /= 5;
            }
            if v.iter().all(|x| x.abs() <= 1) {
                continue;
            }
            let a = vec![vec![v[0], v[1], v[2]], vec![v[1], v[3], v[4]], vec![v[2], v[4], v[5]]];
            run += 1;
            one(&mut out, &mut stats, &mut rng, run, "exh_sym3b", &a, &[0, 0, 0], true, Some(code % 2 == 1), Some(0));
        }
        for code in 0..19683u32 {
            let mut c = code;
            let mut v = [0i64; 9];
            for x in v.iter_mut() {
                *x = (c % 3) as i64 - 1;
                c /= 3;
            }
            let a = vec![vec![v[0], v[1], v[2]], vec![v[3], v[4], v[5]], vec![v[6], v[7], v[8]]];
            run += 1;
            one(&mut out, &mut stats, &mut rng, run, "exh_3x3", &a, &[0, 0, 0], false, Some(code % 2 == 1), Some(0));
        }
    }
    let n = out.finish();
    println!("{}", json!({"events": n, "out_of_range": stats.out_of_range, "nonfinite": stats.nonfinite}));
}

fn replay(inp: &str, path: &str) {
    let evs = read_ndjson(inp);
    let mut out = Out::create(path);
    let mut stats = Stats::default();
    for e in evs {
        if e["ev"] != "EVD" {
            continue;
        }
        let a: IM = serde_json::from_value(e["A"].clone()).unwrap();
        let bal: Vec<i32> = serde_json::from_value(e["bal"].clone()).unwrap();
        let se = e["se"].as_i64().unwrap() as i32;
        let sym = e["sym"].as_bool().unwrap();
        let run = e["run"].as_i64().unwrap();
        let fam = e["fam"].as_str().unwrap().to_string();
        if e["w"] == "f32" {
            ev_evd::<f32>(&mut out, &mut stats, run, &fam, &a, &bal, se, sym);
        } else {
            ev_evd::<f64>(&mut out, &mut stats, run, &fam, &a, &bal, se, sym);
        }
    }
    let n = out.finish();
    println!("{}", json!({"events": n}));
}

/// spec -> impl: run the real evd(false) (f64) on the inputs printed by EigenModel.tla and record
/// the model's spectrum next to the real one; the comparison is made by the trace specification
fn replay_spec(inp: &str, path: &str) {
    let lines = read_ndjson(inp);
    let mut out = Out::create(path);
    let mut run = 200_000i64;
    for l in lines {
        run += 1;
        let a: IM = serde_json::from_value(l["A"].clone()).unwrap();
        let n = a.len();
        let mut v = Vec::new();
        for r in &a {
            for &x in r {
                v.push(x as f64);
            }
        }
        let m = DenseMatrix::from_array(n, n, &v);
        let res = watchdog(30, move || m.evd(false));
        let q = Q::new(S);
        let (status, got) = match res {
            Some(Ok(Ok(evd))) => ("ok", json!({"d": q.v(&evd.d), "e": q.v(&evd.e)})),
            Some(Ok(Err(_))) => ("err", json!({})),
            Some(Err(_)) => ("panic", json!({})),
            None => ("timeout", json!({})),
        };
        out.emit(json!({"run": run, "ev": "EVDCmp", "A": a, "status": status, "fin": q.ok(),
                        "expect": {"d": l["d"], "e": l["e"]}, "got": got}));
    }
    let n = out.finish();
    println!("{}", json!({"events": n}));
}

fn main() {
    silence_panics();
    let args: Vec<String> = std::env::args().collect();
    match arg(&args, 1) {
        "gen-random" => gen_random(arg(&args, 2)),
        "gen-exhaustive" => gen_exhaustive(arg(&args, 2)),
        "replay-file" => replay(arg(&args, 2), arg(&args, 3)),
        "replay-spec" => replay_spec(arg(&args, 2), arg(&args, 3)),
        x => {
            eprintln!("unknown sub-command {}", x);
            std::process::exit(2)
        }
    }
}
