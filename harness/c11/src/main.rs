//! C11 — naive Bayes.  Fits GaussianNB / MultinomialNB / BernoulliNB / CategoricalNB of the
//! real library on integer-valued training sets, reads the fitted statistics through the
//! public accessors (class priors of the count models through the serde dump, the only place
//! they are observable), predicts a list of query rows and records everything as integers.
//!
//! No property logic lives here: whether the recorded statistics are the sufficient
//! statistics of the data and whether the predicted labels are MAP classes is decided by
//! spec/bayes/NaiveBayesTrace.tla under TLC.  Projections used:
//!   labels, counts            exact integers (`int_exact`; a non-integer sets `...Int = false`)
//!   priors                    round(v * 2^Spr)
//!   Gaussian theta / var      round(v * 2^Sg)   (after undoing the exact 2^e input scaling)
//!   feature_log_prob          round(exp(v) * 2^Sp)      (exp is monotone)
//! The scales are chosen from the *inputs* so that the specification's integers stay < 2^30.
use rand::rngs::StdRng;
use rand::seq::SliceRandom;
use rand::Rng;
use serde_json::{json, Value};
use smartcore::linalg::naive::dense_matrix::DenseMatrix;
use smartcore::naive_bayes::bernoulli::{BernoulliNB, BernoulliNBParameters};
use smartcore::naive_bayes::categorical::{CategoricalNB, CategoricalNBParameters};
use smartcore::naive_bayes::gaussian::{GaussianNB, GaussianNBParameters};
use smartcore::naive_bayes::multinomial::{MultinomialNB, MultinomialNBParameters};
use vutil::*;

type M = DenseMatrix<f64>;

#[derive(Clone)]
struct Case {
    variant: String,
    x: Vec<Vec<i64>>,
    y: Vec<i64>,
    e: i32,                           // Gaussian only: features are x * 2^e
    ecol: Vec<i32>,                   // Gaussian only: column j additionally times 2^ecol[j] (empty = none)
    backend: String,                  // Gaussian only: "dense" | "ndarray" | "ndarray-f" | "nalgebra"
    built: String,                    // builder-call order to use ("" = rotate with the run number)
    a_num: i64,
    a_den: i64,                       // alpha = a_num / a_den
    thr2: Option<i64>,                // Bernoulli: binarize threshold = thr2 / 2
    priors: Option<(Vec<i64>, i64)>,  // user priors num[i] / den
    queries: Vec<Vec<i64>>,
    model_preds: Option<Vec<i64>>,    // spec -> impl: what the design model predicts
    tag: String,
}

/// rows with column j multiplied by the exact power of two 2^exps[j]
fn scaled_rows(rows: &[Vec<i64>], exps: &[i32]) -> Vec<Vec<f64>> {
    rows.iter().map(|r| r.iter().enumerate().map(|(j, &v)| v as f64 * 2f64.powi(exps[j])).collect()).collect()
}

fn mat(rows: &[Vec<i64>], exps: &[i32]) -> M {
    DenseMatrix::from_2d_vec(&scaled_rows(rows, exps))
}

/// (status, classes, class_count, priors, theta, var, predStatus, preds) of a Gaussian fit on any back end
type GaussOut = (String, Vec<f64>, Vec<usize>, Vec<f64>, Vec<Vec<f64>>, Vec<Vec<f64>>, String, Vec<f64>);

fn gauss_on<MM: smartcore::linalg::Matrix<f64>>(x: &MM, y: &[f64], priors: &Option<Vec<f64>>, q: &MM, fields: bool) -> GaussOut {
    use smartcore::linalg::BaseVector;
    let yv = MM::RowVector::from_array(y);
    let mut par = GaussianNBParameters::default();
    if let Some(pf) = priors {
        if fields {
            par.priors = Some(pf.clone()); // direct field assignment
        } else {
            par = par.with_priors(pf.clone());
        }
    }
    match GaussianNB::fit(x, &yv, par) {
        Err(_) => ("err".into(), vec![], vec![], vec![], vec![], vec![], "none".into(), vec![]),
        Ok(m) => {
            let (ps, pv) = match guard(|| m.predict(q)) {
                Ok(Ok(v)) => ("ok".to_string(), v.to_vec()),
                Ok(Err(_)) => ("err".to_string(), vec![]),
                Err(_) => ("panic".to_string(), vec![]),
            };
            ("ok".into(), m.classes().clone(), m.class_count().clone(), m.class_priors().clone(),
             m.theta().clone(), m.var().clone(), ps, pv)
        }
    }
}

fn gauss_backend(backend: &str, xr: &[Vec<f64>], y: &[f64], priors: &Option<Vec<f64>>, qr: &[Vec<f64>], fields: bool) -> GaussOut {
    let flat = |r: &[Vec<f64>]| -> Vec<f64> { r.iter().flatten().cloned().collect() };
    let nd_f = |r: &[Vec<f64>]| -> ndarray::Array2<f64> {
        // the same logical matrix stored column-major
        let (nr, nc) = (r.len(), r[0].len());
        let mut cm = Vec::with_capacity(nr * nc);
        for j in 0..nc {
            for row in r.iter() {
                cm.push(row[j]);
            }
        }
        ndarray::Array2::from_shape_vec((nc, nr), cm).unwrap().reversed_axes()
    };
    let p = xr[0].len();
    match backend {
        "ndarray" => gauss_on(&ndarray::Array2::from_shape_vec((xr.len(), p), flat(xr)).unwrap(), y, priors,
                              &ndarray::Array2::from_shape_vec((qr.len(), p), flat(qr)).unwrap(), fields),
        "ndarray-f" => gauss_on(&nd_f(xr), y, priors, &nd_f(qr), fields),
        "nalgebra" => gauss_on(&nalgebra::DMatrix::from_row_slice(xr.len(), p, &flat(xr)), y, priors,
                               &nalgebra::DMatrix::from_row_slice(qr.len(), p, &flat(qr)), fields),
        _ => gauss_on(&DenseMatrix::from_2d_vec(&xr.to_vec()), y, priors, &DenseMatrix::from_2d_vec(&qr.to_vec()), fields),
    }
}

fn ints(v: &[f64]) -> (Vec<i64>, bool) {
    let mut ok = true;
    let out = v
        .iter()
        .map(|&x| match int_exact(x) {
            Some(i) => i,
            None => {
                ok = false;
                0
            }
        })
        .collect();
    (out, ok)
}

fn ilog2_floor(v: i128) -> u32 {
    127 - (v.max(1) as u128).leading_zeros()
}

/// scale S with bound * 2^S < 2^29, clamped to [lo, hi]
fn scale_for(bound: i128, lo: u32, hi: u32) -> u32 {
    let b = bound.max(1);
    if b >= (1 << 29) {
        return lo;
    }
    ilog2_floor((1i128 << 29) / b).clamp(lo, hi)
}

fn qm(q: &Q, rows: &[Vec<f64>], f: &dyn Fn(f64) -> f64) -> Vec<Vec<i64>> {
    rows.iter().map(|r| r.iter().map(|&v| q.x(f(v))).collect()).collect()
}

fn priors_from_dump(v: &Value) -> Vec<f64> {
    v["inner"]["distribution"]["class_priors"]
        .as_array()
        .map(|a| a.iter().map(|x| x.as_f64().unwrap_or(f64::NAN)).collect())
        .unwrap_or_default()
}

fn fit_event(run: i64, c: &Case) -> Value {
    let n = c.x.len() as i128;
    let p = c.x[0].len() as i128;
    let maxabs = c.x.iter().flatten().map(|v| v.abs()).max().unwrap_or(0) as i128;
    let total: i128 = c.x.iter().flatten().map(|v| v.abs() as i128).sum();
    let (a, b) = (c.a_num as i128, c.a_den as i128);
    let spr = 16u32;
    let sg = scale_for(n * n * maxabs.max(1) * maxabs.max(1), 2, 14);
    let sp = match c.variant.as_str() {
        "multinomial" => scale_for(b * total + a * p, 4, 16),
        "bernoulli" => scale_for(b * n + 2 * a, 4, 16),
        _ => scale_for(b * n + a * (maxabs + 1), 4, 16),
    };
    let alpha = c.a_num as f64 / c.a_den as f64;
    let priors_f: Option<Vec<f64>> = c.priors.as_ref().map(|(nu, de)| nu.iter().map(|&k| k as f64 / *de as f64).collect());
    let pz = c.x[0].len();
    let ecol: Vec<i32> = if c.ecol.len() == pz { c.ecol.clone() } else { vec![0; pz] };
    let exps: Vec<i32> = ecol.iter().map(|&v| v + c.e).collect();
    let x = mat(&c.x, &exps);
    let y: Vec<f64> = c.y.iter().map(|&v| v as f64).collect();
    let q = mat(&c.queries, &exps);
    // the order in which the parameter object is built rotates with the run number: every
    // permutation of the with_* calls the variant has, plus direct field assignment
    let orders: &[&str] = match c.variant.as_str() {
        "gaussian" => &["priors", "fields"],
        "multinomial" => &["alpha,priors", "priors,alpha", "fields"],
        "bernoulli" => &["alpha,priors,binarize", "alpha,binarize,priors", "priors,alpha,binarize", "priors,binarize,alpha",
                         "binarize,alpha,priors", "binarize,priors,alpha", "fields"],
        _ => &["alpha", "fields"],
    };
    let built: &str = if c.built.is_empty() { orders[(run as usize + c.x.len()) % orders.len()] } else { c.built.as_str() };
    let mut ev = json!({"run": run, "ev": "NBFit", "variant": c.variant, "tag": c.tag, "X": c.x, "y": c.y, "e": c.e, "built": built,
        "ecol": ecol, "backend": c.backend,
        "aNum": c.a_num, "aDen": c.a_den,
        "hasThr": c.thr2.is_some(), "thr2": c.thr2.unwrap_or(0),
        "hasPriors": c.priors.is_some(),
        "priorsNum": c.priors.as_ref().map(|p| p.0.clone()).unwrap_or_default(),
        "priorsDen": c.priors.as_ref().map(|p| p.1).unwrap_or(1),
        "Spr": spr, "Sg": sg, "Sp": sp, "queries": c.queries,
        "hasModel": c.model_preds.is_some(), "modelPreds": c.model_preds.clone().unwrap_or_default()});
    let qpr = Q::with_limit(spr, 1.0e9);
    let qg = Q::with_limit(sg, 1.0e9);
    let qp = Q::with_limit(sp, 1.0e9);
    // (status, out, predStatus, preds)
    let r = guard(|| -> (String, Value, String, Vec<f64>) {
        let pred_of = |r: Result<Result<Vec<f64>, smartcore::error::Failed>, String>| match r {
            Ok(Ok(v)) => ("ok".to_string(), v),
            Ok(Err(_)) => ("err".to_string(), vec![]),
            Err(_) => ("panic".to_string(), vec![]),
        };
        match c.variant.as_str() {
            "gaussian" => {
                let (st, cls, cc, pri, th, va, ps, pv) =
                    gauss_backend(&c.backend, &scaled_rows(&c.x, &exps), &y, &priors_f, &scaled_rows(&c.queries, &exps), built == "fields");
                if st != "ok" {
                    (st, json!({}), "none".into(), vec![])
                } else {
                    let (cl, cli) = ints(&cls);
                    // undo the exact per-column scaling: theta_j / 2^exp_j, var_j / 4^exp_j
                    let unq = |rows: &[Vec<f64>], pw: i32| -> Vec<Vec<i64>> {
                        rows.iter().map(|r| r.iter().enumerate().map(|(j, &v)| qg.x(v * 2f64.powi(-pw * exps[j.min(exps.len() - 1)]))).collect()).collect()
                    };
                    let out = json!({"classes": cl, "classesInt": cli, "classCount": cc,
                        "priors": qpr.v(&pri), "theta": unq(&th, 1), "var": unq(&va, 2)});
                    ("ok".into(), out, ps, pv)
                }
            }
            "multinomial" => {
                let mut par = MultinomialNBParameters::default();
                if built == "fields" {
                    par.alpha = alpha;
                    par.priors = priors_f.clone();
                } else {
                    for step in built.split(',') {
                        par = match (step, &priors_f) {
                            ("alpha", _) => par.with_alpha(alpha),
                            ("priors", Some(pf)) => par.with_priors(pf.clone()),
                            _ => par,
                        };
                    }
                }
                match MultinomialNB::fit(&x, &y, par) {
                    Err(_) => ("err".into(), json!({}), "none".into(), vec![]),
                    Ok(m) => {
                        let (cl, cli) = ints(m.classes());
                        let dump = serde_json::to_value(&m).unwrap_or(json!({}));
                        let out = json!({"classes": cl, "classesInt": cli, "classCount": m.class_count(),
                            "priors": qpr.v(&priors_from_dump(&dump)), "nFeatures": m.n_features(),
                            "featureCount": m.feature_count(), "prob": qm(&qp, m.feature_log_prob(), &|v| v.exp())});
                        let (ps, pv) = pred_of(guard(|| m.predict(&q)));
                        ("ok".into(), out, ps, pv)
                    }
                }
            }
            "bernoulli" => {
                let mut par = BernoulliNBParameters::default();
                if built == "fields" {
                    par.alpha = alpha;
                    par.priors = priors_f.clone();
                    par.binarize = c.thr2.map(|t| t as f64 / 2.0);
                } else {
                    for step in built.split(',') {
                        par = match (step, &priors_f, c.thr2) {
                            ("alpha", _, _) => par.with_alpha(alpha),
                            ("priors", Some(pf), _) => par.with_priors(pf.clone()),
                            ("binarize", _, Some(t)) => par.with_binarize(t as f64 / 2.0),
                            ("binarize", _, None) => {
                                par.binarize = None; // "no binarisation" has no builder method
                                par
                            }
                            _ => par,
                        };
                    }
                }
                match BernoulliNB::fit(&x, &y, par) {
                    Err(_) => ("err".into(), json!({}), "none".into(), vec![]),
                    Ok(m) => {
                        let (cl, cli) = ints(m.classes());
                        let dump = serde_json::to_value(&m).unwrap_or(json!({}));
                        let out = json!({"classes": cl, "classesInt": cli, "classCount": m.class_count(),
                            "priors": qpr.v(&priors_from_dump(&dump)), "nFeatures": m.n_features(),
                            "featureCount": m.feature_count(), "prob": qm(&qp, m.feature_log_prob(), &|v| v.exp())});
                        let (ps, pv) = pred_of(guard(|| m.predict(&q)));
                        ("ok".into(), out, ps, pv)
                    }
                }
            }
            _ => {
                let par = if built == "fields" {
                    let mut p0 = CategoricalNBParameters::default();
                    p0.alpha = alpha;
                    p0
                } else {
                    CategoricalNBParameters::default().with_alpha(alpha)
                };
                match CategoricalNB::fit(&x, &y, par) {
                    Err(_) => ("err".into(), json!({}), "none".into(), vec![]),
                    Ok(m) => {
                        let (cl, cli) = ints(m.classes());
                        let dump = serde_json::to_value(&m).unwrap_or(json!({}));
                        let prob: Vec<Vec<Vec<i64>>> = m.feature_log_prob().iter().map(|f| qm(&qp, f, &|v| v.exp())).collect();
                        let out = json!({"classes": cl, "classesInt": cli, "classCount": m.class_count(),
                            "priors": qpr.v(&priors_from_dump(&dump)), "nFeatures": m.n_features(),
                            "nCategories": m.n_categories(), "categoryCount": m.category_count(), "prob": prob});
                        let (ps, pv) = pred_of(guard(|| m.predict(&q)));
                        ("ok".into(), out, ps, pv)
                    }
                }
            }
        }
    });
    match r {
        Ok((status, out, ps, pv)) => {
            let (pi, pint) = ints(&pv);
            ev["status"] = json!(status);
            ev["out"] = out;
            ev["statsOk"] = json!(qpr.ok() && qg.ok() && qp.ok());
            ev["predStatus"] = json!(ps);
            ev["preds"] = json!(pi);
            ev["predsInt"] = json!(pint);
        }
        Err(_) => {
            ev["status"] = json!("panic");
            ev["out"] = json!({});
            ev["statsOk"] = json!(false);
            ev["predStatus"] = json!("none");
            ev["preds"] = json!([]);
            ev["predsInt"] = json!(false);
        }
    }
    ev
}

// ---------------------------------------------------------------------------- generators

fn all_rows(vals: &[i64], p: usize) -> Vec<Vec<i64>> {
    let mut out: Vec<Vec<i64>> = vec![vec![]];
    for _ in 0..p {
        let mut nx = Vec::new();
        for v in out.iter() {
            for &a in vals {
                let mut w = v.clone();
                w.push(a);
                nx.push(w);
            }
        }
        out = nx;
    }
    out
}

/// every row built from values that occur in the same column of x (at most `cap`, seeded choice beyond)
fn column_product(x: &[Vec<i64>], cap: usize, r: &mut StdRng) -> Vec<Vec<i64>> {
    let p = x[0].len();
    let cols: Vec<Vec<i64>> = (0..p)
        .map(|j| {
            let mut c: Vec<i64> = x.iter().map(|r| r[j]).collect();
            c.sort();
            c.dedup();
            c
        })
        .collect();
    let total: usize = cols.iter().map(|c| c.len()).product();
    if total <= cap {
        let mut out: Vec<Vec<i64>> = vec![vec![]];
        for c in cols.iter() {
            let mut nx = Vec::new();
            for v in out.iter() {
                for &a in c {
                    let mut w = v.clone();
                    w.push(a);
                    nx.push(w);
                }
            }
            out = nx;
        }
        out
    } else {
        (0..cap).map(|_| cols.iter().map(|c| c[r.gen_range(0..c.len())]).collect()).collect()
    }
}

const VARIANTS: [&str; 4] = ["gaussian", "multinomial", "bernoulli", "categorical"];
const ALPHAS: [(i64, i64); 6] = [(1, 4), (1, 2), (1, 1), (2, 1), (5, 1), (1, 100)];

fn small_case(variant: &str, x: &[Vec<i64>], y: &[i64], alpha: (i64, i64), thr2: i64, r: &mut StdRng) -> Case {
    Case {
        variant: variant.to_string(),
        x: x.to_vec(),
        y: y.to_vec(),
        e: 0,
        ecol: vec![],
        backend: "dense".into(), built: String::new(),
        a_num: alpha.0,
        a_den: alpha.1,
        thr2: if variant == "bernoulli" { Some(thr2) } else { None },
        priors: None,
        queries: column_product(x, 9, r),
        model_preds: None,
        tag: "small".into(),
    }
}

/// exhaustive small domain of DESIGN §3 C11: n rows, p <= 2 features over {0,1,2}, labels from
/// {-3,2,7} (categorical: {0,1,3}) in any order
fn gen_small(out: &mut Out, r: &mut StdRng, th: bool) -> i64 {
    let mut run = 0;
    let labels = [-3i64, 2, 7];
    let clabels = [0i64, 1, 3];
    let alphas = [(1i64, 2i64), (2, 1), (1, 1), (5, 1)];
    let mut k = 0usize;
    let emit_all = |out: &mut Out, x: &Vec<Vec<i64>>, yi: &Vec<usize>, r: &mut StdRng, k: &mut usize, run: &mut i64| {
        for v in VARIANTS.iter() {
            let y: Vec<i64> = yi.iter().map(|&i| if *v == "categorical" { clabels[i] } else { labels[i] }).collect();
            // two of the four alphas per (data set, variant), rotating
            for t in 0..2 {
                let al = alphas[(*k + 2 * t) % 4];
                *k += 1;
                *run += 1;
                let c = small_case(v, x, &y, al, if *k % 2 == 0 { 1 } else { 3 }, r);
                out.emit(fit_event(*run, &c));
                if *v == "gaussian" {
                    break; // no alpha
                }
            }
        }
    };
    let nmax_all = if th { 3 } else { 2 };
    for n in 1..=nmax_all {
        for p in 1..=2usize {
            if n == 3 && p == 2 {
                continue; // 19 683 data sets: sampled below
            }
            let rows = all_rows(&[0, 1, 2], p);
            let xs = all_rows(&(0..rows.len() as i64).collect::<Vec<i64>>(), n); // row indices
            let ys = all_rows(&[0, 1, 2], n);
            for xi in xs.iter() {
                let x: Vec<Vec<i64>> = xi.iter().map(|&i| rows[i as usize].clone()).collect();
                for yi in ys.iter() {
                    let yi: Vec<usize> = yi.iter().map(|&v| v as usize).collect();
                    emit_all(out, &x, &yi, r, &mut k, &mut run);
                }
            }
        }
    }
    // sampled: n = 3 (quick: p <= 2; thorough: p = 2) and n = 4
    let cnt = if th { 2500 } else { 350 };
    for i in 0..cnt {
        let n = if th { 3 + i % 2 } else { 3 };
        let p = if th && n == 3 { 2 } else { 1 + i % 2 };
        let x: Vec<Vec<i64>> = (0..n).map(|_| (0..p).map(|_| r.gen_range(0..=2)).collect()).collect();
        let yi: Vec<usize> = (0..n).map(|_| r.gen_range(0..3)).collect();
        emit_all(out, &x, &yi, r, &mut k, &mut run);
    }
    run
}

fn random_labels(r: &mut StdRng, k: usize, categorical: bool) -> Vec<i64> {
    let mut s: Vec<i64> = Vec::new();
    if !categorical && k >= 2 && r.gen_bool(0.15) {
        // a label and its negative: same magnitude, different classes
        let v = r.gen_range(1..=50);
        s.push(v);
        s.push(-v);
    }
    while s.len() < k {
        let v = if categorical { r.gen_range(0..=7) } else { r.gen_range(-50..=50) };
        if !s.contains(&v) {
            s.push(v);
        }
    }
    s
}

fn skewed_y(r: &mut StdRng, n: usize, labels: &[i64]) -> Vec<i64> {
    let w: Vec<u32> = labels.iter().map(|_| [1u32, 1, 2, 5, 10][r.gen_range(0..5)]).collect();
    let tot: u32 = w.iter().sum();
    let mut y: Vec<i64> = Vec::with_capacity(n);
    for i in 0..n {
        if i < 2 * labels.len() && (i < labels.len() || n >= 3 * labels.len()) {
            y.push(labels[i % labels.len()]); // every class occurs (twice when there is room)
        } else {
            let mut t = r.gen_range(0..tot);
            let mut c = 0;
            while t >= w[c] {
                t -= w[c];
                c += 1;
            }
            y.push(labels[c]);
        }
    }
    y.shuffle(r);
    y
}

fn random_priors(r: &mut StdRng, k: usize) -> (Vec<i64>, i64) {
    let den = [4i64, 5, 8, 10, 16, 20, 100][r.gen_range(0..7)].max(k as i64);
    let mut nu = vec![1i64; k];
    for _ in 0..(den - k as i64) {
        let i = r.gen_range(0..k);
        nu[i] += 1;
    }
    (nu, den)
}

fn queries_for(r: &mut StdRng, x: &[Vec<i64>], cnt: usize) -> Vec<Vec<i64>> {
    let mut q: Vec<Vec<i64>> = Vec::new();
    for i in 0..cnt {
        if i % 2 == 0 {
            q.push(x[r.gen_range(0..x.len())].clone()); // a training row
        } else {
            // outside the training set (most likely), every value seen in its column
            q.push((0..x[0].len()).map(|j| x[r.gen_range(0..x.len())][j]).collect());
        }
    }
    q
}

fn gen_random(out: &mut Out, r: &mut StdRng, th: bool) -> i64 {
    let mut run = 0;
    let cnt = if th { 9000 } else { 1300 };
    for it in 0..cnt {
        let variant = VARIANTS[it % 4];
        let cat = variant == "categorical";
        let n: usize = match r.gen_range(0..10) {
            0 => 2,
            1 | 2 => r.gen_range(3..=6),
            3 => 120,
            _ => r.gen_range(2..=120),
        };
        let p: usize = match r.gen_range(0..6) {
            0 => 1,
            1 => 8,
            _ => r.gen_range(1..=8),
        };
        let k = r.gen_range(2..=5usize).min(n);
        let labels = random_labels(r, k, cat);
        let y = skewed_y(r, n, &labels);
        let alpha = ALPHAS[r.gen_range(0..ALPHAS.len())];
        let mut thr2 = None;
        let mut e = 0;
        let x: Vec<Vec<i64>> = match variant {
            "gaussian" => {
                e = if r.gen_bool(0.5) { 0 } else { r.gen_range(-3..=3) };
                let lo = if r.gen_bool(0.5) { -9 } else { 0 };
                // class-dependent centre so that classes are separable to a degree
                y.iter().map(|&l| (0..p).map(|j| (r.gen_range(lo..=9) + ((l + j as i64) % 3)).clamp(-9, 9)).collect()).collect()
            }
            "multinomial" => {
                let m = if r.gen_bool(0.7) { 3 } else { 5 };
                y.iter().map(|&l| (0..p).map(|j| if (l + j as i64) % 2 == 0 { r.gen_range(0..=m) } else { r.gen_range(0..=m / 2) }).collect()).collect()
            }
            "bernoulli" => {
                if r.gen_bool(0.5) {
                    // 0/1 data, no binarisation
                    y.iter().map(|&l| (0..p).map(|j| r.gen_bool(if (l + j as i64) % 2 == 0 { 0.7 } else { 0.3 }) as i64).collect()).collect()
                } else {
                    thr2 = Some([-1i64, 1, 3, 5, 7][r.gen_range(0..5)]);
                    y.iter().map(|_| (0..p).map(|_| r.gen_range(0..=4)).collect()).collect()
                }
            }
            _ => {
                let kj: Vec<i64> = (0..p).map(|_| r.gen_range(1..=5)).collect();
                y.iter().map(|&l| (0..p).map(|j| (r.gen_range(0..kj[j]) + l) % kj[j]).collect()).collect()
            }
        };
        let mut priors = if !cat && r.gen_bool(0.3) { Some(random_priors(r, k)) } else { None };
        if let Some((nu, _)) = priors.as_mut() {
            // a quarter of the user priors contain an exact zero (its mass moved to another class)
            if k >= 2 && r.gen_bool(0.25) {
                let i = r.gen_range(0..k);
                let j = (i + 1 + r.gen_range(0..k - 1)) % k;
                nu[j] += nu[i];
                nu[i] = 0;
            }
        }
        let nq = if n > 40 { 4 } else { 8 };
        let queries = queries_for(r, &x, nq);
        run += 1;
        // Gaussian: features on wildly different scales (per-column exact rescaling 2^-40 / 1 / 2^40)
        let ecol: Vec<i32> = if variant == "gaussian" && p >= 2 && r.gen_bool(0.35) {
            let mut v: Vec<i32> = (0..p).map(|_| [-40, 0, 40][r.gen_range(0..3)]).collect();
            v[0] = 40;
            v[p - 1] = -40;
            v
        } else {
            vec![]
        };
        let backend = if variant == "gaussian" && it % 16 >= 12 { ["ndarray", "ndarray-f", "nalgebra"][(it / 16) % 3] } else { "dense" };
        let c = Case { variant: variant.into(), x, y, e, ecol, backend: backend.into(), built: String::new(), a_num: alpha.0, a_den: alpha.1, thr2, priors, queries,
                       model_preds: None, tag: "random".into() };
        out.emit(fit_event(run, &c));
    }
    run
}

/// Gaussian data sets for which the MAP decision needs no logarithm: every class is a
/// translated copy of the same base sample (equal class sizes, hence equal priors and equal
/// per-feature variances), so the class scores differ only in the quadratic terms.
fn gen_gauss_shift(out: &mut Out, r: &mut StdRng, th: bool) -> i64 {
    let mut run = 0;
    let cnt = if th { 5000 } else { 700 };
    for _ in 0..cnt {
        let k = r.gen_range(2..=4usize);
        let nb = r.gen_range(2..=5usize);
        let p = r.gen_range(1..=3usize);
        // per-feature spread differs so that the variances differ between features
        let spread: Vec<i64> = (0..p).map(|_| [1i64, 2, 4, 6][r.gen_range(0..4)]).collect();
        let mut base: Vec<Vec<i64>> = (0..nb).map(|_| (0..p).map(|j| r.gen_range(0..=spread[j])).collect()).collect();
        for j in 0..p {
            // (mostly) at least two distinct values per feature, so that the variance is not zero
            if base.iter().all(|b| b[j] == base[0][j]) && r.gen_bool(0.9) {
                base[0][j] += 1;
            }
        }
        let labels = random_labels(r, k, false);
        let shifts: Vec<Vec<i64>> = (0..k).map(|_| (0..p).map(|_| r.gen_range(-4..=4)).collect()).collect();
        let mut rows: Vec<(Vec<i64>, i64)> = Vec::new();
        for c in 0..k {
            for b in base.iter() {
                rows.push(((0..p).map(|j| b[j] + shifts[c][j]).collect(), labels[c]));
            }
        }
        rows.shuffle(r);
        let x: Vec<Vec<i64>> = rows.iter().map(|t| t.0.clone()).collect();
        let y: Vec<i64> = rows.iter().map(|t| t.1).collect();
        let queries = queries_for(r, &x, 10);
        let e = if r.gen_bool(0.6) { 0 } else { r.gen_range(-3..=3) };
        run += 1;
        let ecol: Vec<i32> = if p >= 2 && r.gen_bool(0.35) {
            let mut v: Vec<i32> = (0..p).map(|_| [-40, 0, 40][r.gen_range(0..3)]).collect();
            v[0] = 40;
            v[p - 1] = -40;
            v
        } else {
            vec![]
        };
        let backend = ["dense", "dense", "dense", "ndarray", "dense", "ndarray-f", "dense", "nalgebra"][(run as usize) % 8];
        let c = Case { variant: "gaussian".into(), x, y, e, ecol, backend: backend.into(), built: String::new(), a_num: 1, a_den: 1, thr2: None, priors: None, queries,
                       model_preds: None, tag: "gauss-shift".into() };
        out.emit(fit_event(run, &c));
    }
    run
}

/// Well separated Gaussian clusters (translated copies of one base sample, hundreds of
/// standard deviations apart) with user priors that contain exact zeros and are equal on
/// the other classes; queries from every cluster, in particular from the zero-prior ones.
/// A class of prior 0 has score -infinity and must never be predicted.
fn gen_gauss_zero_prior(out: &mut Out, r: &mut StdRng, th: bool) -> i64 {
    let mut run = 0;
    let cnt = if th { 1500 } else { 160 };
    for _ in 0..cnt {
        let k = r.gen_range(2..=4usize);
        let nb = r.gen_range(3..=5usize);
        let p = r.gen_range(1..=3usize);
        let spread: Vec<i64> = (0..p).map(|_| [1i64, 2, 4, 6][r.gen_range(0..4)]).collect();
        let mut base: Vec<Vec<i64>> = (0..nb).map(|_| (0..p).map(|j| r.gen_range(0..=spread[j])).collect()).collect();
        for j in 0..p {
            if base.iter().all(|b| b[j] == base[0][j]) {
                base[0][j] += 1;
            }
        }
        let labels = random_labels(r, k, false);
        let step = r.gen_range(150..=200i64);
        let mut order: Vec<usize> = (0..k).collect();
        order.shuffle(r);
        let shifts: Vec<Vec<i64>> = (0..k).map(|c| (0..p).map(|_| order[c] as i64 * step + r.gen_range(0..=3)).collect()).collect();
        let mut rows: Vec<(Vec<i64>, i64)> = Vec::new();
        for c in 0..k {
            for b in base.iter() {
                rows.push(((0..p).map(|j| b[j] + shifts[c][j]).collect(), labels[c]));
            }
        }
        rows.shuffle(r);
        let x: Vec<Vec<i64>> = rows.iter().map(|t| t.0.clone()).collect();
        let y: Vec<i64> = rows.iter().map(|t| t.1).collect();
        // priors in the order of the sorted labels (the order the model lists its classes)
        let mut sorted = labels.clone();
        sorted.sort();
        let nzero = r.gen_range(1..k);
        let mut zero_idx: Vec<usize> = (0..k).collect();
        zero_idx.shuffle(r);
        let zero_idx = &zero_idx[..nzero];
        let w = r.gen_range(1..=3i64);
        let nu: Vec<i64> = (0..k).map(|i| if zero_idx.contains(&i) { 0 } else { w }).collect();
        let den: i64 = nu.iter().sum();
        // one training row of every cluster, then mixed rows
        let mut queries: Vec<Vec<i64>> = sorted.iter().map(|l| rows.iter().find(|t| t.1 == *l).unwrap().0.clone()).collect();
        queries.extend(queries_for(r, &x, 4));
        let e = if r.gen_bool(0.7) { 0 } else { r.gen_range(-3..=3) };
        run += 1;
        let c = Case { variant: "gaussian".into(), x, y, e, ecol: vec![], backend: "dense".into(), built: String::new(), a_num: 1, a_den: 1, thr2: None,
                       priors: Some((nu, den)), queries, model_preds: None, tag: "gauss-zero-prior".into() };
        out.emit(fit_event(run, &c));
    }
    run
}

fn ivec(v: &Value) -> Vec<i64> {
    v.as_array().unwrap().iter().map(|x| x.as_i64().unwrap()).collect()
}
fn imat(v: &Value) -> Vec<Vec<i64>> {
    v.as_array().unwrap().iter().map(ivec).collect()
}

fn case_of(l: &Value, from_model: bool) -> Case {
    Case {
        variant: l["variant"].as_str().unwrap().to_string(),
        x: imat(&l["X"]),
        y: ivec(&l["y"]),
        e: l["e"].as_i64().unwrap_or(0) as i32,
        ecol: l["ecol"].as_array().map(|a| a.iter().map(|v| v.as_i64().unwrap_or(0) as i32).collect()).unwrap_or_default(),
        backend: l["backend"].as_str().unwrap_or("dense").to_string(),
        built: l["built"].as_str().unwrap_or("").to_string(),
        a_num: l["aNum"].as_i64().unwrap(),
        a_den: l["aDen"].as_i64().unwrap(),
        thr2: if l["hasThr"].as_bool().unwrap_or(false) { Some(l["thr2"].as_i64().unwrap()) } else { None },
        priors: if l["hasPriors"].as_bool().unwrap_or(false) { Some((ivec(&l["priorsNum"]), l["priorsDen"].as_i64().unwrap())) } else { None },
        queries: imat(&l["queries"]),
        model_preds: if from_model || l["hasModel"].as_bool().unwrap_or(false) { Some(ivec(&l["modelPreds"])) } else { None },
        tag: if from_model { "model".into() } else { l["tag"].as_str().unwrap_or("rerun").to_string() },
    }
}

fn main() {
    let args: Vec<String> = std::env::args().skip(1).collect();
    let args = &args[..];
    silence_panics();
    let mode = arg(args, 0);
    let path = arg(args, 1);
    let mut out = Out::create(path);
    let mut r = rng(11);
    let th = thorough();
    let runs = match mode {
        "gen-small" => gen_small(&mut out, &mut r, th),
        "gen-random" => gen_random(&mut out, &mut r, th),
        "gen-gauss-shift" => gen_gauss_shift(&mut out, &mut r, th),
        "gen-gauss-zero-prior" => gen_gauss_zero_prior(&mut out, &mut r, th),
        // spec -> impl: inputs enumerated by TLC from NaiveBayesMC with the model's predictions
        "replay-spec" | "rerun" => {
            let mut run = 0;
            for l in read_ndjson(arg(args, 2)) {
                run += 1;
                out.emit(fit_event(run, &case_of(&l, mode == "replay-spec")));
            }
            run
        }
        _ => {
            eprintln!("unknown c11 mode {}", mode);
            std::process::exit(2);
        }
    };
    let n = out.finish();
    println!("events={} runs={}", n, runs);
}
