//! C07 — ordinary least squares and ridge regression.  Generates integer-valued regression
//! problems, feeds them (optionally with exact power-of-two column / target scalings) to the
//! real `LinearRegression` (QR, SVD) and `RidgeRegression` (Cholesky, SVD) in f64 and f32,
//! undoes the scalings exactly and records coefficients, intercept and predictions as
//! fixed-point integers.  A sample of the f64 problems is additionally fitted through the
//! ndarray bindings with a column-major X and a negatively strided y (`backend: "ndarray"`).
//! No property logic lives here: every event is judged by
//! spec/linear/LeastSquares.tla under TLC.  The only computations on the data are (a) an exact
//! integer rank test that keeps the generator inside the property's domain (full column
//! rank / no constant column) and (b) a magnitude bound that picks the fixed-point scale S
//! so that the specification's 32-bit integer arithmetic cannot overflow.
use rand::rngs::StdRng;
use rand::Rng;
use serde_json::{json, Value};
use smartcore::api::{Predictor, SupervisedEstimator};
use smartcore::linalg::naive::dense_matrix::DenseMatrix;
use smartcore::linalg::BaseMatrix;
use smartcore::linear::linear_regression::*;
use smartcore::linear::ridge_regression::*;
use smartcore::math::num::RealNumber;
use ndarray::{Array1, Array2, Axis, ShapeBuilder};
use vutil::*;

const LIMIT: i128 = 1 << 30;

#[derive(Clone)]
struct Case {
    fam: String,
    x: Vec<Vec<i64>>,
    y: Vec<i64>,
    cexp: Vec<i32>,
    yexp: i32,
}

struct FitOut {
    /// how the parameter object was built: "literal" or the order of the builder calls
    built: &'static str,
    solver: &'static str,
    status: &'static str,
    w: Vec<f64>,
    b: f64,
    yhat: Vec<f64>,
}

fn p2(e: i32) -> f64 {
    (2.0f64).powi(e)
}

fn matrix<T: RealNumber>(c: &Case) -> DenseMatrix<T> {
    let rows: Vec<Vec<T>> = c
        .x
        .iter()
        .map(|r| {
            r.iter()
                .enumerate()
                .map(|(j, &v)| T::from_f64(v as f64 * p2(c.cexp[j])).unwrap())
                .collect()
        })
        .collect();
    DenseMatrix::from_2d_vec(&rows)
}

fn target<T: RealNumber>(c: &Case) -> Vec<T> {
    c.y.iter().map(|&v| T::from_f64(v as f64 * p2(c.yexp)).unwrap()).collect()
}

/// undo the exact power-of-two scalings: w_j = w'_j 2^(cexp_j - yexp), b = b' 2^-yexp
fn descale<T: RealNumber>(c: &Case, solver: &'static str, w: &DenseMatrix<T>, b: T, yhat: &[T]) -> FitOut {
    let p = c.cexp.len();
    let wv: Vec<f64> = (0..p)
        .map(|j| w.get(j, 0).to_f64().unwrap() * p2(c.cexp[j] - c.yexp))
        .collect();
    FitOut {
        built: "literal",
        solver,
        status: "ok",
        w: wv,
        b: b.to_f64().unwrap() * p2(-c.yexp),
        yhat: yhat.iter().map(|v| v.to_f64().unwrap() * p2(-c.yexp)).collect(),
    }
}

fn failed(solver: &'static str, status: &'static str) -> FitOut {
    FitOut { built: "literal", solver, status, w: vec![], b: 0.0, yhat: vec![] }
}

// ------------------------------------------------------------------ parameter builders
/// Every fit picks the next way of building its parameter object: the struct literal or one
/// of the orders in which the `with_*` builder methods can be chained.  All of them describe
/// the same parameters, so the same contract applies; the choice is recorded as `built`.
static BUILD_ROTOR: std::sync::atomic::AtomicUsize = std::sync::atomic::AtomicUsize::new(0);

fn ridge_params<T: RealNumber>(s: RidgeRegressionSolverName, alpha: T, normalize: bool) -> (RidgeRegressionParameters<T>, &'static str) {
    let d = RidgeRegressionParameters::<T>::default;
    match BUILD_ROTOR.fetch_add(1, std::sync::atomic::Ordering::Relaxed) % 7 {
        0 => (RidgeRegressionParameters { solver: s, alpha, normalize }, "literal"),
        1 => (d().with_alpha(alpha).with_normalize(normalize).with_solver(s), "alpha,normalize,solver"),
        2 => (d().with_alpha(alpha).with_solver(s).with_normalize(normalize), "alpha,solver,normalize"),
        3 => (d().with_normalize(normalize).with_alpha(alpha).with_solver(s), "normalize,alpha,solver"),
        4 => (d().with_normalize(normalize).with_solver(s).with_alpha(alpha), "normalize,solver,alpha"),
        5 => (d().with_solver(s).with_alpha(alpha).with_normalize(normalize), "solver,alpha,normalize"),
        _ => (d().with_solver(s).with_normalize(normalize).with_alpha(alpha), "solver,normalize,alpha"),
    }
}

fn ols_params(s: LinearRegressionSolverName) -> (LinearRegressionParameters, &'static str) {
    if BUILD_ROTOR.fetch_add(1, std::sync::atomic::Ordering::Relaxed) % 2 == 0 {
        (LinearRegressionParameters { solver: s }, "literal")
    } else {
        (LinearRegressionParameters::default().with_solver(s), "solver")
    }
}

fn ols<T: RealNumber>(c: &Case, solver: &'static str) -> FitOut {
    let x: DenseMatrix<T> = matrix(c);
    let y: Vec<T> = target(c);
    let s = if solver == "qr" { LinearRegressionSolverName::QR } else { LinearRegressionSolverName::SVD };
    let (par, built) = ols_params(s);
    let r = guard(|| {
        LinearRegression::fit(&x, &y, par).and_then(|m| {
            let yh = m.predict(&x)?;
            Ok((m.coefficients().clone(), m.intercept(), yh))
        })
    });
    let mut o = match r {
        Ok(Ok((w, b, yh))) => descale(c, solver, &w, b, &yh),
        Ok(Err(_)) => failed(solver, "err"),
        Err(_) => failed(solver, "panic"),
    };
    o.built = built;
    o
}

fn ridge<T: RealNumber>(c: &Case, solver: &'static str, alpha: f64, normalize: bool) -> FitOut {
    let x: DenseMatrix<T> = matrix(c);
    let y: Vec<T> = target(c);
    let s = if solver == "chol" { RidgeRegressionSolverName::Cholesky } else { RidgeRegressionSolverName::SVD };
    let (par, built) = ridge_params(s, T::from_f64(alpha).unwrap(), normalize);
    let r = guard(|| {
        RidgeRegression::fit(&x, &y, par).and_then(|m| {
            let yh = m.predict(&x)?;
            Ok((m.coefficients().clone(), m.intercept(), yh))
        })
    });
    let mut o = match r {
        Ok(Ok((w, b, yh))) => descale(c, solver, &w, b, &yh),
        Ok(Err(_)) => failed(solver, "err"),
        Err(_) => failed(solver, "panic"),
    };
    o.built = built;
    o
}

// ------------------------------------------------------------------ api trait entry points
/// The same fits through `smartcore::api::SupervisedEstimator::fit` and
/// `Predictor::predict` (fully qualified calls) instead of the inherent methods.
fn ols_api(c: &Case, solver: &'static str) -> FitOut {
    type Dm = DenseMatrix<f64>;
    let x: Dm = matrix(c);
    let y: Vec<f64> = target(c);
    let s = if solver == "qr" { LinearRegressionSolverName::QR } else { LinearRegressionSolverName::SVD };
    let r = guard(|| {
        <LinearRegression<f64, Dm> as SupervisedEstimator<Dm, Vec<f64>, LinearRegressionParameters>>::fit(&x, &y, LinearRegressionParameters { solver: s }).and_then(|m| {
            let yh = <LinearRegression<f64, Dm> as Predictor<Dm, Vec<f64>>>::predict(&m, &x)?;
            Ok((m.coefficients().clone(), m.intercept(), yh))
        })
    });
    match r {
        Ok(Ok((w, b, yh))) => descale(c, solver, &w, b, &yh),
        Ok(Err(_)) => failed(solver, "err"),
        Err(_) => failed(solver, "panic"),
    }
}

fn ridge_api(c: &Case, solver: &'static str, alpha: f64, normalize: bool) -> FitOut {
    type Dm = DenseMatrix<f64>;
    let x: Dm = matrix(c);
    let y: Vec<f64> = target(c);
    let s = if solver == "chol" { RidgeRegressionSolverName::Cholesky } else { RidgeRegressionSolverName::SVD };
    let r = guard(|| {
        <RidgeRegression<f64, Dm> as SupervisedEstimator<Dm, Vec<f64>, RidgeRegressionParameters<f64>>>::fit(&x, &y, RidgeRegressionParameters { solver: s, alpha, normalize }).and_then(|m| {
            let yh = <RidgeRegression<f64, Dm> as Predictor<Dm, Vec<f64>>>::predict(&m, &x)?;
            Ok((m.coefficients().clone(), m.intercept(), yh))
        })
    });
    match r {
        Ok(Ok((w, b, yh))) => descale(c, solver, &w, b, &yh),
        Ok(Err(_)) => failed(solver, "err"),
        Err(_) => failed(solver, "panic"),
    }
}

// ------------------------------------------------------------------ ndarray back end
/// The same problem through the ndarray bindings, with the memory layouts a caller may
/// legitimately pass: X column-major (Fortran order) and y as an owned Array1 with a
/// *negative* stride (built reversed, then `invert_axis`), logically identical to the dense
/// inputs.  Coefficients, intercept and predictions go through the same contract.
fn nd_inputs(c: &Case) -> (Array2<f64>, Array1<f64>) {
    let n = c.x.len();
    let p = c.x[0].len();
    let mut col_major = Vec::with_capacity(n * p);
    for j in 0..p {
        for i in 0..n {
            col_major.push(c.x[i][j] as f64 * p2(c.cexp[j]));
        }
    }
    let x = Array2::from_shape_vec((n, p).f(), col_major).unwrap();
    let rev: Vec<f64> = c.y.iter().rev().map(|&v| v as f64 * p2(c.yexp)).collect();
    let mut y = Array1::from_vec(rev);
    y.invert_axis(Axis(0));
    (x, y)
}

fn nd_out(c: &Case, solver: &'static str, r: Result<Result<(Array2<f64>, f64, Array1<f64>), smartcore::error::Failed>, String>) -> FitOut {
    match r {
        Ok(Ok((w, b, yh))) => FitOut {
            built: "literal",
            solver,
            status: "ok",
            w: (0..c.cexp.len()).map(|j| w[[j, 0]] * p2(c.cexp[j] - c.yexp)).collect(),
            b: b * p2(-c.yexp),
            yhat: yh.iter().map(|v| v * p2(-c.yexp)).collect(),
        },
        Ok(Err(_)) => failed(solver, "err"),
        Err(_) => failed(solver, "panic"),
    }
}

fn ols_nd(c: &Case, solver: &'static str) -> FitOut {
    let (x, y) = nd_inputs(c);
    let s = if solver == "qr" { LinearRegressionSolverName::QR } else { LinearRegressionSolverName::SVD };
    let r = guard(|| {
        LinearRegression::fit(&x, &y, LinearRegressionParameters { solver: s }).and_then(|m| {
            let yh = m.predict(&x)?;
            Ok((m.coefficients().clone(), m.intercept(), yh))
        })
    });
    nd_out(c, solver, r)
}

fn ridge_nd(c: &Case, solver: &'static str, alpha: f64, normalize: bool) -> FitOut {
    let (x, y) = nd_inputs(c);
    let s = if solver == "chol" { RidgeRegressionSolverName::Cholesky } else { RidgeRegressionSolverName::SVD };
    let r = guard(|| {
        RidgeRegression::fit(&x, &y, RidgeRegressionParameters { solver: s, alpha, normalize }).and_then(|m| {
            let yh = m.predict(&x)?;
            Ok((m.coefficients().clone(), m.intercept(), yh))
        })
    });
    nd_out(c, solver, r)
}

// ------------------------------------------------------------------ exact integer rank test
/// fraction-free (Bareiss) determinant of a small integer matrix
fn det(mut a: Vec<Vec<i128>>) -> i128 {
    let n = a.len();
    let mut sign = 1i128;
    let mut prev = 1i128;
    for k in 0..n {
        if a[k][k] == 0 {
            let mut sw = None;
            for i in k + 1..n {
                if a[i][k] != 0 {
                    sw = Some(i);
                    break;
                }
            }
            match sw {
                Some(i) => {
                    a.swap(k, i);
                    sign = -sign;
                }
                None => return 0,
            }
        }
        for i in k + 1..n {
            for j in k + 1..n {
                a[i][j] = (a[i][j] * a[k][k] - a[i][k] * a[k][j]) / prev;
            }
        }
        prev = a[k][k];
    }
    sign * a[n - 1][n - 1]
}

/// [X 1] has full column rank (Gram determinant non-zero)
fn full_rank_aug(x: &[Vec<i64>]) -> bool {
    let p = x[0].len() + 1;
    let mut g = vec![vec![0i128; p]; p];
    for r in x {
        let mut a: Vec<i128> = r.iter().map(|&v| v as i128).collect();
        a.push(1);
        for i in 0..p {
            for j in 0..p {
                g[i][j] += a[i] * a[j];
            }
        }
    }
    det(g) != 0
}

// ------------------------------------------------------------------ magnitude bound
/// Largest intermediate (absolute value, conservative) that the operators of
/// LeastSquares.tla form for this event at scale S.  Mirrors the *shape* of those
/// expressions only to bound their size; it takes no part in any verdict.
fn magnitude(c: &Case, wq: &[i64], bq: i64, s: u32, f32p: bool, ridge: Option<(i64, u32, bool)>) -> i128 {
    let n = c.x.len();
    let p = c.x[0].len();
    let two_s = 1i128 << s;
    let mut mx: i128 = 0;
    let mut upd = |v: i128| {
        if v.abs() > mx {
            mx = v.abs()
        }
    };
    let mut r = vec![0i128; n];
    let mut m = vec![0i128; n];
    for i in 0..n {
        let mut dot = 0i128;
        let mut ad = 0i128;
        for k in 0..p {
            dot += c.x[i][k] as i128 * wq[k] as i128;
            ad += (c.x[i][k] as i128 * wq[k] as i128).abs();
        }
        m[i] = (c.y[i] as i128).abs() * two_s + ad + (bq as i128).abs();
        r[i] = c.y[i] as i128 * two_s - dot - bq as i128;
        upd(m[i]);
    }
    let nn = n as i128;
    let mut vecs: Vec<Vec<i128>> = vec![vec![1; n]];
    for j in 0..p {
        vecs.push((0..n).map(|i| c.x[i][j] as i128).collect());
        let sj: i128 = (0..n).map(|i| c.x[i][j] as i128).sum();
        let sq: i128 = (0..n).map(|i| (c.x[i][j] as i128).pow(2)).sum();
        if let Some((an, _ae, norm)) = ridge {
            let aw = an as i128 * (wq[j] as i128).abs();
            upd(aw);
            if norm {
                vecs.push((0..n).map(|i| nn * c.x[i][j] as i128 - sj).collect());
                let v = nn * sq - sj * sj;
                upd(nn * sq);
                upd(sj * sj);
                upd((aw / nn + 2) * v);
                upd(nn * v);
                upd((an as i128 + 2) * v);
                upd(((an as i128 + 1) * (wq[j] as i128).abs() + 1) * if f32p { 1 } else { 0 });
                if f32p {
                    upd((((an as i128 + 1) * (wq[j] as i128).abs() + 1) / 16384 + 1) * sq);
                    upd(16384 * sq);
                }
            }
        }
    }
    for v in &vecs {
        let mut a = 0i128;
        for i in 0..n {
            a += v[i].abs() * r[i].abs();
        }
        upd(a);
    }
    if f32p {
        // norm-wise magnitude NM = sum_i (sum_k |X_ik| + 1) M_i
        let mut nm = 0i128;
        for i in 0..n {
            let q2: i128 = c.x[i].iter().map(|&v| (v as i128).abs()).sum::<i128>() + 1;
            nm += q2 * m[i];
        }
        upd(nm);
        if let Some((an, _, _)) = ridge {
            upd((an as i128 + 1) * wq.iter().map(|&v| (v as i128).abs()).sum::<i128>());
        }
    }
    mx
}

// ------------------------------------------------------------------ generators
fn gen_x(rng: &mut StdRng, n: usize, p: usize, fam: &str) -> Vec<Vec<i64>> {
    let mut x = vec![vec![0i64; p]; n];
    match fam {
        "dense" | "bigmean" => {
            for j in 0..p {
                let c: i64 = if fam == "dense" { rng.gen_range(-20..=20) } else { rng.gen_range(40..=150) * if rng.gen_bool(0.5) { 1 } else { -1 } };
                let a: i64 = rng.gen_range(1..=6);
                for i in 0..n {
                    x[i][j] = c + rng.gen_range(-a..=a);
                }
            }
        }
        "collinear" => {
            for i in 0..n {
                x[i][0] = rng.gen_range(-8..=8);
            }
            for j in 1..p {
                let k: i64 = rng.gen_range(-2..=2);
                let c: i64 = rng.gen_range(-5..=5);
                for i in 0..n {
                    x[i][j] = k * x[i][0] + c + if rng.gen_bool(0.3) { rng.gen_range(-1..=1) } else { 0 };
                }
            }
        }
        "pm1" => {
            for j in 0..p {
                let c: i64 = rng.gen_range(0..=3);
                for i in 0..n {
                    x[i][j] = c + if rng.gen_bool(0.5) { 1 } else { -1 };
                }
            }
        }
        _ => {
            // "zeros": sparse small integers, one all-zero row, zero leading entries
            for j in 0..p {
                for i in 0..n {
                    x[i][j] = if rng.gen_bool(0.5) { 0 } else { rng.gen_range(-9..=9) };
                }
            }
            for j in 0..p {
                x[0][j] = 0;
            }
            if n > 1 {
                x[1][0] = 0;
            }
        }
    }
    x
}

fn gen_y(rng: &mut StdRng, x: &[Vec<i64>], kind: usize) -> Vec<i64> {
    let n = x.len();
    let p = x[0].len();
    match kind {
        0 => (0..n).map(|_| rng.gen_range(-40..=40)).collect(),
        1 | 2 => {
            let w: Vec<i64> = (0..p).map(|_| rng.gen_range(-3..=3)).collect();
            let b: i64 = rng.gen_range(-10..=10);
            (0..n)
                .map(|i| {
                    let mut v = b;
                    for k in 0..p {
                        v += w[k] * x[i][k];
                    }
                    // keep the targets moderate so that the scale S can stay fine
                    let v = v.max(-400).min(400);
                    v + if kind == 1 { rng.gen_range(-2..=2) } else { 0 }
                })
                .collect()
        }
        _ => {
            let m: i64 = rng.gen_range(300..=1000);
            (0..n).map(|_| m + rng.gen_range(-5..=5)).collect()
        }
    }
}

const FAMS: [&str; 5] = ["dense", "bigmean", "collinear", "pm1", "zeros"];

/// `single` = the case is meant for f32: no column scaling and only the families whose
/// conditioning is far below 1/u for single precision (the statement's "condition number
/// <= 1e6, column scales 1e-2..1e3" domain is f64 territory: with u = 6e-8 nothing can be
/// promised there, and the SVD solver is only norm-wise, not column-wise, backward stable).
fn gen_case(rng: &mut StdRng, big: bool, want_rank: bool, no_const: bool, colscale: bool, single: bool) -> Option<Case> {
    let p: usize = if big { rng.gen_range(1..=6) } else { rng.gen_range(1..=4) };
    let n: usize = if big { rng.gen_range(p + 1..=p + 18) } else { rng.gen_range(p + 1..=12) };
    let fam = if single { ["dense", "pm1", "zeros"][rng.gen_range(0..3)] } else { FAMS[rng.gen_range(0..FAMS.len())] };
    let colscale = colscale && !single;
    let x = gen_x(rng, n, p, fam);
    if want_rank && !full_rank_aug(&x) {
        return None;
    }
    if no_const {
        for j in 0..p {
            if (0..n).all(|i| x[i][j] == x[0][j]) {
                return None;
            }
        }
    }
    let ykind = rng.gen_range(0..4);
    let y = gen_y(rng, &x, ykind);
    let cexp: Vec<i32> = (0..p)
        .map(|_| if colscale && rng.gen_bool(0.5) { rng.gen_range(-7..=10) } else { 0 })
        .collect();
    let yexp: i32 = if rng.gen_bool(0.3) { [-10, 10, 3][rng.gen_range(0..3)] } else { 0 };
    Some(Case { fam: fam.to_string(), x, y, cexp, yexp })
}

const ALPHAS: [(i64, u32); 10] = [(1, 10), (1, 6), (1, 3), (1, 1), (1, 0), (3, 0), (5, 1), (10, 0), (25, 0), (100, 0)];

/// quantise all fits at the finest scale for which the specification's arithmetic is safe
fn emit(out: &mut Out, run: i64, ev: &str, prec: &str, c: &Case, fits: &[FitOut], ridge: Option<(i64, u32, bool)>, skipped: &mut usize) {
    let f32p = prec == "f32";
    let all_ok = fits.iter().all(|f| f.status == "ok");
    let mut chosen: Option<(u32, Vec<Value>)> = None;
    for &s in &[12u32, 10, 8, 6, 4] {
        let mut vals = vec![];
        let mut safe = true;
        for f in fits {
            let q = Q::with_limit(s, 1.0e9);
            let w = q.v(&f.w);
            let b = q.x(f.b);
            let yh = q.v(&f.yhat);
            if f.status == "ok" && q.finite.get() {
                if !q.inrange.get() || magnitude(c, &w, b, s, f32p, ridge) >= LIMIT {
                    safe = false;
                    break;
                }
            }
            vals.push(json!({"solver": f.solver, "built": f.built, "status": f.status, "fin": q.finite.get() && f.status == "ok",
                "W": w, "B": b, "Yhat": yh}));
        }
        if safe {
            chosen = Some((s, vals));
            break;
        }
        if !all_ok {
            // nothing numeric will be looked at; any scale does
        }
    }
    match chosen {
        None => *skipped += 1,
        Some((s, vals)) => {
            let mut e = json!({"run": run, "ev": ev, "prec": prec, "fam": c.fam, "S": s,
                "backend": if c.fam.ends_with("/ndarray") { "ndarray" } else if c.fam.ends_with("/api") { "api" } else { "dense" },
                "n": c.x.len(), "p": c.x[0].len(), "X": c.x, "y": c.y, "cexp": c.cexp, "yexp": c.yexp, "fits": vals});
            if let Some((an, ae, norm)) = ridge {
                e["aN"] = json!(an);
                e["aE"] = json!(ae);
                e["normalize"] = json!(norm);
            }
            out.emit(e);
        }
    }
}

fn gen(path: &str) {
    let mut out = Out::create(path);
    let mut rng = rng(7);
    let thorough = thorough();
    let n_ols = if thorough { 16000 } else { 2000 };
    let n_ridge = if thorough { 24000 } else { 3000 };
    let mut run = 0i64;
    let mut skipped = 0usize;
    let mut rejected = 0usize;
    let mut made = 0;
    while made < n_ols {
        let big = thorough && rng.gen_bool(0.3);
        let single = (made + 1) % 4 == 0;
        let c = match gen_case(&mut rng, big, true, false, true, single) {
            Some(c) => c,
            None => {
                rejected += 1;
                continue;
            }
        };
        made += 1;
        run += 1;
        if made % 4 == 0 {
            let fits = vec![ols::<f32>(&c, "qr"), ols::<f32>(&c, "svd")];
            emit(&mut out, run, "Ols", "f32", &c, &fits, None, &mut skipped);
        } else {
            let fits = vec![ols::<f64>(&c, "qr"), ols::<f64>(&c, "svd")];
            emit(&mut out, run, "Ols", "f64", &c, &fits, None, &mut skipped);
            if made % 8 == 1 {
                // the same problem through the ndarray bindings (column-major X, negatively strided y)
                let mut cn = c.clone();
                cn.fam = format!("{}/ndarray", c.fam);
                let fits = vec![ols_nd(&cn, "qr"), ols_nd(&cn, "svd")];
                run += 1;
                emit(&mut out, run, "Ols", "f64", &cn, &fits, None, &mut skipped);
            }
            if made % 8 == 5 {
                let mut ca = c.clone();
                ca.fam = format!("{}/api", c.fam);
                let fits = vec![ols_api(&ca, "qr"), ols_api(&ca, "svd")];
                run += 1;
                emit(&mut out, run, "Ols", "f64", &ca, &fits, None, &mut skipped);
            }
        }
    }
    // size ladder: row counts around internal block sizes (+-1 data keep the 32-bit sums small)
    let ladder: &[usize] = if thorough { &[63, 64, 65, 127, 128, 129, 255, 256, 257, 511, 512, 513, 1023, 1024, 1025, 4099] } else { &[63, 64, 65, 255, 256, 257, 1023, 1024, 1025] };
    for (i, &n) in ladder.iter().enumerate() {
        let p = 1 + i % 3;
        let c = loop {
            let x = gen_x(&mut rng, n, p, "pm1");
            if full_rank_aug(&x) {
                let y: Vec<i64> = (0..n).map(|r| 3 + 2 * x[r][0] - x[r][p - 1] + rng.gen_range(-2..=2)).collect();
                break Case { fam: format!("ladder{}", n), x, y, cexp: vec![0; p], yexp: 0 };
            }
        };
        run += 1;
        let fits = vec![ols::<f64>(&c, "qr"), ols::<f64>(&c, "svd")];
        emit(&mut out, run, "Ols", "f64", &c, &fits, None, &mut skipped);
        run += 1;
        let normalize = i % 2 == 0;
        let fits = vec![ridge::<f64>(&c, "chol", 0.5, normalize), ridge::<f64>(&c, "svd", 0.5, normalize)];
        emit(&mut out, run, "Ridge", "f64", &c, &fits, Some((1, 1, normalize)), &mut skipped);
    }
    made = 0;
    while made < n_ridge {
        let big = thorough && rng.gen_bool(0.3);
        let normalize = rng.gen_bool(0.5);
        let single = (made + 1) % 4 == 0 && !normalize;
        let c = match gen_case(&mut rng, big, false, normalize, normalize, single) {
            Some(c) => c,
            None => {
                rejected += 1;
                continue;
            }
        };
        made += 1;
        run += 1;
        let (an, ae) = if rng.gen_bool(0.7) { ALPHAS[rng.gen_range(0..ALPHAS.len())] } else { (rng.gen_range(1..=160), 4) };
        let alpha = an as f64 / (1u64 << ae) as f64;
        if made % 4 == 0 && !normalize {
            let fits = vec![ridge::<f32>(&c, "chol", alpha, normalize), ridge::<f32>(&c, "svd", alpha, normalize)];
            emit(&mut out, run, "Ridge", "f32", &c, &fits, Some((an, ae, normalize)), &mut skipped);
        } else {
            let fits = vec![ridge::<f64>(&c, "chol", alpha, normalize), ridge::<f64>(&c, "svd", alpha, normalize)];
            emit(&mut out, run, "Ridge", "f64", &c, &fits, Some((an, ae, normalize)), &mut skipped);
            if made % 8 == 1 {
                let mut cn = c.clone();
                cn.fam = format!("{}/ndarray", c.fam);
                let fits = vec![ridge_nd(&cn, "chol", alpha, normalize), ridge_nd(&cn, "svd", alpha, normalize)];
                run += 1;
                emit(&mut out, run, "Ridge", "f64", &cn, &fits, Some((an, ae, normalize)), &mut skipped);
            }
            if made % 8 == 5 {
                let mut ca = c.clone();
                ca.fam = format!("{}/api", c.fam);
                let fits = vec![ridge_api(&ca, "chol", alpha, normalize), ridge_api(&ca, "svd", alpha, normalize)];
                run += 1;
                emit(&mut out, run, "Ridge", "f64", &ca, &fits, Some((an, ae, normalize)), &mut skipped);
            }
        }
    }
    let n = out.finish();
    println!("events={} out_of_range={} rejected_by_domain_filter={}", n, skipped, rejected);
}

/// re-execute the cases stored in a replay artefact (events as recorded) and write fresh events
fn replay_file(input: &str, path: &str) {
    let evs = read_ndjson(input);
    let mut out = Out::create(path);
    let mut skipped = 0usize;
    for e in evs {
        let x: Vec<Vec<i64>> = serde_json::from_value(e["X"].clone()).unwrap();
        let y: Vec<i64> = serde_json::from_value(e["y"].clone()).unwrap();
        let cexp: Vec<i32> = serde_json::from_value(e["cexp"].clone()).unwrap();
        let yexp: i32 = e["yexp"].as_i64().unwrap() as i32;
        let c = Case { fam: e["fam"].as_str().unwrap_or("replay").to_string(), x, y, cexp, yexp };
        let prec = e["prec"].as_str().unwrap().to_string();
        let run = e["run"].as_i64().unwrap();
        let nd = c.fam.ends_with("/ndarray");
        let api = c.fam.ends_with("/api");
        if e["ev"] == "Ols" && api {
            let fits = vec![ols_api(&c, "qr"), ols_api(&c, "svd")];
            emit(&mut out, run, "Ols", &prec, &c, &fits, None, &mut skipped);
        } else if api {
            let an = e["aN"].as_i64().unwrap();
            let ae = e["aE"].as_u64().unwrap() as u32;
            let norm = e["normalize"].as_bool().unwrap();
            let alpha = an as f64 / (1u64 << ae) as f64;
            let fits = vec![ridge_api(&c, "chol", alpha, norm), ridge_api(&c, "svd", alpha, norm)];
            emit(&mut out, run, "Ridge", &prec, &c, &fits, Some((an, ae, norm)), &mut skipped);
        } else if e["ev"] == "Ols" && nd {
            let fits = vec![ols_nd(&c, "qr"), ols_nd(&c, "svd")];
            emit(&mut out, run, "Ols", &prec, &c, &fits, None, &mut skipped);
        } else if nd {
            let an = e["aN"].as_i64().unwrap();
            let ae = e["aE"].as_u64().unwrap() as u32;
            let norm = e["normalize"].as_bool().unwrap();
            let alpha = an as f64 / (1u64 << ae) as f64;
            let fits = vec![ridge_nd(&c, "chol", alpha, norm), ridge_nd(&c, "svd", alpha, norm)];
            emit(&mut out, run, "Ridge", &prec, &c, &fits, Some((an, ae, norm)), &mut skipped);
        } else if e["ev"] == "Ols" {
            let fits = if prec == "f32" { vec![ols::<f32>(&c, "qr"), ols::<f32>(&c, "svd")] } else { vec![ols::<f64>(&c, "qr"), ols::<f64>(&c, "svd")] };
            emit(&mut out, run, "Ols", &prec, &c, &fits, None, &mut skipped);
        } else {
            let an = e["aN"].as_i64().unwrap();
            let ae = e["aE"].as_u64().unwrap() as u32;
            let norm = e["normalize"].as_bool().unwrap();
            let alpha = an as f64 / (1u64 << ae) as f64;
            let fits = if prec == "f32" {
                vec![ridge::<f32>(&c, "chol", alpha, norm), ridge::<f32>(&c, "svd", alpha, norm)]
            } else {
                vec![ridge::<f64>(&c, "chol", alpha, norm), ridge::<f64>(&c, "svd", alpha, norm)]
            };
            emit(&mut out, run, "Ridge", &prec, &c, &fits, Some((an, ae, norm)), &mut skipped);
        }
    }
    let n = out.finish();
    println!("events={} out_of_range={}", n, skipped);
}

fn main() {
    silence_panics();
    let args: Vec<String> = std::env::args().collect();
    match arg(&args, 1) {
        "gen" => gen(arg(&args, 2)),
        "replay-file" => replay_file(arg(&args, 2), arg(&args, 3)),
        other => {
            eprintln!("unknown sub-command {}", other);
            std::process::exit(2)
        }
    }
}
