//! C12 — k-means.  Drives `KMeans::fit` / `predict` and the BBD-tree filtering step
//! (`smartcore::verif::BbdHandle`) of the real library and records what they returned, one
//! ndjson event per call, integers / booleans / strings only.
//!
//! No property logic lives here.  The harness generates inputs (respecting the domain of the
//! statement: at least k distinct rows, k >= 2, max_iter >= 1), calls the library and projects
//! floats to integers (exact integers, fixed point round(v * 2^S)).  Whether a result is
//! acceptable is decided by the TLA+ predicates of spec/cluster/KMeansProps.tla, evaluated by
//! TLC in KMeansTrace.tla.
//!
//! Events
//!   KMFit { cls, prec, n, d, k, maxIter, xs, X, offmax, status, finite, inrange, y, size, cfx,
//!           pstatus, exact, Q, Q8, c8, pred, mult? }
//!       offmax > 0: offset family -- the library saw X + off, Q + off; X, Q, cfx, c8 are shifted back
//!       mult: number of identical (max_iter, outcome) repetitions (refit mode only)
//!       X    rows: lattice integers (xs = 4096) or round(x * 2^12) for continuous data (xs = 1)
//!       cfx  round(centroid * 2^12);  c8 / Q8: round(v * 2^8) of centroids / query rows
//!       y, size, centroids come from the serde serialisation of the fitted model
//!   Bbd   { cls, n, d, k, X, cn, cd, status, member, counts, sumsInt, sums, distOk, dS, distFx, exp? }
//!       centroid c = cn[c] / cd[c] (exact rational; the float handed to the tree is that quotient)
//!       distFx = round(distortion * 2^dS)
use rand::rngs::StdRng;
use rand::seq::SliceRandom;
use rand::Rng;
use serde_json::{json, Value};
use smartcore::api::{Predictor, UnsupervisedEstimator};
use smartcore::cluster::kmeans::{KMeans, KMeansParameters};
use smartcore::linalg::naive::dense_matrix::DenseMatrix;
use smartcore::verif::BbdHandle;
use std::collections::HashSet;
use std::io::Read;
use std::time::{Duration, Instant};
use vutil::*;

type Rows = Vec<Vec<f64>>;

const S_FIT: u32 = 12;
const S_PRED: u32 = 8;

fn distinct_rows(x: &Rows) -> usize {
    let mut s: HashSet<Vec<u64>> = HashSet::new();
    for r in x {
        s.insert(r.iter().map(|v| v.to_bits()).collect());
    }
    s.len()
}

/// what a fit + predict returned, still as floats
struct FitOut {
    status: &'static str,
    y: Vec<i64>,
    size: Vec<i64>,
    centroids: Vec<Vec<f64>>,
    pstatus: &'static str,
    pred: Vec<f64>,
    /// the rows actually handed to predict (as cast to the working precision): the caller's
    /// query rows plus, after a fit that ended with a memberless cluster, the probe rows
    q_used: Rows,
    /// the same query rows predicted once more through other matrix back ends:
    /// (back end, status, labels)
    alt: Vec<(&'static str, &'static str, Vec<f64>)>,
}

/// when set, fit_as! repeats its predict call through the ndarray back end (row-major and
/// column-major storage of the same rows) and the nalgebra back end
/// when set, fit_as! goes through the api traits (UnsupervisedEstimator::fit, Predictor::predict)
/// instead of the inherent methods
static USE_TRAIT: std::sync::atomic::AtomicBool = std::sync::atomic::AtomicBool::new(false);
static ALT_BACKENDS: std::sync::atomic::AtomicBool = std::sync::atomic::AtomicBool::new(false);

fn empty_out(status: &'static str) -> FitOut {
    FitOut { status, y: vec![], size: vec![], centroids: vec![], pstatus: "none", pred: vec![], q_used: vec![], alt: vec![] }
}

/// read the private state of a fitted model through its serde serialisation
fn dump(v: &Value) -> (Vec<i64>, Vec<i64>, Vec<Vec<f64>>) {
    let ints = |a: &Value| -> Vec<i64> {
        a.as_array().map(|x| x.iter().map(|e| e.as_i64().unwrap_or(-1)).collect()).unwrap_or_default()
    };
    let cents: Vec<Vec<f64>> = v["centroids"]
        .as_array()
        .map(|rows| {
            rows.iter()
                .map(|r| {
                    r.as_array()
                        .map(|x| x.iter().map(|e| e.as_f64().unwrap_or(f64::NAN)).collect())
                        .unwrap_or_default()
                })
                .collect()
        })
        .unwrap_or_default();
    (ints(&v["_y"]), ints(&v["size"]), cents)
}

/// Second step of the fit-then-predict protocol.  When the fitted model reports a cluster
/// without members (size 0), predict is also called on probe rows derived from the model itself:
/// every reported centroid exactly as returned by the serde dump, and the midpoints between each
/// memberless centroid and every other centroid / (up to 16) training rows.  Pure input
/// generation for the second call; whether the labels are right is decided by the specification.
fn probe_rows(x: &Rows, size: &[i64], cents: &Rows) -> Rows {
    let mut p: Rows = Vec::new();
    if !size.iter().any(|&s| s == 0) || cents.len() != size.len() {
        return p;
    }
    for c in cents {
        p.push(c.clone());
    }
    for (e, _) in size.iter().enumerate().filter(|(_, &s)| s == 0) {
        for (o, c) in cents.iter().enumerate() {
            if o != e && c.len() == cents[e].len() {
                p.push(c.iter().zip(cents[e].iter()).map(|(a, b)| (a + b) / 2.0).collect());
            }
        }
        for r in x.iter().take(16) {
            if r.len() == cents[e].len() {
                p.push(r.iter().zip(cents[e].iter()).map(|(a, b)| (a + b) / 2.0).collect());
            }
        }
    }
    p.retain(|r| r.iter().all(|v| v.is_finite()));
    p
}

macro_rules! fit_as {
    ($t:ty, $x:expr, $q:expr, $k:expr, $mi:expr) => {{
        let x: Rows = $x.clone();
        let q: Rows = $q.clone();
        let k: usize = $k;
        let mi: usize = $mi;
        let r = watchdog(30, move || {
            let xm: Vec<Vec<$t>> = x.iter().map(|r| r.iter().map(|&v| v as $t).collect()).collect();
            let xd = DenseMatrix::from_2d_vec(&xm);
            let via_trait = USE_TRAIT.load(std::sync::atomic::Ordering::Relaxed);
            let params = KMeansParameters::default().with_k(k).with_max_iter(mi);
            let fit = if via_trait {
                <KMeans<$t> as UnsupervisedEstimator<DenseMatrix<$t>, KMeansParameters>>::fit(&xd, params)
            } else {
                KMeans::<$t>::fit(&xd, params)
            };
            match fit {
                Err(_) => empty_out("err"),
                Ok(model) => {
                    let (y, size, centroids) = dump(&serde_json::to_value(&model).unwrap_or(Value::Null));
                    let mut qall: Rows = q.clone();
                    qall.extend(probe_rows(&x, &size, &centroids));
                    let qm: Vec<Vec<$t>> = qall.iter().map(|r| r.iter().map(|&v| v as $t).collect()).collect();
                    let q_used: Rows = qm.iter().map(|r| r.iter().map(|&v| v as f64).collect()).collect();
                    let mut out = FitOut { status: "ok", y, size, centroids, pstatus: "none", pred: vec![], q_used, alt: vec![] };
                    if !qm.is_empty() {
                        let qd = DenseMatrix::from_2d_vec(&qm);
                        let pr = if via_trait {
                            guard(|| <KMeans<$t> as Predictor<DenseMatrix<$t>, Vec<$t>>>::predict(&model, &qd))
                        } else {
                            guard(|| model.predict(&qd))
                        };
                        match pr {
                            Ok(Ok(p)) => {
                                out.pstatus = "ok";
                                out.pred = p.iter().map(|&v| v as f64).collect();
                            }
                            Ok(Err(_)) => out.pstatus = "err",
                            Err(_) => out.pstatus = "panic",
                        }
                        if ALT_BACKENDS.load(std::sync::atomic::Ordering::Relaxed) {
                            let (nq, dq) = (qm.len(), qm[0].len());
                            let flat: Vec<$t> = qm.iter().flat_map(|r| r.iter().copied()).collect();
                            let mut colmajor: Vec<$t> = Vec::with_capacity(nq * dq);
                            for j in 0..dq {
                                for i in 0..nq {
                                    colmajor.push(qm[i][j]);
                                }
                            }
                            let nd_c = ndarray::Array2::<$t>::from_shape_vec((nq, dq), flat.clone()).unwrap();
                            let nd_f = ndarray::Array2::<$t>::from_shape_vec((dq, nq), colmajor).unwrap().reversed_axes();
                            let na = nalgebra::DMatrix::<$t>::from_row_slice(nq, dq, &flat);
                            let r1 = guard(|| model.predict(&nd_c).map(|p| p.iter().map(|&v| v as f64).collect::<Vec<f64>>()));
                            let r2 = guard(|| model.predict(&nd_f).map(|p| p.iter().map(|&v| v as f64).collect::<Vec<f64>>()));
                            let r3 = guard(|| model.predict(&na).map(|p| p.iter().map(|&v| v as f64).collect::<Vec<f64>>()));
                            for (name, r) in vec![("ndarray", r1), ("ndarray-colmajor", r2), ("nalgebra", r3)] {
                                match r {
                                    Ok(Ok(p)) => out.alt.push((name, "ok", p)),
                                    Ok(Err(_)) => out.alt.push((name, "err", vec![])),
                                    Err(_) => out.alt.push((name, "panic", vec![])),
                                }
                            }
                        }
                    }
                    out
                }
            }
        });
        match r {
            None => empty_out("timeout"),
            Some(Err(_)) => empty_out("panic"),
            Some(Ok(o)) => o,
        }
    }};
}

/// child-process variant: no helper thread (the parent enforces the time limit, and a stack
/// overflow on the main thread's 8 MB stack is reached much sooner than on the watchdog's 64 MB)
macro_rules! fit_direct {
    ($t:ty, $x:expr, $k:expr, $mi:expr) => {{
        let xm: Vec<Vec<$t>> = $x.iter().map(|r| r.iter().map(|&v| v as $t).collect()).collect();
        let xd = DenseMatrix::from_2d_vec(&xm);
        let k: usize = $k;
        let mi: usize = $mi;
        match guard(|| KMeans::<$t>::fit(&xd, KMeansParameters::default().with_k(k).with_max_iter(mi))) {
            Err(_) => empty_out("panic"),
            Ok(Err(_)) => empty_out("err"),
            Ok(Ok(model)) => {
                let (y, size, centroids) = dump(&serde_json::to_value(&model).unwrap_or(Value::Null));
                let xf: Rows = $x.iter().cloned().collect();
                let mut qall: Rows = xf.clone();
                qall.extend(probe_rows(&xf, &size, &centroids));
                let qm: Vec<Vec<$t>> = qall.iter().map(|r| r.iter().map(|&v| v as $t).collect()).collect();
                let q_used: Rows = qm.iter().map(|r| r.iter().map(|&v| v as f64).collect()).collect();
                let qd = DenseMatrix::from_2d_vec(&qm);
                let mut out = FitOut { status: "ok", y, size, centroids, pstatus: "none", pred: vec![], q_used, alt: vec![] };
                match guard(|| model.predict(&qd)) {
                    Ok(Ok(p)) => {
                        out.pstatus = "ok";
                        out.pred = p.iter().map(|&v| v as f64).collect();
                    }
                    Ok(Err(_)) => out.pstatus = "err",
                    Err(_) => out.pstatus = "panic",
                }
                out
            }
        }
    }};
}

fn run_fit(prec: u32, x: &Rows, q: &Rows, k: usize, mi: usize) -> FitOut {
    if prec == 32 {
        fit_as!(f32, x, q, k, mi)
    } else {
        fit_as!(f64, x, q, k, mi)
    }
}

/// project one fit to an event.  `lattice`: X / Q hold exact integers.
fn fit_event(run: i64, cls: &str, prec: u32, lattice: bool, x: &Rows, q: &Rows, k: usize, mi: usize, o: &FitOut) -> Value {
    fit_event_off(run, cls, prec, lattice, x, q, k, mi, o, &[])
}

thread_local! {
    /// exponent sh of the scaled offset family currently being projected (0 everywhere else)
    static OFF_SHIFT: std::cell::Cell<i32> = std::cell::Cell::new(0);
}

/// Offset families: the library was given `x + off` and `q + off` (a common, exactly
/// representable offset per column); the event carries the small rows `x`, `q` and the
/// reported centroids shifted back by the same offset (c - off is an exact floating-point
/// subtraction).  Nearest-centroid assignment and cluster means are equivariant under a
/// common shift, so the specification decides the clauses on the small integers.
fn fit_event_off(run: i64, cls: &str, prec: u32, lattice: bool, x: &Rows, q: &Rows, k: usize, mi: usize, o: &FitOut, off: &[f64]) -> Value {
    // scaled offset families (seeded C12-u1): the library saw x * 2^-sh + off; the back-shifted values are
    // multiplied by 2^sh again (exact), so the event still speaks about the small integers
    let unscale: f64 = OFF_SHIFT.with(|c| (2.0f64).powi(c.get()));
    let n = x.len();
    let d = x[0].len();
    let q12 = Q::new(S_FIT);
    let q8 = Q::new(S_PRED);
    let xin = Q::new(S_FIT);
    let (xs, xi): (i64, Vec<Vec<i64>>) = if lattice {
        (1 << S_FIT, x.iter().map(|r| r.iter().map(|&v| int_exact(v).unwrap_or(0)).collect()).collect())
    } else {
        (1, xin.m(x))
    };
    let mut e = json!({"run": run, "ev": "KMFit", "cls": cls, "prec": prec, "n": n, "d": d, "k": k,
                       "maxIter": mi, "xs": xs, "X": xi, "status": o.status});
    let offmax: i64 = off.iter().fold(0i64, |a, &v| a.max(v.abs() as i64));
    e.as_object_mut().unwrap().insert("offmax".into(), json!(offmax));
    e.as_object_mut().unwrap().insert("off".into(), json!(off.iter().map(|&v| v as i64).collect::<Vec<i64>>()));
    // the rows predict really saw (shifted back by the offset: an exact subtraction)
    let q_seen: Rows = if o.q_used.is_empty() {
        q.clone()
    } else {
        o.q_used.iter().map(|r| r.iter().enumerate().map(|(j, &v)| (v - off.get(j).copied().unwrap_or(0.0)) * unscale).collect()).collect()
    };
    let q = &q_seen;
    let q_all_int = q.iter().all(|r| r.iter().all(|&v| int_exact(v).is_some()));
    if o.status == "ok" {
        let back: Rows = o
            .centroids
            .iter()
            .map(|c| c.iter().enumerate().map(|(j, &v)| (v - off.get(j).copied().unwrap_or(0.0)) * unscale).collect())
            .collect();
        let cfx = q12.m(&back);
        let c8 = q8.m(&back);
        let qq8 = q8.m(q);
        let qi: Vec<Vec<i64>> = if lattice && q_all_int {
            q.iter().map(|r| r.iter().map(|&v| int_exact(v).unwrap_or(0)).collect()).collect()
        } else {
            vec![]
        };
        // a prediction that is not a small integer is mapped to -1, which no predicate accepts
        let pred: Vec<i64> = o.pred.iter().map(|&v| int_exact(v).unwrap_or(-1)).collect();
        let m = e.as_object_mut().unwrap();
        m.insert("finite".into(), json!(q12.finite.get()));
        m.insert("inrange".into(), json!(q12.inrange.get() && xin.ok() && q8.ok()));
        m.insert("y".into(), json!(o.y));
        m.insert("size".into(), json!(o.size));
        m.insert("cfx".into(), json!(cfx));
        m.insert("pstatus".into(), json!(o.pstatus));
        m.insert("exact".into(), json!(lattice && prec == 64 && q_all_int));
        m.insert("Q".into(), json!(qi));
        m.insert("Q8".into(), json!(qq8));
        m.insert("c8".into(), json!(c8));
        m.insert("pred".into(), json!(pred));
        let alt: Vec<Value> = o
            .alt
            .iter()
            .map(|(b, st, p)| json!({"b": b, "status": st,
                                     "pred": p.iter().map(|&v| int_exact(v).unwrap_or(-1)).collect::<Vec<i64>>()}))
            .collect();
        m.insert("alt".into(), json!(alt));
    }
    e
}

// ------------------------------------------------------------------ data generators
fn lattice_uniform(r: &mut StdRng, n: usize, d: usize, range: i64) -> Rows {
    (0..n).map(|_| (0..d).map(|_| r.gen_range(0..=range) as f64).collect()).collect()
}

/// integer blobs: g centres on 0..16, rows = centre + noise in -1..1 (clipped to 0..16)
fn lattice_blobs(r: &mut StdRng, n: usize, d: usize, g: usize) -> Rows {
    let centres: Vec<Vec<i64>> = (0..g).map(|_| (0..d).map(|_| r.gen_range(1..=15)).collect()).collect();
    (0..n)
        .map(|_| {
            let c = &centres[r.gen_range(0..g)];
            c.iter().map(|&v| (v + r.gen_range(-1..=1)).max(0).min(16) as f64).collect()
        })
        .collect()
}

/// m distinct lattice rows, each replicated
fn lattice_dups(r: &mut StdRng, n: usize, d: usize, m: usize) -> Rows {
    let mut base: Vec<Vec<f64>> = Vec::new();
    let mut guard_ctr = 0;
    while base.len() < m && guard_ctr < 1000 {
        let row: Vec<f64> = (0..d).map(|_| r.gen_range(0..=6) as f64).collect();
        if !base.contains(&row) {
            base.push(row);
        }
        guard_ctr += 1;
    }
    let mut x: Rows = base.clone();
    while x.len() < n {
        x.push(base[r.gen_range(0..base.len())].clone());
    }
    x.shuffle(r);
    x
}

fn cont_uniform(r: &mut StdRng, n: usize, d: usize) -> Rows {
    (0..n).map(|_| (0..d).map(|_| r.gen_range(0.0..8.0)).collect()).collect()
}

fn cont_blobs(r: &mut StdRng, n: usize, d: usize, g: usize) -> Rows {
    let centres: Vec<Vec<f64>> = (0..g).map(|_| (0..d).map(|_| r.gen_range(1.0..7.0)).collect()).collect();
    (0..n)
        .map(|_| {
            let c = &centres[r.gen_range(0..g)];
            c.iter()
                .map(|&v| {
                    let noise: f64 = (0..4).map(|_| r.gen_range(-0.25..0.25)).sum();
                    (v + noise).max(0.0).min(7.999)
                })
                .collect()
        })
        .collect()
}

fn pick_n(r: &mut StdRng, th: bool) -> usize {
    let p: f64 = r.gen();
    if p < 0.45 {
        r.gen_range(2..=12)
    } else if p < 0.8 {
        r.gen_range(13..=60)
    } else if p < 0.95 || !th {
        r.gen_range(61..=120)
    } else {
        r.gen_range(121..=300)
    }
}

fn queries(r: &mut StdRng, x: &Rows, lattice: bool) -> Rows {
    let n = x.len();
    let d = x[0].len();
    let mut q: Rows = Vec::new();
    let mut ids: Vec<usize> = (0..n).collect();
    ids.shuffle(r);
    for &i in ids.iter().take(24) {
        q.push(x[i].clone());
    }
    for _ in 0..8 {
        if lattice {
            q.push((0..d).map(|_| r.gen_range(-8..=24) as f64).collect());
        } else {
            q.push((0..d).map(|_| r.gen_range(-4.0..12.0)).collect());
        }
    }
    q
}

const MAX_ITERS: [usize; 8] = [1, 2, 3, 5, 10, 30, 100, 100];

fn gen_fit(out: &mut Out, run: &mut i64) {
    let th = thorough();
    let mut r = rng(1201);
    let reps = if th { 40 } else { 5 };
    let sets = if th { 200 } else { 110 };
    // (a) the scope of the Lloyd design model: 1-D rows on 0..4, canonical order, k = 2
    let nmax = 5usize;
    let mut small: Vec<Vec<i64>> = vec![vec![]];
    for _ in 0..nmax {
        let mut nx = Vec::new();
        for s in &small {
            let lo = s.last().copied().unwrap_or(0);
            for v in lo..=4 {
                let mut t = s.clone();
                t.push(v);
                nx.push(t);
            }
        }
        small.extend(nx.clone());
        small.sort();
        small.dedup();
    }
    for s in small.iter() {
        let x: Rows = s.iter().map(|&v| vec![v as f64]).collect();
        if x.len() < 2 || distinct_rows(&x) < 2 {
            continue;
        }
        for &mi in [1usize, 2, 3].iter() {
            for _ in 0..(if th { 12 } else { 2 }) {
                *run += 1;
                let q: Rows = (-2..=6).map(|v| vec![v as f64]).collect();
                let o = run_fit(64, &x, &q, 2, mi);
                out.emit(fit_event(*run, "small1d", 64, true, &x, &q, 2, mi, &o));
            }
        }
    }
    // (b) seeded random data sets, R repeated fits each (the seeding is unseeded)
    for s in 0..sets {
        let kind = s % 8;
        let n = pick_n(&mut r, th);
        let d = r.gen_range(1..=6usize);
        let (cls, lattice, x): (&str, bool, Rows) = match kind {
            0 | 1 => {
                let range = r.gen_range(1..=8);
                ("lattice", true, lattice_uniform(&mut r, n, d, range))
            }
            2 => {
                let g = r.gen_range(2..=5);
                ("blobs", true, lattice_blobs(&mut r, n, d, g))
            }
            3 => {
                let m = r.gen_range(2..=9usize);
                ("dups", true, lattice_dups(&mut r, n.max(m), d, m))
            }
            4 => ("cont", false, cont_uniform(&mut r, n, d)),
            5 => {
                let g = r.gen_range(2..=5);
                ("contblobs", false, cont_blobs(&mut r, n, d, g))
            }
            6 => {
                let range = r.gen_range(2..=12);
                ("lattice1d", true, lattice_uniform(&mut r, n.min(40), 1, range))
            }
            _ => {
                let range = r.gen_range(1..=8);
                ("lattice32", true, lattice_uniform(&mut r, n.min(60), d, range))
            }
        };
        let prec = if kind == 7 { 32 } else { 64 };
        let dist = distinct_rows(&x);
        if dist < 2 {
            continue; // outside the domain of the statement for every k >= 2
        }
        let q = queries(&mut r, &x, lattice);
        // every third data set: predict also through the ndarray (both storage orders) and nalgebra back ends
        ALT_BACKENDS.store(s % 3 == 0, std::sync::atomic::Ordering::Relaxed);
        for _ in 0..reps {
            let k = r.gen_range(2..=8usize.min(dist));
            let mi = MAX_ITERS[r.gen_range(0..MAX_ITERS.len())];
            *run += 1;
            let o = run_fit(prec, &x, &q, k, mi);
            out.emit(fit_event(*run, cls, prec, lattice, &x, &q, k, mi, &o));
        }
    }
    ALT_BACKENDS.store(false, std::sync::atomic::Ordering::Relaxed);
}

// ------------------------------------------------------------------ rows one ulp apart
/// Table of data sets in which two rows differ by one unit in the last place in one
/// coordinate.  (prec, rows, class).  The class names describe the INPUT only:
///   ulp-down  the midpoint (lo+hi)/2 of the pair rounds to lo and (hi-lo)/2 >= 1e-10
///   ulp-up    it rounds to hi and (hi-lo)/2 >= 1e-10
///   ulp-tiny  (hi-lo)/2 < 1e-10 (the tree treats the rows as coincident)
fn ulp_cases() -> Vec<(u32, Rows, String)> {
    let mut v: Vec<(u32, Rows, String)> = Vec::new();
    let classify32 = |lo: f32, hi: f32| -> &'static str {
        if ((hi - lo) / 2.0) < 1e-10 {
            "ulp-tiny"
        } else if (lo + hi) / 2.0 == lo {
            "ulp-down"
        } else {
            "ulp-up"
        }
    };
    let classify64 = |lo: f64, hi: f64| -> &'static str {
        if ((hi - lo) / 2.0) < 1e-10 {
            "ulp-tiny"
        } else if (lo + hi) / 2.0 == lo {
            "ulp-down"
        } else {
            "ulp-up"
        }
    };
    for &b in [1.0f32, 0.5, 3.0, 2.5, 6.25].iter() {
        for step in 0..2u32 {
            let lo = f32::from_bits(b.to_bits() + step);
            let hi = f32::from_bits(lo.to_bits() + 1);
            let c = classify32(lo, hi);
            let (lo, hi) = (lo as f64, hi as f64);
            v.push((32, vec![vec![7.0], vec![lo], vec![hi]], format!("{}", c)));
            v.push((32, vec![vec![lo], vec![hi], vec![0.0]], format!("{}", c)));
            v.push((32, vec![vec![lo, 2.0], vec![0.0, 2.0], vec![hi, 2.0], vec![7.0, 2.0]], format!("{}", c)));
        }
    }
    for &b in [1.0f64, 3.0, 4194304.0, 6291456.0].iter() {
        for step in 0..2u64 {
            let lo = f64::from_bits(b.to_bits() + step);
            let hi = f64::from_bits(lo.to_bits() + 1);
            let c = classify64(lo, hi);
            v.push((64, vec![vec![0.0], vec![lo], vec![hi]], format!("{}", c)));
            v.push((64, vec![vec![lo], vec![hi], vec![0.0]], format!("{}", c)));
        }
    }
    v
}

/// child mode: run case `id` of the table and print its event (a stack overflow of the code
/// under test aborts the process; the parent records that as status "abort")
fn ulp_child(id: usize) {
    let cases = ulp_cases();
    let (prec, x, cls) = &cases[id];
    let q: Rows = x.clone();
    let o = if *prec == 32 { fit_direct!(f32, x, 2, 10) } else { fit_direct!(f64, x, 2, 10) };
    println!("{}", fit_event(0, cls, *prec, false, x, &q, 2, 10, &o));
}

fn gen_ulp(out: &mut Out, run: &mut i64) {
    let exe = std::env::current_exe().expect("current_exe");
    for (id, (prec, x, cls)) in ulp_cases().iter().enumerate() {
        *run += 1;
        let mut child = std::process::Command::new(&exe)
            .arg("ulp-child")
            .arg(id.to_string())
            .stdout(std::process::Stdio::piped())
            .stderr(std::process::Stdio::null())
            .spawn()
            .expect("spawn");
        let t0 = Instant::now();
        let mut status: Option<std::process::ExitStatus> = None;
        while t0.elapsed() < Duration::from_secs(40) {
            if let Some(s) = child.try_wait().expect("wait") {
                status = Some(s);
                break;
            }
            std::thread::sleep(Duration::from_millis(5));
        }
        let mut text = String::new();
        let ev = match status {
            None => {
                let _ = child.kill();
                let _ = child.wait();
                fit_event(*run, cls, *prec, false, x, x, 2, 10, &empty_out("timeout"))
            }
            Some(s) => {
                if let Some(mut so) = child.stdout.take() {
                    let _ = so.read_to_string(&mut text);
                }
                match (s.success(), serde_json::from_str::<Value>(text.trim())) {
                    (true, Ok(mut v)) => {
                        v["run"] = json!(*run);
                        v
                    }
                    _ => fit_event(*run, cls, *prec, false, x, x, 2, 10, &empty_out("abort")),
                }
            }
        };
        out.emit(ev);
    }
}

// ------------------------------------------------------------------ filtering step
/// a centroid as an exact rational vector cn / cd
#[derive(Clone)]
struct RC {
    cn: Vec<i64>,
    cd: i64,
}

fn rc_float(c: &RC) -> Vec<f64> {
    c.cn.iter().map(|&a| a as f64 / c.cd as f64).collect()
}

/// would some intermediate of the specification's integer arithmetic leave 32 bits?
/// (range guard only: d * (max |x*cd - cn|)^2 must stay below 2^30)
fn in_range(x: &[Vec<i64>], cs: &[RC]) -> bool {
    let d = x[0].len() as f64;
    let mut worst = 0f64;
    for c in cs {
        for row in x {
            for j in 0..row.len() {
                let v = ((row[j] * c.cd - c.cn[j]) as f64).abs();
                if v > worst {
                    worst = v;
                }
            }
        }
    }
    d * worst * worst < 1.0e9
}

fn bbd_event(run: i64, cls: &str, x: &[Vec<i64>], cs: &[RC], exp: Option<&Value>) -> Value {
    bbd_event_off(run, cls, x, cs, exp, &[])
}

/// `off`: common offset per column added to rows and centroids before they are handed to the
/// tree (empty = none).  Only used with centroid denominators 1 / 2, so that `off + cn/cd` is
/// exact.  The returned sums are split exactly into sumsHi * off + sums (sums = the part that
/// belongs to the small rows); the distortion is recorded at a coarse scale (S <= 2) because the
/// tree's cached node costs lose about 1e-7 per row at |off| ~ 1e9.
fn bbd_event_off(run: i64, cls: &str, x: &[Vec<i64>], cs: &[RC], exp: Option<&Value>, off: &[i64]) -> Value {
    let n = x.len();
    let d = x[0].len();
    let k = cs.len();
    let o = |j: usize| -> f64 { off.get(j).copied().unwrap_or(0) as f64 };
    let xf: Rows = x.iter().map(|r| r.iter().enumerate().map(|(j, &v)| v as f64 + o(j)).collect()).collect();
    let cf: Rows = cs.iter().map(|c| rc_float(c).iter().enumerate().map(|(j, &v)| v + o(j)).collect()).collect();
    let offmax: i64 = off.iter().fold(0i64, |a, &v| a.max(v.abs()));
    let r = guard(|| {
        let xd = DenseMatrix::from_2d_vec(&xf);
        let h = BbdHandle::<f64>::new(&xd);
        h.clustering(&cf)
    });
    let cn: Vec<Vec<i64>> = cs.iter().map(|c| c.cn.clone()).collect();
    let cd: Vec<i64> = cs.iter().map(|c| c.cd).collect();
    let mut e = json!({"run": run, "ev": "Bbd", "cls": cls, "n": n, "d": d, "k": k, "X": x, "cn": cn, "cd": cd,
                       "offmax": offmax, "off": off});
    let m = e.as_object_mut().unwrap();
    match r {
        Err(_) => {
            m.insert("status".into(), json!("panic"));
        }
        Ok((member, counts, sums, dist)) => {
            m.insert("status".into(), json!("ok"));
            m.insert("member".into(), json!(member));
            m.insert("counts".into(), json!(counts));
            // exact split of every sum into hi * off + lo (hi = nearest multiple of the offset)
            let split: Option<(Vec<Vec<i64>>, Vec<Vec<i64>>)> = if offmax == 0 {
                None
            } else {
                let mut hi = vec![vec![0i64; d]; k];
                let mut lo = vec![vec![0i64; d]; k];
                let mut ok = true;
                for c in 0..k {
                    for j in 0..d {
                        let v = sums[c][j];
                        if !(v.is_finite() && v.fract() == 0.0 && v.abs() < 9.0e15) {
                            ok = false;
                            continue;
                        }
                        let h = (v / o(j)).round();
                        let l = v - h * o(j);
                        if l.abs() < 2.0e9 && h.abs() < 2.0e9 {
                            hi[c][j] = h as i64;
                            lo[c][j] = l as i64;
                        } else {
                            ok = false;
                        }
                    }
                }
                if ok { Some((hi, lo)) } else { Some((vec![], vec![])) }
            };
            let sums_proj: Option<Vec<Vec<i64>>> = match &split {
                None => intm(&sums),
                Some((hi, lo)) => {
                    m.insert("sumsHi".into(), json!(hi));
                    if lo.is_empty() { None } else { Some(lo.clone()) }
                }
            };
            match sums_proj {
                Some(s) => {
                    m.insert("sumsInt".into(), json!(true));
                    m.insert("sums".into(), json!(s));
                }
                None => {
                    m.insert("sumsInt".into(), json!(false));
                    m.insert("sums".into(), json!(Vec::<Vec<i64>>::new()));
                }
            }
            // largest scale S <= 12 with (dist + n + 2) * 2^S < 2^30
            let mut s = if offmax == 0 { 12u32 } else { 2u32 };
            while s > 0 && (dist.abs() + n as f64 + 2.0) * ((1u64 << s) as f64) >= 1.0e9 {
                s -= 1;
            }
            let q = Q::with_limit(s, 1.05e9);
            let dfx = q.x(dist);
            m.insert("distOk".into(), json!(q.ok() && dist >= 0.0));
            m.insert("dS".into(), json!(s));
            m.insert("distFx".into(), json!(dfx));
        }
    }
    if let Some(x) = exp {
        m.insert("exp".into(), x.clone());
    }
    e
}

fn gen_centroids(r: &mut StdRng, x: &[Vec<i64>], k: usize, range: i64) -> Vec<RC> {
    let n = x.len();
    let d = x[0].len();
    let mut cs: Vec<RC> = Vec::new();
    for _ in 0..k {
        let kind = r.gen_range(0..10);
        let c = match kind {
            0 | 1 | 2 => RC { cn: (0..d).map(|_| r.gen_range(-2..=2 * range + 2)).collect(), cd: 2 },
            3 => RC { cn: x[r.gen_range(0..n)].clone(), cd: 1 },
            4 if !cs.is_empty() => cs[r.gen_range(0..cs.len())].clone(),
            5 => {
                // far outside the data
                let sgn: i64 = if r.gen_bool(0.5) { 1 } else { -1 };
                RC { cn: (0..d).map(|_| sgn * r.gen_range(3 * range..=10 * range + 3)).collect(), cd: 1 }
            }
            6 | 7 => {
                // midpoint of two rows: exact ties
                let a = &x[r.gen_range(0..n)];
                let b = &x[r.gen_range(0..n)];
                RC { cn: (0..d).map(|j| a[j] + b[j]).collect(), cd: 2 }
            }
            8 => {
                // mean of a random subset of the rows
                let m = r.gen_range(1..=n.min(12));
                let mut cn = vec![0i64; d];
                for _ in 0..m {
                    let row = &x[r.gen_range(0..n)];
                    for j in 0..d {
                        cn[j] += row[j];
                    }
                }
                RC { cn, cd: m as i64 }
            }
            _ => RC { cn: (0..d).map(|_| r.gen_range(0..=range)).collect(), cd: 1 },
        };
        cs.push(c);
    }
    cs
}

/// common offsets per column: large, exactly representable, mixed signs
fn pick_offsets(r: &mut StdRng, d: usize) -> Vec<i64> {
    const OFFS: [i64; 6] = [1 << 30, 1_000_000_000, -(1 << 30), 1_700_000_000, 1 << 28, -999_999_999];
    let same = r.gen_bool(0.5);
    let first = OFFS[r.gen_range(0..OFFS.len())];
    (0..d).map(|_| if same { first } else { OFFS[r.gen_range(0..OFFS.len())] }).collect()
}

fn shift(x: &Rows, off: &[i64]) -> Rows {
    x.iter().map(|r| r.iter().enumerate().map(|(j, &v)| v + off[j] as f64).collect()).collect()
}

/// batch-size ladder for predict: a small lattice model, then ONE predict call on N rows for N
/// around the powers of two (internal block sizes) and a few larger ones.  Every other case
/// goes through the api trait methods instead of the inherent ones.
fn gen_predict_ladder(out: &mut Out, run: &mut i64) {
    let th = thorough();
    let mut r = rng(1206);
    let mut sizes: Vec<usize> = vec![63, 64, 65, 255, 256, 257, 511, 512, 513, 1023, 1024, 1025, 1300];
    if th {
        sizes.extend_from_slice(&[127, 128, 129, 2047, 2048, 2049, 4097]);
    }
    for (ci, &nq) in sizes.iter().enumerate() {
        let n = r.gen_range(12..=30usize);
        let d = r.gen_range(1..=3usize);
        let x = lattice_uniform(&mut r, n, d, 8);
        let dist = distinct_rows(&x);
        if dist < 2 {
            continue;
        }
        let k = r.gen_range(2..=4usize.min(dist));
        let q: Rows = (0..nq).map(|_| (0..d).map(|_| r.gen_range(-2..=10) as f64).collect()).collect();
        USE_TRAIT.store(ci % 2 == 1, std::sync::atomic::Ordering::Relaxed);
        *run += 1;
        let o = run_fit(64, &x, &q, k, 100);
        let mut e = fit_event(*run, "ladder", 64, true, &x, &q, k, 100, &o);
        e["entry"] = json!(if ci % 2 == 1 { "trait" } else { "inherent" });
        out.emit(e);
    }
    USE_TRAIT.store(false, std::sync::atomic::Ordering::Relaxed);
}

/// exact decomposition of a positive finite float for the geometric families:
/// v = f * 2^e with 0.5 <= f < 1 (frexp); returns (round(f * 2^20), e)
fn man_exp(v: f64) -> Option<(i64, i64)> {
    if !(v.is_finite() && v > 0.0) {
        return None;
    }
    let e = bin_exp(v);
    let f = v * 2f64.powi(-(e as i32)); // exact: a power-of-two scaling
    Some(((f * 1048576.0).round() as i64, e))
}

/// "geometric coordinates": column 0 of row i is 2^(e_i) with pairwise distinct exponents spread
/// over 70..110 binary orders of magnitude (ascending, descending or shuffled), the other columns
/// are small lattice integers.  Every midpoint split of the BBD tree then peels off one row, so
/// the tree is as deep as the data are long.  Events carry the EXPONENTS in column 0 of X;
/// reported values of that column travel as (mantissa, exponent) pairs (man_exp), the other
/// columns as usual.
fn geo_rows(r: &mut StdRng, n: usize, d: usize, order: usize) -> (Vec<Vec<i64>>, Rows) {
    let base = r.gen_range(0..=8i64);
    let mut exps: Vec<i64> = (0..n as i64).map(|i| base + i).collect();
    match order {
        0 => {}
        1 => exps.reverse(),
        _ => exps.shuffle(r),
    }
    let xi: Vec<Vec<i64>> = exps
        .iter()
        .map(|&e| {
            let mut row = vec![e];
            for _ in 1..d {
                row.push(r.gen_range(0..=8));
            }
            row
        })
        .collect();
    let xf: Rows = xi
        .iter()
        .map(|row| row.iter().enumerate().map(|(j, &v)| if j == 0 { 2f64.powi(v as i32) } else { v as f64 }).collect())
        .collect();
    (xi, xf)
}

fn gen_fit_geo(out: &mut Out, run: &mut i64) {
    let th = thorough();
    let mut r = rng(1207);
    let cases = if th { 30 } else { 8 };
    for ci in 0..cases {
        let n = [70usize, 90, 110, 66][ci % 4];
        let d = r.gen_range(2..=3usize);
        let (xi, xf) = geo_rows(&mut r, n, d, ci % 3);
        let k = [2usize, 3, 5][ci % 3];
        let mi = [100usize, 1, 10][(ci / 3) % 3];
        *run += 1;
        let o = run_fit(64, &xf, &xf, k, mi);
        let mut e = json!({"run": *run, "ev": "KMFit", "cls": "geo", "prec": 64, "n": n, "d": d, "k": k, "maxIter": mi,
                           "xs": 1 << S_FIT, "X": xi, "offmax": 0, "status": o.status});
        if o.status == "ok" {
            let q12 = Q::new(S_FIT);
            // column 0 as (mantissa, exponent), the rest at 2^-12
            let mut gok = o.centroids.len() == k;
            let mut gman = Vec::new();
            let mut gexp = Vec::new();
            let mut cfx: Vec<Vec<i64>> = Vec::new();
            let mut finite = true;
            for c in o.centroids.iter() {
                finite = finite && c.iter().all(|v| v.is_finite());
                match c.first().and_then(|&v| man_exp(v)) {
                    Some((m, e)) => {
                        gman.push(m);
                        gexp.push(e);
                    }
                    None => {
                        gok = false;
                        gman.push(0);
                        gexp.push(0);
                    }
                }
                let mut row = vec![0i64];
                row.extend(c.iter().skip(1).map(|&v| q12.x(v)));
                cfx.push(row);
            }
            let m = e.as_object_mut().unwrap();
            m.insert("finite".into(), json!(finite));
            m.insert("inrange".into(), json!(q12.ok()));
            m.insert("y".into(), json!(o.y));
            m.insert("size".into(), json!(o.size));
            m.insert("cfx".into(), json!(cfx));
            m.insert("g0ok".into(), json!(gok));
            m.insert("g0man".into(), json!(gman));
            m.insert("g0exp".into(), json!(gexp));
            m.insert("pstatus".into(), json!(o.pstatus));
            m.insert("pred".into(), json!(o.pred.iter().map(|&v| int_exact(v).unwrap_or(-1)).collect::<Vec<i64>>()));
        }
        out.emit(e);
    }
}

/// filtering step on geometric data: centroids have column 0 = 2^g (exponent g given) and small
/// lattice integers elsewhere
fn gen_bbd_geo(out: &mut Out, run: &mut i64) {
    let th = thorough();
    let mut r = rng(1208);
    let cases = if th { 40 } else { 10 };
    for ci in 0..cases {
        let n = [70usize, 90, 110, 66][ci % 4];
        let d = r.gen_range(2..=3usize);
        let (xi, xf) = geo_rows(&mut r, n, d, ci % 3);
        let k = r.gen_range(1..=6usize);
        let emax = xi.iter().map(|row| row[0]).max().unwrap();
        let cs: Vec<Vec<i64>> = (0..k)
            .map(|_| {
                let mut c = vec![if r.gen_bool(0.7) { xi[r.gen_range(0..n)][0] } else { r.gen_range(0..=emax + 6) }];
                for _ in 1..d {
                    c.push(r.gen_range(0..=8));
                }
                c
            })
            .collect();
        let cf: Rows = cs
            .iter()
            .map(|c| c.iter().enumerate().map(|(j, &v)| if j == 0 { 2f64.powi(v as i32) } else { v as f64 }).collect())
            .collect();
        let res = guard(|| {
            let xd = DenseMatrix::from_2d_vec(&xf);
            let h = BbdHandle::<f64>::new(&xd);
            h.clustering(&cf)
        });
        *run += 1;
        let mut e = json!({"run": *run, "ev": "BbdGeo", "cls": "geo", "n": n, "d": d, "k": k, "X": xi, "cg": cs});
        let m = e.as_object_mut().unwrap();
        match res {
            Err(_) => {
                m.insert("status".into(), json!("panic"));
            }
            Ok((member, counts, sums, _dist)) => {
                m.insert("status".into(), json!("ok"));
                m.insert("member".into(), json!(member));
                m.insert("counts".into(), json!(counts));
                let mut ok = true;
                let mut sman = Vec::new();
                let mut sexp = Vec::new();
                let mut low: Vec<Vec<i64>> = Vec::new();
                for (c, srow) in sums.iter().enumerate() {
                    let cnt = counts.get(c).copied().unwrap_or(0);
                    match man_exp(srow[0]) {
                        Some((mm, ee)) => {
                            sman.push(mm);
                            sexp.push(ee);
                        }
                        None => {
                            // an empty cluster has sum 0, which has no mantissa/exponent form
                            if !(cnt == 0 && srow[0] == 0.0) {
                                ok = false;
                            }
                            sman.push(0);
                            sexp.push(0);
                        }
                    }
                    let mut row = vec![0i64];
                    for &v in srow.iter().skip(1) {
                        match int_exact(v) {
                            Some(i) => row.push(i),
                            None => {
                                ok = false;
                                row.push(0);
                            }
                        }
                    }
                    low.push(row);
                }
                m.insert("sumsOk".into(), json!(ok));
                m.insert("sums".into(), json!(low));
                m.insert("s0man".into(), json!(sman));
                m.insert("s0exp".into(), json!(sexp));
            }
        }
        out.emit(e);
    }
}

/// "outlier" families: small lattice rows plus one isolated row (or two copies of it) whose
/// column 0 is 2^g -- 2^27..2^40 times the spread of the rest in double precision, 2^13..2^20 in
/// single precision -- stored first, last, or duplicated (first and last).  Column 0 of every
/// other row is 0, so the column is recorded in units of 2^g (an exact power-of-two scaling):
/// X[i][0] is 0 or 1 and the centroids' column 0 is scaled by 2^-g before it is quantised.
/// Labels, sizes, finiteness and means stay exactly decidable; the predict clause is not decided
/// for this family (the per-column scaling does not preserve distances).
fn gen_fit_outlier(out: &mut Out, run: &mut i64) {
    let th = thorough();
    let mut r = rng(1209);
    let reps = if th { 40 } else { 10 };
    for layout in 0..3usize {
        for &prec in [64u32, 32].iter() {
            for k in 3..=5usize {
                let g: i32 = if prec == 64 { r.gen_range(27..=40) } else { r.gen_range(13..=20) };
                let d = r.gen_range(2..=3usize);
                let nrest = r.gen_range(8..=30usize);
                let mut rest: Rows = Vec::new();
                while distinct_rows(&rest) < k + 1 || rest.len() < nrest {
                    let mut row = vec![0.0];
                    for _ in 1..d {
                        row.push(r.gen_range(0..=8) as f64);
                    }
                    rest.push(row);
                    if rest.len() > 200 {
                        break;
                    }
                }
                let mut far = vec![1.0]; // in units of 2^g
                for _ in 1..d {
                    far.push(r.gen_range(0..=8) as f64);
                }
                let mut xs: Rows = Vec::new(); // scaled rows (column 0 in units of 2^g)
                match layout {
                    0 => { xs.push(far.clone()); xs.extend(rest.iter().cloned()); }
                    1 => { xs.extend(rest.iter().cloned()); xs.push(far.clone()); }
                    _ => { xs.push(far.clone()); xs.extend(rest.iter().cloned()); xs.push(far.clone()); }
                }
                let scale = 2f64.powi(g);
                let xt: Rows = xs.iter().map(|row| row.iter().enumerate().map(|(j, &v)| if j == 0 { v * scale } else { v }).collect()).collect();
                let cls = ["outlier-first", "outlier-last", "outlier-dup"][layout];
                for rep in 0..reps {
                    let mi = [100usize, 1, 3][rep % 3];
                    *run += 1;
                    let mut o = run_fit(prec, &xt, &xt, k, mi);
                    // back to units of 2^g in column 0 (exact)
                    for c in o.centroids.iter_mut() {
                        if let Some(v) = c.first_mut() {
                            *v /= scale;
                        }
                    }
                    for qrow in o.q_used.iter_mut() {
                        if let Some(v) = qrow.first_mut() {
                            *v /= scale;
                        }
                    }
                    let mut e = fit_event(*run, cls, prec, true, &xs, &xs, k, mi, &o);
                    e["farexp"] = json!(g);
                    out.emit(e);
                }
            }
        }
    }
}

/// offset families for fit / predict: small lattice rows + a large common offset per column
fn gen_fit_offset(out: &mut Out, run: &mut i64) {
    let th = thorough();
    let mut r = rng(1203);
    let sets = if th { 90 } else { 26 };
    let reps = if th { 12 } else { 4 };
    for s in 0..sets {
        // two thirds small enough for the exact predict clause (n <= 16, d <= 3)
        let (n, d) = if s % 3 != 2 { (r.gen_range(3..=16usize), r.gen_range(1..=3usize)) }
                     else { (r.gen_range(17..=80usize), r.gen_range(1..=6usize)) };
        let x: Rows = match s % 2 {
            0 => { let range = r.gen_range(2..=8); lattice_uniform(&mut r, n, d, range) }
            _ => { let g = r.gen_range(2..=4); lattice_blobs(&mut r, n, d, g) }
        };
        let dist = distinct_rows(&x);
        if dist < 2 {
            continue;
        }
        let off = pick_offsets(&mut r, d);
        let offf: Vec<f64> = off.iter().map(|&v| v as f64).collect();
        let mut q: Rows = x.iter().take(24).cloned().collect();
        for _ in 0..8 {
            q.push((0..d).map(|_| r.gen_range(-4..=20) as f64).collect());
        }
        // every third set: the lattice is also scaled down by 2^-sh (exact), so that the spread of the data is
        // tiny relative to its offset (|off| / spacing up to 2.7e10) -- k-means is equivariant under both maps
        let sh: i32 = if s % 3 == 1 { [3, 4][r.gen_range(0..2usize)] } else { 0 };
        let g = (2.0f64).powi(-sh);
        let scale = |m: &Rows| -> Rows { m.iter().map(|row| row.iter().map(|&v| v * g).collect()).collect() };
        let xs = shift(&scale(&x), &off);
        let qs = shift(&scale(&q), &off);
        for _ in 0..reps {
            let k = r.gen_range(2..=8usize.min(dist));
            let mi = MAX_ITERS[r.gen_range(0..MAX_ITERS.len())];
            *run += 1;
            let o = run_fit(64, &xs, &qs, k, mi);
            OFF_SHIFT.with(|c| c.set(sh));
            out.emit(fit_event_off(*run, "offset", 64, true, &x, &q, k, mi, &o, &offf));
            OFF_SHIFT.with(|c| c.set(0));
        }
    }
}

/// offset families for the filtering step: rows and centroids far from the origin
fn gen_bbd_offset(out: &mut Out, run: &mut i64) -> usize {
    let th = thorough();
    let mut r = rng(1204);
    let mut skipped = 0usize;
    let cases = if th { 400 } else { 70 };
    for s in 0..cases {
        let n = pick_n(&mut r, th).min(120);
        let d = r.gen_range(1..=4usize);
        let range: i64 = r.gen_range(1..=8);
        let x: Vec<Vec<i64>> = match s % 3 {
            0 => to_int_rows(&lattice_uniform(&mut r, n, d, range)),
            1 => { let g = r.gen_range(2..=5); to_int_rows(&lattice_blobs(&mut r, n, d, g)) }
            _ => { let m = r.gen_range(1..=7); to_int_rows(&lattice_dups(&mut r, n, d, m)) }
        };
        let range = if s % 3 == 1 { 16 } else { range };
        let k = r.gen_range(1..=8usize);
        // only denominators 1 and 2: `off + cn/cd` must be exact
        let cs: Vec<RC> = gen_centroids(&mut r, &x, k, range).into_iter().filter(|c| c.cd <= 2).collect();
        if cs.is_empty() || !in_range(&x, &cs) {
            skipped += 1;
            continue;
        }
        let off = pick_offsets(&mut r, d);
        *run += 1;
        out.emit(bbd_event_off(*run, "offset", &x, &cs, None, &off));
    }
    skipped
}

/// refit mode: data sets (X, k) for which the Lloyd design model reaches an empty cluster are
/// fitted `reps` times each (the seeding of the library cannot be controlled).  Identical
/// (max_iter, outcome) pairs are emitted once with their multiplicity `mult` -- a lossless
/// compression of the record, not a selection.
fn refit(inp: &str, out: &mut Out, run: &mut i64) {
    let reps: usize = if thorough() { 9000 } else { 2400 };
    for v in read_ndjson(inp) {
        let x: Rows = v["X"]
            .as_array()
            .unwrap()
            .iter()
            .map(|r| r.as_array().unwrap().iter().map(|a| a.as_i64().unwrap() as f64).collect())
            .collect();
        let k = v["k"].as_u64().unwrap() as usize;
        let cls = v["cls"].as_str().unwrap_or("refit").to_string();
        refit_one(&x, k, reps, &cls, out, run);
    }
}

/// `reps` fits of one lattice data set (max_iter cycling through 1, 2, 3, 100), each followed
/// by predict on the training rows (+ probe rows after an empty cluster); one event per distinct
/// (max_iter, outcome) with its multiplicity.
fn refit_one(x: &Rows, k: usize, reps: usize, cls: &str, out: &mut Out, run: &mut i64) {
    let xc = x.clone();
    let res = watchdog(300, move || {
        let mut seen: std::collections::BTreeMap<String, (usize, usize, FitOut)> = std::collections::BTreeMap::new();
        for i in 0..reps {
            let mi = [1usize, 2, 3, 100][i % 4];
            let o = fit_direct!(f64, &xc, k, mi);
            // (probe rows are a function of the outcome, so they are attached to every distinct one)
            let key = format!("{}|{}|{:?}|{:?}|{:?}|{:?}", mi, o.status, o.y, o.size,
                              o.centroids.iter().map(|c| c.iter().map(|v| v.to_bits()).collect::<Vec<u64>>()).collect::<Vec<_>>(),
                              o.pred.iter().map(|v| v.to_bits()).collect::<Vec<u64>>());
            seen.entry(key).or_insert((mi, 0, o)).1 += 1;
        }
        seen
    });
    match res {
        Some(Ok(seen)) => {
            for (_, (mi, mult, o)) in seen {
                *run += 1;
                let mut e = fit_event(*run, cls, 64, true, x, x, k, mi, &o);
                e["mult"] = json!(mult);
                out.emit(e);
            }
        }
        _ => {
            *run += 1;
            let mut e = fit_event(*run, cls, 64, true, x, x, k, 1, &empty_out("timeout"));
            e["mult"] = json!(reps);
            out.emit(e);
        }
    }
}

/// all integer points of the simplex layer x1 + .. + xd = total, xi >= 0
fn simplex_layer(d: usize, total: i64) -> Vec<Vec<i64>> {
    if d == 1 {
        return vec![vec![total]];
    }
    let mut v = Vec::new();
    for a in 0..=total {
        for mut rest in simplex_layer(d - 1, total - a) {
            let mut row = vec![a];
            row.append(&mut rest);
            v.push(row);
        }
    }
    v
}

fn permutations(items: &[i64]) -> Vec<Vec<i64>> {
    if items.len() <= 1 {
        return vec![items.to_vec()];
    }
    let mut v: Vec<Vec<i64>> = Vec::new();
    for i in 0..items.len() {
        let mut rest = items.to_vec();
        let a = rest.remove(i);
        for mut p in permutations(&rest) {
            let mut row = vec![a];
            row.append(&mut p);
            if !v.contains(&row) {
                v.push(row);
            }
        }
    }
    v
}

/// "composition" families: lattice rows that all have the same coordinate total (integer
/// compositions / percentages), permutations of one multiset of coordinates, and small full grids
/// (which contain the anti-diagonal pairs (a,b)/(b,a)), in 2..4 dimensions.  On such data a Lloyd
/// sweep can exchange members of a cluster without changing its count or its coordinate total.
/// Each data set is refitted many times (the seeding is unseeded).
fn gen_comp(out: &mut Out, run: &mut i64) {
    let th = thorough();
    let mut r = rng(1205);
    let reps = if th { 600 } else { 90 };
    let mut sets: Vec<(Rows, usize)> = Vec::new(); // (rows, smallest k)
    let fl = |v: Vec<Vec<i64>>| -> Rows { v.into_iter().map(|r| r.into_iter().map(|a| a as f64).collect()).collect() };
    // full layers in 3 and 4 dimensions, permutations of a multiset
    sets.push((fl(simplex_layer(3, 4)), 3));
    sets.push((fl(simplex_layer(4, 3)), 3));
    sets.push((fl(permutations(&[1, 2, 2, 4])), 3));
    // collinear layer and a small full grid (anti-diagonal pairs (a,b)/(b,a)) in 2-D
    sets.push((fl(simplex_layer(2, 7)), 2));
    let g = r.gen_range(3..=4i64);
    let mut grid = Vec::new();
    for a in 0..g {
        for b in 0..g {
            grid.push(vec![a, b]);
        }
    }
    sets.push((fl(grid), 2));
    // random compositions with duplicates, like percentages: n rows, d parts, total S
    let extra = if th { 12 } else { 3 };
    for _ in 0..extra {
        let d = r.gen_range(3..=4usize);
        let total = r.gen_range(4..=10i64);
        let layer = simplex_layer(d, total);
        let n = r.gen_range(10..=28usize);
        let rows: Vec<Vec<i64>> = (0..n).map(|_| layer[r.gen_range(0..layer.len())].clone()).collect();
        sets.push((fl(rows), 3));
    }
    for (x, kmin) in sets.iter() {
        let dist = distinct_rows(x);
        if dist < 2 {
            continue;
        }
        let kmax = 4usize.min(dist);
        for k in (*kmin).min(kmax)..=kmax {
            refit_one(x, k, if *kmin == 2 { reps / 3 } else { reps }, "comp", out, run);
        }
    }
}

fn to_int_rows(x: &Rows) -> Vec<Vec<i64>> {
    x.iter().map(|r| r.iter().map(|&v| v as i64).collect()).collect()
}

fn gen_bbd(out: &mut Out, run: &mut i64) -> usize {
    let th = thorough();
    let mut r = rng(1202);
    let mut skipped = 0usize;
    let cases = if th { 2600 } else { 300 };
    for s in 0..cases {
        let n = pick_n(&mut r, th);
        let d = r.gen_range(1..=6usize);
        let range: i64 = r.gen_range(1..=8);
        let x: Vec<Vec<i64>> = match s % 4 {
            0 | 1 => to_int_rows(&lattice_uniform(&mut r, n, d, range)),
            2 => {
                let g = r.gen_range(2..=5);
                to_int_rows(&lattice_blobs(&mut r, n, d, g))
            }
            _ => {
                let m = r.gen_range(1..=7);
                to_int_rows(&lattice_dups(&mut r, n, d, m))
            }
        };
        let range = if s % 4 == 2 { 16 } else { range };
        let k = r.gen_range(1..=8usize);
        let cs = gen_centroids(&mut r, &x, k, range);
        if !in_range(&x, &cs) {
            skipped += 1;
            continue;
        }
        *run += 1;
        out.emit(bbd_event(*run, "random", &x, &cs, None));
    }
    // Lloyd chains through the real tree: centroids = means of the previous assignment,
    // exactly as KMeans::fit feeds them back (sums / counts, previous centroid when empty)
    let chains = if th { 500 } else { 60 };
    for s in 0..chains {
        let n = if th { pick_n(&mut r, th).min(200) } else { pick_n(&mut r, th).min(80) };
        let d = r.gen_range(1..=4usize);
        let x: Vec<Vec<i64>> = match s % 3 {
            0 => {
                let range = r.gen_range(2..=8);
                to_int_rows(&lattice_uniform(&mut r, n, d, range))
            }
            1 => {
                let g = r.gen_range(2..=5);
                to_int_rows(&lattice_blobs(&mut r, n, d, g))
            }
            _ => {
                let m = r.gen_range(2..=7);
                to_int_rows(&lattice_dups(&mut r, n, d, m))
            }
        };
        let k = r.gen_range(2..=6usize);
        let mut cs: Vec<RC> = (0..k).map(|_| RC { cn: x[r.gen_range(0..n)].clone(), cd: 1 }).collect();
        for _step in 0..6 {
            if !in_range(&x, &cs) {
                skipped += 1;
                break;
            }
            *run += 1;
            let e = bbd_event(*run, "chain", &x, &cs, None);
            let ok = e["status"] == "ok" && e["sumsInt"] == json!(true);
            let next: Option<Vec<RC>> = if ok {
                let counts: Vec<i64> = e["counts"].as_array().unwrap().iter().map(|v| v.as_i64().unwrap()).collect();
                let sums: Vec<Vec<i64>> = e["sums"]
                    .as_array()
                    .unwrap()
                    .iter()
                    .map(|r| r.as_array().unwrap().iter().map(|v| v.as_i64().unwrap()).collect())
                    .collect();
                Some(
                    (0..k)
                        .map(|c| if counts[c] > 0 { RC { cn: sums[c].clone(), cd: counts[c] } } else { cs[c].clone() })
                        .collect(),
                )
            } else {
                None
            };
            out.emit(e);
            match next {
                Some(nx) => cs = nx,
                None => break,
            }
        }
    }
    skipped
}

/// spec -> impl: terminal states printed by TLC for BbdFilter.tla (data, doubled centroids and
/// the model's outputs) are pushed through the real tree; the model's outputs travel along as
/// `exp` so that the trace spec can count MODEL-DRIFT.
fn replay_spec(inp: &str, out: &mut Out, run: &mut i64) {
    for v in read_ndjson(inp) {
        let x: Vec<Vec<i64>> = v["X"]
            .as_array()
            .unwrap()
            .iter()
            .map(|r| r.as_array().unwrap().iter().map(|a| a.as_i64().unwrap()).collect())
            .collect();
        let cs: Vec<RC> = v["c2"]
            .as_array()
            .unwrap()
            .iter()
            .map(|r| RC { cn: r.as_array().unwrap().iter().map(|a| a.as_i64().unwrap()).collect(), cd: 2 })
            .collect();
        let exp = json!({"member": v["member"], "counts": v["counts"], "sums": v["sums"],
                         "distNum": v["distNum"], "distDen": v["distDen"]});
        *run += 1;
        out.emit(bbd_event(*run, "model", &x, &cs, Some(&exp)));
    }
}

/// re-execute the events of a replay artefact (inputs only are taken from the file)
fn rerun(inp: &str, out: &mut Out, run: &mut i64) {
    for v in read_ndjson(inp) {
        *run += 1;
        let ints = |a: &Value| -> Vec<Vec<i64>> {
            a.as_array()
                .unwrap()
                .iter()
                .map(|r| r.as_array().unwrap().iter().map(|a| a.as_i64().unwrap()).collect())
                .collect()
        };
        if v["ev"] == "Bbd" {
            let x = ints(&v["X"]);
            let cn = ints(&v["cn"]);
            let cd: Vec<i64> = v["cd"].as_array().unwrap().iter().map(|a| a.as_i64().unwrap()).collect();
            let cs: Vec<RC> = cn.into_iter().zip(cd).map(|(cn, cd)| RC { cn, cd }).collect();
            let off: Vec<i64> = v["off"].as_array().map(|a| a.iter().map(|b| b.as_i64().unwrap_or(0)).collect()).unwrap_or_default();
            out.emit(bbd_event_off(*run, v["cls"].as_str().unwrap_or("rerun"), &x, &cs, None, &off));
        } else if v["ev"] == "KMFit" && v["xs"].as_i64() == Some(1 << S_FIT) && v["cls"] != "geo" && v["farexp"].is_null() {
            let x: Rows = ints(&v["X"]).iter().map(|r| r.iter().map(|&a| a as f64).collect()).collect();
            let q: Rows = if v["Q"].is_array() {
                ints(&v["Q"]).iter().map(|r| r.iter().map(|&a| a as f64).collect()).collect()
            } else {
                x.clone()
            };
            let prec = v["prec"].as_u64().unwrap_or(64) as u32;
            let k = v["k"].as_u64().unwrap() as usize;
            let mi = v["maxIter"].as_u64().unwrap() as usize;
            let off: Vec<i64> = v["off"].as_array().map(|a| a.iter().map(|b| b.as_i64().unwrap_or(0)).collect()).unwrap_or_default();
            let offf: Vec<f64> = off.iter().map(|&b| b as f64).collect();
            let (xs, qs) = if off.is_empty() { (x.clone(), q.clone()) } else { (shift(&x, &off), shift(&q, &off)) };
            let o = run_fit(prec, &xs, &qs, k, mi);
            out.emit(fit_event_off(*run, v["cls"].as_str().unwrap_or("rerun"), prec, true, &x, &q, k, mi, &o, &offf));
        } else {
            // continuous inputs are stored quantised and cannot be re-executed exactly
            out.emit(v.clone());
        }
    }
}

fn main() {
    let args: Vec<String> = std::env::args().skip(1).collect();
    let args = &args[..];
    silence_panics();
    let mode = arg(args, 0);
    if mode == "ulp-child" {
        ulp_child(arg(args, 1).parse().expect("case id"));
        return;
    }
    let path = arg(args, 1);
    let mut run = 0i64;
    let mut skipped = 0usize;
    match mode {
        "gen-fit" => {
            let mut out = Out::create(path);
            gen_fit(&mut out, &mut run);
            gen_fit_offset(&mut out, &mut run);
            gen_predict_ladder(&mut out, &mut run);
            gen_fit_outlier(&mut out, &mut run);
            gen_fit_geo(&mut out, &mut run);
            gen_ulp(&mut out, &mut run);
            let n = out.finish();
            println!("events={} runs={} skipped={}", n, run, skipped);
        }
        "gen-bbd" => {
            let mut out = Out::create(path);
            skipped = gen_bbd(&mut out, &mut run);
            skipped += gen_bbd_offset(&mut out, &mut run);
            gen_bbd_geo(&mut out, &mut run);
            let n = out.finish();
            println!("events={} runs={} skipped={}", n, run, skipped);
        }
        "replay-spec" => {
            let mut out = Out::create(arg(args, 2));
            replay_spec(path, &mut out, &mut run);
            let n = out.finish();
            println!("events={} runs={} skipped={}", n, run, skipped);
        }
        "gen-comp" => {
            let mut out = Out::create(path);
            gen_comp(&mut out, &mut run);
            let n = out.finish();
            println!("events={} runs={} skipped={}", n, run, skipped);
        }
        "refit" => {
            let mut out = Out::create(arg(args, 2));
            refit(path, &mut out, &mut run);
            let n = out.finish();
            println!("events={} runs={} skipped={}", n, run, skipped);
        }
        "rerun" => {
            let mut out = Out::create(arg(args, 2));
            rerun(path, &mut out, &mut run);
            let n = out.finish();
            println!("events={} runs={} skipped={}", n, run, skipped);
        }
        _ => {
            eprintln!("unknown c12 mode {}", mode);
            std::process::exit(2);
        }
    }
}
