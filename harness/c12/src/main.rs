use smartcore::cluster::kmeans::*;
use smartcore::linalg::naive::dense_matrix::DenseMatrix;
fn main() {
    let a: Vec<String> = std::env::args().collect();
    match a[1].as_str() {
        "f32" => {
            let lo = 1.0f32; let hi = f32::from_bits(lo.to_bits() + 1);
            println!("center==lo {}", (lo + hi) / 2.0 == lo);
            let x = DenseMatrix::from_2d_vec(&vec![vec![5.0f32], vec![lo], vec![hi]]);
            let m = KMeans::fit(&x, KMeansParameters::default().with_k(2)).unwrap();
            println!("{}", serde_json::to_string(&m).unwrap());
        }
        "f32b" => {
            let lo = f32::from_bits(1.0f32.to_bits() + 1); let hi = f32::from_bits(lo.to_bits() + 1);
            println!("center==lo {}", (lo + hi) / 2.0 == lo);
            let x = DenseMatrix::from_2d_vec(&vec![vec![5.0f32], vec![lo], vec![hi]]);
            let m = KMeans::fit(&x, KMeansParameters::default().with_k(2)).unwrap();
            println!("{}", serde_json::to_string(&m).unwrap());
        }
        "f64" => {
            let lo = 8388608.0f64; let hi = f64::from_bits(lo.to_bits() + 1);
            println!("center==lo {} radius {}", (lo + hi) / 2.0 == lo, (hi-lo)/2.0);
            let x = DenseMatrix::from_2d_vec(&vec![vec![lo], vec![hi], vec![0.0]]);
            let m = KMeans::fit(&x, KMeansParameters::default().with_k(2)).unwrap();
            println!("{}", serde_json::to_string(&m).unwrap());
        }
        _ => {}
    }
}
