//! C05 — decision trees.  Drives `DecisionTreeClassifier::{fit,predict}` and
//! `DecisionTreeRegressor::{fit,predict}` and records, per fit, the training set, the
//! parameters, the node array read from the serde dump of the fitted model and the predictions
//! on the training rows and on a few query rows.  No property logic lives here: the harness
//! generates inputs, calls the library and projects floats to integers by exact / monotone maps
//!
//!   * feature values, query values and thresholds: either the exact integers `2*xden*v` (when
//!     every value involved is such an integer) or, otherwise, *joint dense ranks* per feature
//!     (order- and equality-preserving, so that `x <= thr` is decided identically);
//!   * class labels: exact integers; regression targets: exact numerators over `yden`;
//!   * regression outputs / predictions: fixed point `round(v * 2^16)` with validity flags;
//!   * bit-level signatures `[sign, binary exponent, mantissa hi 26 bits, mantissa lo 26 bits]`
//!     of thresholds / outputs for the "deterministic" and "power-of-two rescaling" clauses.
//!
//! Sub-commands
//!   gen-random  <out.ndjson>            seeded random + systematic families (VERIF_SEED, VERIF_TIER)
//!   replay-spec <in.ndjson> <out.ndjson> replay the inputs printed by TLC from TreeGrow.tla
//!   gen-argsort <out.ndjson>            quick_argsort_mut (the pre-sorting the trees rely on)
use rand::prelude::*;
use rand::rngs::StdRng;
use serde_json::{json, Value};
use nalgebra::DMatrix;
use ndarray::{Array2, ShapeBuilder};
use smartcore::linalg::naive::dense_matrix::DenseMatrix;
use smartcore::api::{Predictor, SupervisedEstimator};
use smartcore::linalg::BaseVector;
use smartcore::tree::decision_tree_classifier::{
    DecisionTreeClassifier, DecisionTreeClassifierParameters, SplitCriterion,
};
use smartcore::tree::decision_tree_regressor::{
    DecisionTreeRegressor, DecisionTreeRegressorParameters,
};
use smartcore::verif::QuickArgSort;
use vutil::*;

const FX: u32 = 16;

#[derive(Clone)]
struct Case {
    kind: &'static str, // "cls" | "reg"
    crit: &'static str, // "gini" | "entropy" | "error" | "mse"
    max_depth: u16,     // 0 = None
    msl: usize,
    mss: usize,
    x: Vec<Vec<f64>>, // the values handed to the library
    y: Vec<f64>,
    q: Vec<Vec<f64>>, // query rows (not trained on)
    xden: i64,        // > 0: every x / q value is a multiple of 1/xden; 0: arbitrary floats
    yden: i64,        // regression: y = numerator / yden (yden a power of two)
    family: String,
    shift: i32, // != 0: also fit on x * 2^shift
    backend: &'static str, // "dense" | "dense32" (f32 elements) | "ndarray_f" | "ndarray_c" | "nalgebra"
    expect: Option<Value>,
    label_family: &'static str, // how the class labels were chosen (classification)
    entry: &'static str, // "inherent": Type::fit / tree.predict; "trait": SupervisedEstimator::fit / Predictor::predict
}

struct RawNode {
    f: i64,
    thr: Option<f64>,
    t: i64,
    fc: i64,
    out_i: i64,
    out_f: Option<f64>,
}

struct Fitted {
    nodes: Vec<RawNode>,
    classes: Vec<f64>,
    pred: Vec<f64>,
    predq: Vec<f64>,
}

fn opt_idx(v: &Value) -> i64 {
    v.as_i64().unwrap_or(-1)
}

fn raw_nodes(dump: &Value, reg: bool) -> Vec<RawNode> {
    dump["nodes"]
        .as_array()
        .map(|a| {
            a.iter()
                .map(|n| RawNode {
                    f: n["split_feature"].as_i64().unwrap_or(-1),
                    thr: n["split_value"].as_f64(),
                    t: opt_idx(&n["true_child"]),
                    fc: opt_idx(&n["false_child"]),
                    out_i: if reg { 0 } else { n["output"].as_i64().unwrap_or(-1) },
                    out_f: if reg { n["output"].as_f64() } else { None },
                })
                .collect()
        })
        .unwrap_or_default()
}

fn scaled(m: &[Vec<f64>], s: f64) -> Vec<Vec<f64>> {
    m.iter().map(|r| r.iter().map(|v| v * s).collect()).collect()
}

/// fit + dump + predict(train) + predict(queries) with element type `$t` on the matrix type
/// produced by `$mk` (a closure rows -> matrix); everything is converted back to f64 exactly.
macro_rules! fit_with {
    ($t:ty, $c:expr, $xs:expr, $qs:expr, $mk:expr) => {{
        let c: &Case = $c;
        let conv = |m: &Vec<Vec<f64>>| -> Vec<Vec<$t>> { m.iter().map(|r| r.iter().map(|&v| v as $t).collect()).collect() };
        let x = $mk(&conv($xs));
        let q = if $qs.is_empty() { None } else { Some($mk(&conv($qs))) };
        let yv: Vec<$t> = c.y.iter().map(|&v| v as $t).collect();
        let y = BaseVector::from_array(&yv[..]);
        let back = |v: Vec<$t>| -> Vec<f64> { v.iter().map(|&a| a as f64).collect() };
        if c.kind == "cls" {
            let mut p = DecisionTreeClassifierParameters::default();
            p.criterion = match c.crit {
                "gini" => SplitCriterion::Gini,
                "entropy" => SplitCriterion::Entropy,
                _ => SplitCriterion::ClassificationError,
            };
            p.max_depth = if c.max_depth == 0 { None } else { Some(c.max_depth) };
            p.min_samples_leaf = c.msl;
            p.min_samples_split = c.mss;
            let fitted = if c.entry == "trait" {
                <DecisionTreeClassifier<$t> as SupervisedEstimator<_, _, DecisionTreeClassifierParameters>>::fit(&x, &y, p)
            } else {
                DecisionTreeClassifier::<$t>::fit(&x, &y, p)
            };
            match fitted {
                Err(_) => None,
                Ok(tree) => {
                    let dump = serde_json::to_value(&tree).unwrap();
                    let tr = c.entry == "trait";
                    let pred = (if tr { Predictor::predict(&tree, &x) } else { tree.predict(&x) }).ok().map(|v| back(BaseVector::to_vec(&v)));
                    let predq = match &q {
                        Some(q) => (if tr { Predictor::predict(&tree, q) } else { tree.predict(q) }).ok().map(|v| back(BaseVector::to_vec(&v))),
                        None => Some(vec![]),
                    };
                    let classes = dump["classes"]
                        .as_array()
                        .map(|a| a.iter().map(|v| v.as_f64().unwrap_or(f64::NAN)).collect())
                        .unwrap_or_default();
                    match (pred, predq) {
                        (Some(pred), Some(predq)) => Some(Fitted { nodes: raw_nodes(&dump, false), classes, pred, predq }),
                        _ => None,
                    }
                }
            }
        } else {
            let p = DecisionTreeRegressorParameters {
                max_depth: if c.max_depth == 0 { None } else { Some(c.max_depth) },
                min_samples_leaf: c.msl,
                min_samples_split: c.mss,
            };
            let fitted = if c.entry == "trait" {
                <DecisionTreeRegressor<$t> as SupervisedEstimator<_, _, DecisionTreeRegressorParameters>>::fit(&x, &y, p)
            } else {
                DecisionTreeRegressor::<$t>::fit(&x, &y, p)
            };
            match fitted {
                Err(_) => None,
                Ok(tree) => {
                    let dump = serde_json::to_value(&tree).unwrap();
                    let tr = c.entry == "trait";
                    let pred = (if tr { Predictor::predict(&tree, &x) } else { tree.predict(&x) }).ok().map(|v| back(BaseVector::to_vec(&v)));
                    let predq = match &q {
                        Some(q) => (if tr { Predictor::predict(&tree, q) } else { tree.predict(q) }).ok().map(|v| back(BaseVector::to_vec(&v))),
                        None => Some(vec![]),
                    };
                    match (pred, predq) {
                        (Some(pred), Some(predq)) => Some(Fitted { nodes: raw_nodes(&dump, true), classes: vec![], pred, predq }),
                        _ => None,
                    }
                }
            }
        }
    }};
}

fn flat_rows<T: Copy>(rows: &Vec<Vec<T>>) -> Vec<T> {
    rows.iter().flat_map(|r| r.iter().copied()).collect()
}
fn flat_cols<T: Copy>(rows: &Vec<Vec<T>>) -> Vec<T> {
    let p = rows.first().map(|r| r.len()).unwrap_or(0);
    (0..p).flat_map(|j| rows.iter().map(move |r| r[j])).collect()
}

/// one call of fit + predict(train) + predict(queries) on `x * scale`, through the matrix
/// back end / element type named by `c.backend`
fn fit_case(c: &Case, scale: f64) -> (&'static str, Option<Fitted>) {
    let c = c.clone();
    let r = watchdog(60, move || {
        let xs = scaled(&c.x, scale);
        let qs = scaled(&c.q, scale);
        match c.backend {
            "dense32" => fit_with!(f32, &c, &xs, &qs, |m: &Vec<Vec<f32>>| DenseMatrix::from_2d_vec(m)),
            // contiguous column-major Array2 (what transpose / reversed_axes / .f() shapes produce)
            "ndarray_f" => fit_with!(f64, &c, &xs, &qs, |m: &Vec<Vec<f64>>| {
                Array2::from_shape_vec((m.len(), m[0].len()).f(), flat_cols(m)).unwrap()
            }),
            "ndarray_c" => fit_with!(f64, &c, &xs, &qs, |m: &Vec<Vec<f64>>| {
                Array2::from_shape_vec((m.len(), m[0].len()), flat_rows(m)).unwrap()
            }),
            "nalgebra" => fit_with!(f64, &c, &xs, &qs, |m: &Vec<Vec<f64>>| {
                DMatrix::from_row_slice(m.len(), m[0].len(), &flat_rows(m))
            }),
            _ => fit_with!(f64, &c, &xs, &qs, |m: &Vec<Vec<f64>>| DenseMatrix::from_2d_vec(m)),
        }
    });
    match r {
        None => ("timeout", None),
        Some(Err(_)) => ("panic", None),
        Some(Ok(None)) => ("err", None),
        Some(Ok(Some(f))) => ("ok", Some(f)),
    }
}

/// exact bit-level projection of a float: [sign, binary exponent, mantissa hi, mantissa lo]
fn fbits(v: f64) -> Value {
    let b = v.to_bits();
    let m = b & ((1u64 << 52) - 1);
    json!([(b >> 63) as i64, bin_exp(v), (m >> 26) as i64, (m & ((1 << 26) - 1)) as i64])
}

fn is_internal(n: &RawNode) -> bool {
    n.t >= 0 && n.fc >= 0
}

/// Projection of feature values, query values and the thresholds of internal nodes to a
/// common integer scale.  Returns (xkind, X, Q, thr per node, thrOk per node).
fn project_x(c: &Case, f: &Fitted, scale: f64) -> (&'static str, Vec<Vec<i64>>, Vec<Vec<i64>>, Vec<i64>, Vec<bool>) {
    let p = c.x.first().map(|r| r.len()).unwrap_or(0);
    let thr_ok: Vec<bool> = f.nodes.iter().map(|n| n.thr.map(|t| t.is_finite()).unwrap_or(false)).collect();
    // exact attempt: every value * 2 * xden / scale is an integer
    if c.xden > 0 {
        let k = 2.0 * c.xden as f64 / scale;
        let ex = |v: f64| int_exact(v * k);
        let xs: Option<Vec<Vec<i64>>> = c.x.iter().map(|r| r.iter().map(|&v| ex(v * scale)).collect()).collect();
        let qs: Option<Vec<Vec<i64>>> = c.q.iter().map(|r| r.iter().map(|&v| ex(v * scale)).collect()).collect();
        let mut ok = xs.is_some() && qs.is_some();
        let mut thr = vec![0i64; f.nodes.len()];
        for (i, n) in f.nodes.iter().enumerate() {
            if is_internal(n) && thr_ok[i] {
                match ex(n.thr.unwrap()) {
                    Some(t) => thr[i] = t,
                    None => ok = false,
                }
            }
        }
        if ok {
            return ("exact", xs.unwrap(), qs.unwrap(), thr, thr_ok);
        }
    }
    // joint dense ranks per feature over training values, query values and thresholds
    let n = c.x.len();
    let m = c.q.len();
    let mut xs = vec![vec![0i64; p]; n];
    let mut qs = vec![vec![0i64; p]; m];
    let mut thr = vec![0i64; f.nodes.len()];
    for j in 0..p {
        let mut vals: Vec<f64> = Vec::new();
        for r in c.x.iter() {
            vals.push(r[j] * scale);
        }
        for r in c.q.iter() {
            vals.push(r[j] * scale);
        }
        let mut owners = Vec::new();
        for (i, nd) in f.nodes.iter().enumerate() {
            if is_internal(nd) && thr_ok[i] && nd.f == j as i64 {
                vals.push(nd.thr.unwrap());
                owners.push(i);
            }
        }
        let rk = dense_ranks(&vals);
        for i in 0..n {
            xs[i][j] = rk[i];
        }
        for i in 0..m {
            qs[i][j] = rk[n + i];
        }
        for (k, &i) in owners.iter().enumerate() {
            thr[i] = rk[n + m + k];
        }
    }
    ("rank", xs, qs, thr, thr_ok)
}

fn nodes_json(c: &Case, f: &Fitted, thr: &[i64], thr_ok: &[bool]) -> (Vec<Value>, Vec<Value>) {
    let q = Q::with_limit(FX, 4.0e6);
    let mut nodes = Vec::new();
    let mut sig = Vec::new();
    for (i, n) in f.nodes.iter().enumerate() {
        let (out, out_ok, ob) = if c.kind == "cls" {
            (n.out_i, n.out_i >= 0, json!([n.out_i]))
        } else {
            match n.out_f {
                Some(v) => {
                    let qq = Q::with_limit(FX, 4.0e6);
                    let o = qq.x(v);
                    (o, qq.ok(), fbits(v))
                }
                None => (0, false, json!([0, 2000, 0, 0])),
            }
        };
        let _ = &q;
        nodes.push(json!({"f": n.f, "thr": thr[i], "thrOk": thr_ok[i], "t": n.t, "fc": n.fc,
                          "out": out, "outOk": out_ok}));
        let tb = match n.thr {
            Some(t) => fbits(t),
            None => json!([0, 2000, 0, 0]),
        };
        sig.push(json!({"f": n.f, "t": n.t, "fc": n.fc, "tb": tb, "ob": ob}));
    }
    (nodes, sig)
}

/// predictions: classification -> exact label integers, regression -> fx16; plus bit signatures
/// The distinct label values of a classification case in ascending order (distinct by value:
/// -0.0 and 0.0 are one label, as they are for every comparison the library makes).
fn label_set(c: &Case) -> Vec<f64> {
    let mut l: Vec<f64> = c.y.clone();
    l.sort_by(|a, b| a.partial_cmp(b).unwrap());
    l.dedup_by(|a, b| a == b);
    l
}

/// Order-preserving integer code of a label value: its 1-based position in the label set, or -1
/// when the value equals none of the labels (labels are arbitrary floats; a code carries all the
/// specification needs: identity and order).
fn label_code(set: &[f64], v: f64) -> i64 {
    set.iter().position(|&l| l == v).map(|i| i as i64 + 1).unwrap_or(-1)
}

/// predictions: classification -> label codes, regression -> fx16; plus bit signatures
fn preds_json(c: &Case, p: &[f64]) -> (Vec<i64>, bool, Vec<Value>) {
    if c.kind == "cls" {
        let set = label_set(c);
        let v: Vec<i64> = p.iter().map(|&x| label_code(&set, x)).collect();
        (v, true, p.iter().map(|&x| fbits(x)).collect())
    } else {
        let q = Q::with_limit(FX, 4.0e6);
        let v = q.v(p);
        (v, q.ok(), p.iter().map(|&x| fbits(x)).collect())
    }
}

/// classification: label codes; regression: exact numerators over yden
fn ynum(c: &Case) -> Vec<i64> {
    if c.kind == "cls" {
        let set = label_set(c);
        c.y.iter().map(|&v| label_code(&set, v)).collect()
    } else {
        c.y.iter().map(|&v| int_exact(v * c.yden as f64).unwrap_or(-99999)).collect()
    }
}

fn with(base: &Value, extra: Value) -> Value {
    let mut m = base.as_object().unwrap().clone();
    for (k, v) in extra.as_object().unwrap() {
        m.insert(k.clone(), v.clone());
    }
    Value::Object(m)
}

/// One fit on `x * scale`, as the fields of a TreeFit record (the feature values, queries and
/// thresholds are projected back to the unscaled integer scale / to joint ranks).
fn fit_record(c: &Case, scale: f64) -> (&'static str, Option<Value>) {
    let (status, fitted) = fit_case(c, scale);
    let f = match fitted {
        Some(f) => f,
        None => return (status, None),
    };
    let (xkind, xs, qs, thr, thr_ok) = project_x(c, &f, scale);
    let (nodes, sig) = nodes_json(c, &f, &thr, &thr_ok);
    let (pred, pred_ok, psig) = preds_json(c, &f.pred);
    let (predq, predq_ok, qsig) = preds_json(c, &f.predq);
    let set = if c.kind == "cls" { label_set(c) } else { vec![] };
    let classes: Vec<i64> = f.classes.iter().map(|&v| label_code(&set, v)).collect();
    (
        "ok",
        Some(json!({"status": "ok", "xkind": xkind, "X": xs, "Q": qs,
               "nodes": nodes, "classes": classes, "pred": pred, "predQ": predq, "predOk": pred_ok && predq_ok,
               "sig": {"nodes": sig, "pred": psig, "predQ": qsig}})),
    )
}

/// All events of one case: TreeFit, Refit (same input again), Scaled (features * 2^shift, a
/// complete fit record of its own plus the bit signature compared with the unscaled fit).
fn case_events(run: i64, c: &Case, out: &mut Out) {
    let n = c.x.len();
    let p = c.x.first().map(|r| r.len()).unwrap_or(0);
    let head = json!({"run": run, "kind": c.kind, "crit": c.crit, "maxDepth": c.max_depth, "msl": c.msl,
                      "mss": c.mss, "n": n, "p": p, "family": c.family, "backend": c.backend, "entry": c.entry,
                      "prec": if c.backend == "dense32" { "f32" } else { "f64" },
                      "y": ynum(c), "yden": c.yden, "shift": 0,
                      "labelFamily": c.label_family,
                      "labelBits": if c.kind == "cls" { label_set(c).iter().map(|&v| fbits(v)).collect::<Vec<Value>>() } else { vec![] }});
    let (status, rec) = fit_record(c, 1.0);
    let rec = match rec {
        Some(r) => r,
        None => {
            out.emit(with(&head, json!({"ev": "TreeFit", "status": status})));
            return;
        }
    };
    let mut ev = with(&with(&head, rec), json!({"ev": "TreeFit"}));
    if let Some(e) = &c.expect {
        ev.as_object_mut().unwrap().insert("expect".to_string(), e.clone());
    }
    out.emit(ev);
    // --- the same input once more
    let (status2, rec2) = fit_record(c, 1.0);
    match rec2 {
        Some(r2) => out.emit(json!({"run": run, "ev": "Refit", "status": "ok", "shift": 0, "sig": r2["sig"]})),
        None => out.emit(json!({"run": run, "ev": "Refit", "status": status2, "shift": 0})),
    }
    // --- features multiplied by a power of two (the unscaled set is the 2^-shift multiple of
    //     the scaled one, so negative exponents exercise the same clause)
    if c.shift != 0 {
        let s = (2.0f64).powi(c.shift);
        let (status3, rec3) = fit_record(c, s);
        match rec3 {
            Some(r3) => out.emit(with(&with(&head, r3), json!({"ev": "Scaled", "shift": c.shift}))),
            None => out.emit(with(&head, json!({"ev": "Scaled", "status": status3, "shift": c.shift}))),
        }
    }
}

// ------------------------------------------------------------------------------------------
// input generation
// ------------------------------------------------------------------------------------------

const LABEL_POOL: [i64; 12] = [-40, -7, -3, -1, 0, 1, 2, 5, 11, 17, 100, 1000];

/// A set of k distinct class labels of one of the label families.  Labels are arbitrary floats;
/// in single precision they are f32 values (and still pairwise distinct).
fn pick_labels(r: &mut StdRng, k: usize, f32mode: bool) -> (Vec<f64>, &'static str) {
    let ints = |r: &mut StdRng| -> Vec<f64> {
        let mut pool: Vec<i64> = LABEL_POOL.to_vec();
        pool.shuffle(r);
        pool[..k].iter().map(|&v| v as f64).collect()
    };
    let eps_step = if f32mode { (2.0f64).powi(-30) } else { (2.0f64).powi(-60) };
    let (mut l, fam): (Vec<f64>, &'static str) = match r.gen_range(0..100) {
        0..=29 => (ints(r), "integers"),
        30..=44 => ((0..k).map(|i| i as f64).collect(), "indices"),
        45..=59 => {
            // non-integer labels between the integer extremes 0 and k-1
            let mut v = vec![0.0, (k - 1) as f64];
            let mut eighths: Vec<i64> = (1..(8 * (k as i64 - 1)).max(2)).filter(|e| e % 8 != 0).collect();
            eighths.shuffle(r);
            for e in eighths.iter().take(k.saturating_sub(2)) {
                v.push(*e as f64 / 8.0);
            }
            if k == 2 { v = vec![0.0, 0.5]; }
            (v, "fractional")
        }
        60..=71 => {
            // labels that collide when truncated / rounded to integers
            let base = *[0.0f64, -1.0, 1.0, 7.0].choose(r).unwrap();
            let mut fr: Vec<f64> = vec![0.25, 0.75, 0.5, 0.125, 0.875];
            fr.shuffle(r);
            let mut v: Vec<f64> = fr[..k].iter().map(|f| base + f).collect();
            if base == -1.0 && k >= 2 { v[0] = -0.5; v[1] = 0.5; }
            (v, "colliding")
        }
        72..=83 => {
            // labels closer to each other than machine epsilon
            match r.gen_range(0..3) {
                0 => ((0..k).map(|i| i as f64 * eps_step).collect(), "tiny"),
                1 => ((0..k).map(|i| if i == 0 { 0.0 } else { 1.0e-17 * i as f64 }).collect(), "tiny"),
                _ => ((0..k as u64).map(|i| if f32mode { f32::from_bits(1.0f32.to_bits() + i as u32) as f64 } else { ulps(1.0, i) }).collect(), "tiny"),
            }
        }
        84..=93 => {
            let big = if f32mode { 1.0e30 } else { 1.0e300 };
            let mut v = vec![-big, big, -3.5e10, 2.0e15 + 1.0, -0.001];
            v.shuffle(r);
            (v[..k].to_vec(), "huge")
        }
        _ => {
            // zero as a label (written as 0.0 and as -0.0 by the caller of pick_labels)
            let mut v = vec![0.0, 1.0, -2.5, 3.0, 0.5];
            v.truncate(k);
            (v, "signedzero")
        }
    };
    if f32mode {
        for v in l.iter_mut() {
            *v = (*v as f32) as f64;
        }
    }
    let mut chk = l.clone();
    chk.sort_by(|a, b| a.partial_cmp(b).unwrap());
    chk.dedup_by(|a, b| a == b);
    if chk.len() != k || l.iter().any(|v| !v.is_finite()) {
        return (ints(r), "integers");
    }
    (l, fam)
}

/// feature matrix of one of the value families; returns (x, xden, family tag)
fn gen_x(r: &mut StdRng, n: usize, p: usize, f32mode: bool) -> (Vec<Vec<f64>>, i64, &'static str) {
    let (mut x, xden, fam) = gen_x64(r, n, p, f32mode);
    if f32mode {
        // the values handed to an f32 tree are f32 values
        for row in x.iter_mut() {
            for v in row.iter_mut() {
                *v = (*v as f32) as f64;
            }
        }
    }
    (x, xden, fam)
}

fn gen_x64(r: &mut StdRng, n: usize, p: usize, f32mode: bool) -> (Vec<Vec<f64>>, i64, &'static str) {
    let fam = r.gen_range(0..110);
    let mut x = vec![vec![0.0; p]; n];
    if fam >= 100 {
        // every column in one of the structured row orders (decreasing run with one exception,
        // organ pipe, saw tooth, median-of-three killer, ...)
        for j in 0..p {
            let kind_i = r.gen_range(0..12);
            let col = pattern(r, kind_i, n);
            for i in 0..n {
                x[i][j] = col[i] as f64;
            }
        }
        let _ = f32mode;
        return (x, 1, "ordered");
    }
    if fam < 35 {
        // small integers, many repeated values
        let hi = *[1i64, 2, 3, 5, 9].choose(r).unwrap();
        for row in x.iter_mut() {
            for v in row.iter_mut() {
                *v = r.gen_range(0..=hi) as f64;
                if *v == 0.0 && r.gen_bool(0.3) {
                    *v = -0.0; // equal to +0.0 in every comparison the tree makes
                }
            }
        }
        (x, 1, "smallint")
    } else if fam < 60 {
        // pairwise distinct integers within every feature (a random permutation, shifted / strided)
        for j in 0..p {
            let mut perm: Vec<i64> = (0..n as i64).collect();
            perm.shuffle(r);
            let stride = r.gen_range(1..=3);
            let off = r.gen_range(-20..=20);
            for i in 0..n {
                x[i][j] = (perm[i] * stride + off) as f64;
            }
        }
        (x, 1, "distinctint")
    } else if fam < 80 {
        // continuous values (projected by joint ranks)
        let wide = r.gen_bool(0.3);
        for row in x.iter_mut() {
            for v in row.iter_mut() {
                *v = if wide { (r.gen::<f64>() - 0.5) * 2.0e6 } else { r.gen::<f64>() };
            }
        }
        (x, 0, "continuous")
    } else if fam < 92 {
        // dyadic values k/8, negative and positive, some repeats
        for row in x.iter_mut() {
            for v in row.iter_mut() {
                *v = r.gen_range(-24..=24) as f64 / 8.0;
            }
        }
        (x, 8, "dyadic")
    } else if fam < 97 {
        // feature values a few units in the last place apart (continuous data at its finest grain)
        let below_one = f64::from_bits(1.0f64.to_bits() - 8);
        let base = *[1.0f64, below_one, 0.1, 0.7, 3.0, -2.5, 1.0e-3, 12345.678].choose(r).unwrap();
        for row in x.iter_mut() {
            for v in row.iter_mut() {
                let k = r.gen_range(0..=5u64);
                *v = if f32mode { f32::from_bits((base as f32).to_bits() + k as u32) as f64 } else { ulps(base, k) };
            }
        }
        (x, 0, "adjacent")
    } else {
        // mixture: some constant features, one binary, the rest distinct
        for j in 0..p {
            let kind = r.gen_range(0..3);
            let mut perm: Vec<i64> = (0..n as i64).collect();
            perm.shuffle(r);
            let cst = r.gen_range(-3..=3);
            for i in 0..n {
                x[i][j] = match kind {
                    0 => cst as f64,
                    1 => (perm[i] % 2) as f64,
                    _ => perm[i] as f64,
                };
            }
        }
        (x, 1, "mixed")
    }
}

/// the float `k` units in the last place above `base` (towards larger magnitude)
fn ulps(base: f64, k: u64) -> f64 {
    f64::from_bits(base.to_bits() + k)
}

/// Order / structure families for a column of `n` integers (as the rows come): the classic
/// shapes that take a quicksort through its special paths.  `kind` 0..=11.
fn pattern(r: &mut StdRng, kind: usize, n: usize) -> Vec<i64> {
    let n_i = n as i64;
    let mut v: Vec<i64> = match kind {
        0 => (0..n_i).map(|i| 2 * (n_i - i)).collect(),                     // strictly decreasing
        1 | 2 | 3 => (0..n_i).map(|i| 2 * (n_i - i)).collect(),             // decreasing, one exception (below)
        4 | 5 => (0..n_i).map(|i| 2 * i).collect(),                         // increasing (one exception below)
        6 => (0..n_i).map(|i| if i < n_i / 2 { 2 * i } else { 2 * (n_i - i) - 1 }).collect(), // organ pipe
        7 => { let k = r.gen_range(2..=9i64); (0..n_i).map(|i| i % k * 10 + i / k).collect() } // saw tooth
        8 => {
            // median-of-three killer (Musser): pivots chosen from first / middle / last are bad
            let mut a = vec![0i64; n];
            let k = n / 2;
            for i in 0..k {
                if i % 2 == 0 { a[i] = i as i64 + 1; } else { a[i] = (k + i) as i64 + if k % 2 == 0 { 0 } else { 1 }; }
                if k + i < n { a[k + i] = 2 * (i as i64 + 1); }
            }
            if n % 2 == 1 { a[n - 1] = n_i + 1; }
            a
        }
        9 => { let k = r.gen_range(1..=3i64); (0..n_i).map(|i| (i * 7919) % k.max(1)).collect() } // few values
        10 => (0..n_i).map(|i| if i % 2 == 0 { i } else { 2 * n_i - i }).collect(),           // interleaved up / down
        _ => { let b = n_i / 3 + 1; (0..n_i).map(|i| (i / b) * 1000 - (i % b) * 2).collect() } // decreasing blocks, rising
    };
    match kind {
        1 => { if n >= 2 { v[n - 1] = v[n - 2] + 2 * r.gen_range(1..=4) + 1; } }      // last element larger than its predecessor
        2 => { if n >= 2 { v[0] = v[1] - 2 * r.gen_range(1..=4) - 1; } }               // first element smaller than its successor
        3 => { if n >= 3 { let i = r.gen_range(1..n - 1); v[i] = v[i - 1] + 1; } }     // one exception inside
        4 => { if n >= 2 { v[n - 1] = v[n - 2] - 2 * r.gen_range(1..=4) - 1; } }
        5 => { if n >= 2 { v[0] = v[1] + 2 * r.gen_range(1..=4) + 1; } }
        _ => {}
    }
    v
}

fn gen_queries(r: &mut StdRng, x: &[Vec<f64>], xden: i64, m: usize) -> Vec<Vec<f64>> {
    let n = x.len();
    let p = x[0].len();
    let mut q = Vec::new();
    for _ in 0..m {
        let mut row = vec![0.0; p];
        for j in 0..p {
            let a = x[r.gen_range(0..n)][j];
            let b = x[r.gen_range(0..n)][j];
            row[j] = match r.gen_range(0..5) {
                0 => a,                // a training value
                1 => (a + b) / 2.0,    // a midpoint: possibly exactly a threshold
                2 => a.min(b) - 1.0,   // below
                3 => a.max(b) + 1.0,   // above
                _ => {
                    if xden > 0 {
                        ((a * xden as f64).floor() + r.gen_range(-2..=2) as f64) / xden as f64
                    } else {
                        a + (r.gen::<f64>() - 0.5) * 0.1
                    }
                }
            };
        }
        q.push(row);
    }
    q
}

fn gen_case(r: &mut StdRng, nmax: usize) -> Case {
    // sizes: skewed towards small training sets, up to nmax rows and 6 features
    let n = match r.gen_range(0..100) {
        0..=34 => r.gen_range(2..=12),
        35..=69 => r.gen_range(13..=40),
        70..=89 => r.gen_range(41..=80),
        _ => r.gen_range(81..=150),
    }
    .min(nmax);
    let p = r.gen_range(1..=6usize);
    let backend: &'static str = match r.gen_range(0..100) {
        0..=64 => "dense",
        65..=76 => "dense32",
        77..=86 => "ndarray_f",
        87..=91 => "ndarray_c",
        _ => "nalgebra",
    };
    let f32mode = backend == "dense32";
    // (single precision: the tolerance of the mean grows with the number of rows, see MeanSlack)
    let n = if f32mode { n.min(60) } else { n };
    let (x, xden, fam) = gen_x(r, n, p, f32mode);
    let reg = r.gen_bool(0.4);
    let max_depth = if r.gen_bool(0.45) { 0 } else { r.gen_range(1..=8) };
    let (msl, mss) = match r.gen_range(0..10) {
        0..=2 => (1, if r.gen_bool(0.5) { 0 } else { 1 }), // size limits disabled
        3..=4 => (1, r.gen_range(0..=8)),
        _ => (r.gen_range(1..=5), r.gen_range(0..=8)),
    };
    // a latent score per row drives labels / targets so that the trees have structure
    let w: Vec<f64> = (0..p).map(|_| r.gen_range(-2..=2) as f64).collect();
    let score: Vec<f64> = x.iter().map(|row| row.iter().zip(w.iter()).map(|(a, b)| a * b).sum()).collect();
    let ranks = dense_ranks(&score);
    let top = *ranks.iter().max().unwrap() as f64;
    let (kind, crit, y, yden);
    let mut label_family: &'static str = "none";
    if reg {
        kind = "reg";
        crit = "mse";
        yden = *[1i64, 1, 2, 4].choose(r).unwrap();
        let mode = r.gen_range(0..10);
        let mut yy = Vec::new();
        for i in 0..n {
            let v: i64 = match mode {
                0 => 5,                                      // constant target
                1..=3 => r.gen_range(-20..=20),              // pure noise
                4..=5 => r.gen_range(0..=2),                 // few target values, many ties
                _ => (ranks[i] as f64 / top * 30.0).round() as i64 - 15 + r.gen_range(-3..=3),
            };
            yy.push(v.max(-20).min(20) as f64 / yden as f64);
        }
        y = yy;
    } else {
        kind = "cls";
        crit = *["gini", "entropy", "error"].choose(r).unwrap();
        yden = 1;
        let k = r.gen_range(2..=5usize).min(n);
        let (labels, lf) = pick_labels(r, k, f32mode);
        label_family = lf;
        let noise = *[0.0, 0.1, 0.3, 1.0].choose(r).unwrap();
        let mut yy: Vec<f64> = (0..n)
            .map(|i| {
                if r.gen::<f64>() < noise {
                    labels[r.gen_range(0..k)]
                } else {
                    labels[(((ranks[i] - 1) as f64 / top) * k as f64).floor() as usize % k]
                }
            })
            .collect();
        // the statement quantifies over >= 2 classes: make sure two are present
        if yy.iter().all(|&v| v == yy[0]) {
            let other = labels.iter().find(|&&l| l != yy[0]).unwrap();
            yy[n - 1] = *other;
        }
        if label_family == "signedzero" {
            for v in yy.iter_mut() {
                if *v == 0.0 && r.gen_bool(0.5) {
                    *v = -0.0;
                }
            }
        }
        y = yy;
    }
    let m = r.gen_range(2..=10usize);
    let mut q = gen_queries(r, &x, xden, m);
    if f32mode {
        for row in q.iter_mut() {
            for v in row.iter_mut() {
                *v = (*v as f32) as f64;
            }
        }
    }
    // rescaling exponents: small ones and far ones (tiny / huge magnitudes, still far from
    // under- and overflow of the element type)
    let shift = if r.gen_bool(0.55) {
        if f32mode { *[1, 2, 7, -30, -60, 30].choose(r).unwrap() } else { *[1, 2, 3, 7, 10, -1, -53, -60, -200, 60, 200].choose(r).unwrap() }
    } else {
        0
    };
    let mut c = Case { kind, crit, max_depth, msl, mss, x, y, q, xden, yden, family: fam.to_string(), shift, backend, expect: None, label_family,
                        entry: if r.gen_bool(0.3) { "trait" } else { "inherent" } };
    if r.gen_range(0..100) < 5 {
        near_max(r, &mut c);
    }
    c
}

/// Near-overflow magnitudes: the features become dyadic values in [1, 2) and the rescaling
/// exponent the largest one that keeps them finite (2^1023 in f64, 2^127 in f32), so that every
/// scaled value is finite while the sum of any two overflows.  Queries are training values and
/// midpoints (finite after scaling).
fn near_max(r: &mut StdRng, c: &mut Case) {
    let n = c.x.len();
    let p = c.x[0].len();
    for j in 0..p {
        let distinct = n <= 16 && r.gen_bool(0.6);
        let mut perm: Vec<i64> = (0..16).collect();
        perm.shuffle(r);
        for i in 0..n {
            let m = if distinct { perm[i] } else { r.gen_range(0..16) };
            c.x[i][j] = 1.0 + m as f64 / 16.0;
        }
    }
    c.q = (0..4).map(|_| (0..p).map(|j| {
        let a = c.x[r.gen_range(0..n)][j];
        let b = c.x[r.gen_range(0..n)][j];
        if r.gen_bool(0.5) { a } else { (a + b) / 2.0 }
    }).collect()).collect();
    c.xden = 32;
    c.family = "nearmax".to_string();
    c.shift = if c.backend == "dense32" { 127 } else { 1023 };
}

/// Training sets whose size straddles powers of two (block sizes, stack depths): a handful of
/// regression / entropy trees with one or two pairwise-distinct or structured features.
fn ladder_cases(r: &mut StdRng, sizes: &[usize]) -> Vec<Case> {
    let mut v = Vec::new();
    for &n in sizes.iter() {
        let p = r.gen_range(1..=2usize);
        let mut x = vec![vec![0.0; p]; n];
        for j in 0..p {
            let col: Vec<i64> = if r.gen_bool(0.5) {
                let mut perm: Vec<i64> = (0..n as i64).collect();
                perm.shuffle(r);
                perm
            } else {
                {
                let kind_i = *[1usize, 2, 6, 8, 11].choose(r).unwrap();
                pattern(r, kind_i, n)
            }
            };
            for i in 0..n {
                x[i][j] = col[i] as f64;
            }
        }
        let reg = r.gen_bool(0.6);
        let ranks = dense_ranks(&x.iter().map(|row| row[0]).collect::<Vec<f64>>());
        let y: Vec<f64> = (0..n).map(|i| if reg { ((ranks[i] * 37) % 41 - 20) as f64 } else { ((ranks[i] / 3) % 3) as f64 * 5.0 - 5.0 }).collect();
        let q = gen_queries(r, &x, 1, 6);
        v.push(Case { kind: if reg { "reg" } else { "cls" }, crit: if reg { "mse" } else { "entropy" }, max_depth: 0,
                      msl: r.gen_range(1..=3), mss: r.gen_range(0..=4), x, y, q, xden: 1, yden: 1,
                      family: "ladder".to_string(), shift: if r.gen_bool(0.5) { 5 } else { 0 },
                      backend: *["dense", "ndarray_f", "nalgebra"].choose(r).unwrap(), expect: None, label_family: "ladder",
                      entry: if r.gen_bool(0.5) { "trait" } else { "inherent" } });
    }
    v
}

/// hand-built boundary cases that every run contains
fn fixed_cases() -> Vec<Case> {
    let mut v = Vec::new();
    let mk = |kind: &'static str, crit: &'static str, md: u16, msl: usize, mss: usize, x: Vec<Vec<f64>>, y: Vec<f64>, fam: &str| Case {
        kind, crit, max_depth: md, msl, mss,
        q: vec![x[0].iter().map(|v| v + 0.5).collect(), x[0].iter().map(|v| v - 10.0).collect()],
        x, y, xden: 1, yden: 1, family: fam.to_string(), shift: 1, backend: "dense", expect: None, entry: "inherent", label_family: "fixed",
    };
    let col = |a: &[i64]| -> Vec<Vec<f64>> { a.iter().map(|&v| vec![v as f64]).collect() };
    let yv = |a: &[i64]| -> Vec<f64> { a.iter().map(|&v| v as f64).collect() };
    // two rows, the smallest admissible training set
    v.push(mk("cls", "gini", 0, 1, 0, col(&[0, 1]), yv(&[-7, 5]), "fixed"));
    v.push(mk("reg", "mse", 0, 1, 0, col(&[0, 1]), yv(&[3, -3]), "fixed"));
    // repeated feature values with conflicting labels
    v.push(mk("cls", "gini", 0, 1, 2, col(&[1, 1, 1, 2, 2, 3]), yv(&[0, 1, 0, 1, 1, 0]), "fixed"));
    v.push(mk("cls", "entropy", 0, 1, 2, col(&[1, 1, 2, 2, 3, 3]), yv(&[5, -1, 5, -1, 5, -1]), "fixed"));
    // a constant feature only: no threshold exists, the root stays a leaf
    v.push(mk("cls", "error", 0, 1, 2, col(&[4, 4, 4, 4]), yv(&[0, 1, 1, 0]), "fixed"));
    v.push(mk("reg", "mse", 0, 1, 2, col(&[4, 4, 4, 4]), yv(&[0, 1, 1, 0]), "fixed"));
    // leaf-size limit exactly attainable on one side only
    v.push(mk("reg", "mse", 0, 2, 2, col(&[0, 1, 2, 3, 4]), yv(&[0, 0, 9, 9, 9]), "fixed"));
    v.push(mk("reg", "mse", 0, 2, 4, col(&[0, 1, 2, 3]), yv(&[0, 5, 6, 20]), "fixed"));
    v.push(mk("cls", "gini", 0, 3, 2, col(&[0, 1, 2, 3, 4, 5]), yv(&[0, 0, 0, 1, 1, 1]), "fixed"));
    // neighbouring doubles: the midpoint of two adjacent floats is one of them
    for &(kind, crit) in [("reg", "mse"), ("cls", "gini")].iter() {
        let xs: Vec<Vec<f64>> = (0..6u64).map(|k| vec![ulps(1.0, k)]).collect();
        let mut c = mk(kind, crit, 0, 1, 0, xs, yv(&[0, 1, 0, 1, 0, 1]), "adjacent");
        c.xden = 0;
        c.q = vec![vec![1.0], vec![ulps(1.0, 3)]];
        v.push(c);
    }
    // neighbouring doubles below 1.0 and around 0.1 (spacing below machine epsilon)
    for &(kind, crit) in [("reg", "mse"), ("cls", "entropy")].iter() {
        for &base in [f64::from_bits(1.0f64.to_bits() - 8), 0.1f64].iter() {
            let xs: Vec<Vec<f64>> = (0..6u64).map(|k| vec![ulps(base, k)]).collect();
            let mut c = mk(kind, crit, 0, 1, 0, xs, yv(&[0, 1, 0, 1, 0, 1]), "adjacent");
            c.xden = 0;
            c.q = vec![vec![base], vec![ulps(base, 3)]];
            c.shift = -3;
            v.push(c);
        }
    }
    // tiny and huge magnitudes: the same integers times 2^-60, 2^-200, 2^60 (f64), 2^-30, 2^-60 (f32)
    let grid: Vec<Vec<f64>> = (0..9i64).map(|i| vec![(i % 3) as f64, ((i * 4) % 9) as f64, (8 - i) as f64]).collect();
    for &(backend, shift) in [("dense", -60), ("dense", -200), ("dense", 60), ("dense", 200), ("dense32", -30), ("dense32", -60), ("dense32", 30)].iter() {
        for &(kind, crit) in [("reg", "mse"), ("cls", "gini")].iter() {
            let mut c = mk(kind, crit, 0, 1, 1, grid.clone(), yv(&[0, 1, 2, 0, 1, 2, 2, 0, 1]), "farscale");
            c.shift = shift;
            c.backend = backend;
            v.push(c);
        }
    }
    // near-overflow magnitudes: values in [1,2) * 2^1023 (f64) / 2^127 (f32): finite, pairwise sums overflow
    for &backend in ["dense", "dense32"].iter() {
        for &(kind, crit) in [("reg", "mse"), ("cls", "gini")].iter() {
            let xs: Vec<Vec<f64>> = [3i64, 9, 0, 12, 6, 15, 1, 10].iter().map(|&m| vec![1.0 + m as f64 / 16.0, 1.0 + ((m * 5) % 16) as f64 / 16.0]).collect();
            let mut c = mk(kind, crit, 0, 1, 0, xs, yv(&[0, 1, 0, 2, 1, 2, 0, 1]), "nearmax");
            c.xden = 32;
            c.q = vec![vec![1.25, 1.5], vec![1.0 + 3.0 / 32.0, 1.0 + 9.0 / 32.0]];
            c.backend = backend;
            c.shift = if backend == "dense32" { 127 } else { 1023 };
            v.push(c);
        }
    }
    // structured row orders: a decreasing column with one exception at either end, organ pipe, ...
    {
        let mut r = StdRng::seed_from_u64(4242);
        for kind_i in 0..12usize {
            for &n in [8usize, 11, 20].iter() {
                let col = pattern(&mut r, kind_i, n);
                let xs: Vec<Vec<f64>> = col.iter().map(|&a| vec![a as f64]).collect();
                let ys: Vec<i64> = (0..n as i64).map(|i| (i * 7) % 5 - 2).collect();
                let reg = (kind_i + n) % 2 == 0;
                let mut c = mk(if reg { "reg" } else { "cls" }, if reg { "mse" } else { "gini" }, 0, 1, 0, xs, yv(&ys), "ordered");
                c.shift = 0;
                v.push(c);
            }
        }
    }
    // label sets with a special arithmetic shape (labels are arbitrary values, not class indices)
    {
        let feats: Vec<Vec<f64>> = [5i64, 1, 8, 3, 9, 0, 6, 2, 7, 4, 11, 10].iter().map(|&a| vec![a as f64, ((a * 5) % 12) as f64]).collect();
        let sets: Vec<(Vec<f64>, &'static str)> = vec![
            (vec![0.0, 0.5, 2.0], "fractional"),
            (vec![0.0, 0.25, 0.75, 3.0], "fractional"),
            (vec![0.0, 1.5, 2.5, 3.5, 4.0], "fractional"),
            (vec![0.25, 0.75], "colliding"),
            (vec![-0.5, 0.5], "colliding"),
            (vec![0.0, 1.0e-17], "tiny"),
            (vec![0.0, (2.0f64).powi(-60), (2.0f64).powi(-59)], "tiny"),
            (vec![1.0, ulps(1.0, 1), ulps(1.0, 2)], "tiny"),
            (vec![-1.0e300, 1.0e300, 0.001], "huge"),
            (vec![0.0, 1.0, 2.0], "indices"),
        ];
        for (i, (set, fam)) in sets.iter().enumerate() {
            let k = set.len();
            let ys: Vec<f64> = (0..12usize).map(|r| set[(r * 7 + r / 3 + i) % k]).collect();
            for &(crit, backend) in [("gini", "dense"), ("entropy", "nalgebra")].iter() {
                let mut c = mk("cls", crit, 0, 1, 0, feats.clone(), ys.clone(), "labels");
                c.label_family = fam;
                c.backend = backend;
                v.push(c);
            }
        }
        // 0.0 and -0.0 written for the same class
        let ys: Vec<f64> = (0..12usize).map(|r| match r % 3 { 0 => if r % 2 == 0 { 0.0 } else { -0.0 }, 1 => 1.0, _ => -2.5 }).collect();
        let mut c = mk("cls", "gini", 0, 1, 0, feats.clone(), ys, "labels");
        c.label_family = "signedzero";
        v.push(c);
        // more than 256 distinct classes
        let n = 600usize;
        let xs: Vec<Vec<f64>> = (0..n).map(|i| vec![((i * 7919) % n) as f64]).collect();
        let ys: Vec<f64> = (0..n).map(|i| ((((i * 7919) % n) / 2) as f64) * 0.5 - 20.0).collect();
        let mut c = mk("cls", "gini", 0, 2, 2, xs, ys, "manyclass");
        c.label_family = "manyclass";
        c.shift = 0;
        v.push(c);
    }
    // the other matrix back ends on a non-square set (a layout mix-up cannot go unnoticed)
    for &backend in ["ndarray_f", "ndarray_c", "nalgebra", "dense32"].iter() {
        for &(kind, crit) in [("reg", "mse"), ("cls", "gini"), ("cls", "error")].iter() {
            let mut c = mk(kind, crit, 0, 1, 1, grid.clone(), yv(&[0, 0, 1, 1, 2, 2, 0, 1, 2]), "backend");
            c.backend = backend;
            v.push(c);
        }
    }
    // depth limits on a chain that wants depth 4
    for md in 1..=5u16 {
        v.push(mk("reg", "mse", md, 1, 2, col(&[0, 1, 2, 3, 4, 5, 6, 7]), yv(&[0, 1, 3, 6, 10, 15, 21, 28]), "fixed"));
        v.push(mk("cls", "gini", md, 1, 2, col(&[0, 1, 2, 3, 4, 5, 6, 7]), yv(&[0, 1, 0, 1, 0, 1, 0, 1]), "fixed"));
    }
    // min_samples_split at, below and above the node size
    for mss in 1..=5usize {
        v.push(mk("reg", "mse", 0, 1, mss, col(&[0, 1, 2, 3]), yv(&[0, 1, 5, 9]), "fixed"));
        v.push(mk("cls", "error", 0, 1, mss, col(&[0, 1, 2, 3]), yv(&[0, 1, 0, 1]), "fixed"));
    }
    v
}

fn num(v: &Value) -> f64 {
    v.as_f64().unwrap_or(f64::NAN)
}

fn main() {
    let args: Vec<String> = std::env::args().skip(1).collect();
    let args = &args[..];
    silence_panics();
    let mode = arg(args, 0);
    let th = thorough();
    let mut run = 0i64;
    match mode {
        "gen-random" => {
            let mut out = Out::create(arg(args, 1));
            let mut r = rng(5);
            for c in fixed_cases() {
                run += 1;
                case_events(run, &c, &mut out);
            }
            let cnt: usize = std::env::var("C05_CASES").ok().and_then(|s| s.parse().ok()).unwrap_or(if th { 4000 } else { 330 });
            for _ in 0..cnt {
                let c = gen_case(&mut r, 150);
                run += 1;
                case_events(run, &c, &mut out);
            }
            // size ladder: a few (quick) / all (thorough) of the sizes around powers of two
            let mut sizes: Vec<usize> = vec![63, 64, 65, 127, 128, 129, 255, 256, 257, 511, 512, 513, 1023, 1024, 1025];
            if th {
                sizes.push(2049);
            } else {
                // one size from each third of the ladder
                sizes = vec![sizes[r.gen_range(0..6)], sizes[r.gen_range(6..12)], sizes[r.gen_range(12..15)]];
            }
            for c in ladder_cases(&mut r, &sizes) {
                run += 1;
                case_events(run, &c, &mut out);
            }
            let n = out.finish();
            println!("events={} runs={}", n, run);
        }
        "replay-spec" => {
            // lines: {kind, crit, maxDepth, msl, mss, X: [[int]], y: [int], expect: [...]}
            let lines = read_ndjson(arg(args, 1));
            let mut out = Out::create(arg(args, 2));
            let mut r = rng(77);
            for l in lines.iter() {
                let kind: &'static str = if l["kind"] == "cls" { "cls" } else { "reg" };
                let crit: &'static str = match l["crit"].as_str().unwrap_or("") {
                    "gini" => "gini",
                    "entropy" => "entropy",
                    "error" => "error",
                    _ => "mse",
                };
                // the model enumerates canonical (sorted) multisets of rows: present them in a
                // seeded random order
                let mut perm: Vec<usize> = (0..l["X"].as_array().unwrap().len()).collect();
                // (a model run that fixes the order of equal feature values to "by row index"
                // describes the rows in the order given)
                if l["ties"] != "stable" {
                    perm.shuffle(&mut r);
                }
                let x0: Vec<Vec<f64>> = l["X"].as_array().unwrap().iter()
                    .map(|r| r.as_array().unwrap().iter().map(num).collect()).collect();
                let y0: Vec<f64> = l["y"].as_array().unwrap().iter().map(num).collect();
                let x: Vec<Vec<f64>> = perm.iter().map(|&i| x0[i].clone()).collect();
                // class indices are mapped to non-contiguous, partly negative label values by a
                // monotone map (so that the index order of the sorted class list is unchanged)
                let y: Vec<f64> = perm.iter().map(|&i| y0[i])
                    .map(|v| if kind == "cls" { 7.0 * v - 5.0 } else { v }).collect();
                let q: Vec<Vec<f64>> = vec![x[0].iter().map(|v| v + 0.5).collect(), x[0].iter().map(|v| v - 1.0).collect()];
                let c = Case {
                    kind, crit,
                    max_depth: l["maxDepth"].as_u64().unwrap_or(0) as u16,
                    msl: l["msl"].as_u64().unwrap_or(1) as usize,
                    mss: l["mss"].as_u64().unwrap_or(2) as usize,
                    x, y, q, xden: 1, yden: 1, family: "model".to_string(), shift: 0, backend: "dense", entry: "inherent", label_family: "model",
                    expect: Some(l["expect"].clone()),
                };
                run += 1;
                case_events(run, &c, &mut out);
            }
            let n = out.finish();
            println!("events={} runs={}", n, run);
        }
        "gen-argsort" => {
            let mut out = Out::create(arg(args, 1));
            let mut r = rng(55);
            let cnt = if th { 3000 } else { 400 };
            let mut inputs: Vec<(Vec<i64>, &'static str)> = Vec::new();
            for i in 0..cnt {
                let n = if i < 40 { i + 1 } else { r.gen_range(1..=200usize) };
                let hi = *[1i64, 3, 10, 1000].choose(&mut r).unwrap();
                inputs.push(((0..n).map(|_| r.gen_range(-hi..=hi)).collect(), "random"));
            }
            // order families: every pattern at lengths around the insertion-sort cut-off (8) and
            // beyond, plus a ladder of lengths around powers of two and a few thousand
            let mut lens: Vec<usize> = vec![7, 8, 9, 10, 12, 15, 16, 17, 24, 33, 64, 100];
            if th {
                lens.extend([200usize, 300, 500].iter());
            }
            for kind in 0..12usize {
                for &n in lens.iter() {
                    inputs.push((pattern(&mut r, kind, n), "pattern"));
                }
                for _ in 0..(if th { 12 } else { 3 }) {
                    let n = r.gen_range(8..=300usize);
                    inputs.push((pattern(&mut r, kind, n), "pattern"));
                }
            }
            // a structured block embedded in random data (the special paths work on sub-arrays)
            for _ in 0..(if th { 300 } else { 40 }) {
                let n = r.gen_range(20..=300usize);
                let mut v: Vec<i64> = (0..n).map(|_| r.gen_range(-1000..=1000i64)).collect();
                let m = r.gen_range(8..=n.min(60));
                let at = r.gen_range(0..=n - m);
                let off = r.gen_range(-2000..=2000i64);
                let kind_i = r.gen_range(0..12);
                let blk = pattern(&mut r, kind_i, m);
                for i in 0..m {
                    v[at + i] = blk[i] + off;
                }
                inputs.push((v, "embedded"));
            }
            let mut ladder: Vec<usize> = vec![63, 64, 65, 127, 128, 129, 255, 256, 257, 511, 512, 513, 1023, 1024, 1025];
            if th {
                ladder.extend([2047usize, 2048, 2049, 5000].iter());
            }
            for &n in ladder.iter() {
                let kind = r.gen_range(0..13usize);
                let v = if kind == 12 { (0..n).map(|_| r.gen_range(-100000..=100000i64)).collect() } else { pattern(&mut r, kind, n) };
                inputs.push((v, "ladder"));
            }
            for (v, fam) in inputs.into_iter() {
                let vf: Vec<f64> = v.iter().map(|&a| a as f64).collect();
                run += 1;
                let res = guard(|| {
                    let mut w = vf.clone();
                    let idx = w.quick_argsort_mut();
                    (idx, w)
                });
                match res {
                    Ok((idx, w)) => out.emit(json!({"run": run, "ev": "ArgSort", "status": "ok", "family": fam, "v": v,
                        "idx": idx, "sorted": w.iter().map(|&a| int_exact(a).unwrap_or(-99999)).collect::<Vec<i64>>()})),
                    Err(_) => out.emit(json!({"run": run, "ev": "ArgSort", "status": "panic", "family": fam, "v": v})),
                }
            }
            let n = out.finish();
            println!("events={} runs={}", n, run);
        }
        _ => {
            eprintln!("unknown c05 mode {}", mode);
            std::process::exit(2);
        }
    }
}
