//! C17 — distance functions.  Drives `Distances::{euclidian, manhattan, minkowski, hamming,
//! mahalanobis}` / `Distance::distance` (and `Mahalanobis::new_from_covariance`) of the real
//! library on integer-valued vectors (optionally rescaled by an exact power of two) in f64
//! and f32, and records what they returned.
//!
//! No property logic lives here.  Every event carries the integer inputs and, per call,
//! the projection `R` of the returned float `v` (after exact division by the power of two
//! the inputs were multiplied with):
//!     ok    v finite and both quantised values within the integer range of the spec
//!     sgn   sign of v  (-1, 0, 1; exact)
//!     fx    round(v * 2^S)                      fixed point, scale S recorded in the event
//!     pw    round(v^P * M * 2^T)                P, M fixed per kind (see `proj`), monotone in v >= 0
//!     bits  the IEEE-754 pattern of the value as returned, four 16-bit pieces
//! Whether those numbers are right is decided by spec/metrics/DistancesTrace.tla under TLC.
use rand::rngs::StdRng;
use rand::Rng;
use serde_json::{json, Value};
use smartcore::linalg::naive::dense_matrix::DenseMatrix;
#[allow(unused_imports)]
use smartcore::linalg::Matrix;
use smartcore::math::distance::mahalanobis::Mahalanobis;
use smartcore::math::distance::{Distance, Distances};
use vutil::*;

// ---------------------------------------------------------------------------- projections

fn bits16(v: f64) -> Vec<i64> {
    let b = v.to_bits();
    vec![
        ((b >> 48) & 0xffff) as i64,
        ((b >> 32) & 0xffff) as i64,
        ((b >> 16) & 0xffff) as i64,
        (b & 0xffff) as i64,
    ]
}

/// `raw`: the value the library returned (an f32 result widened exactly to f64);
/// `unscale`: exact power of two undoing the input scaling; `pp`, `mult`: the power and the
/// integer multiplier of the monotone projection `pw`.
fn proj(raw: f64, unscale: f64, s: u32, t: u32, pp: i32, mult: f64) -> Value {
    let v = raw * unscale;
    let qf = Q::with_limit(s, 1.0e9);
    let qp = Q::with_limit(t, 1.0e9);
    let fx = qf.x(v);
    let pw = qp.x(v.powi(pp) * mult);
    let sgn = if v > 0.0 {
        1
    } else if v < 0.0 {
        -1
    } else {
        0
    };
    json!({"ok": qf.ok() && qp.ok(), "sgn": sgn, "fx": fx, "pw": pw, "bits": bits16(raw)})
}

fn no_result() -> Value {
    json!({"ok": false, "sgn": 0, "fx": 0, "pw": 0, "bits": [0, 0, 0, 0]})
}

// ---------------------------------------------------------------------------- calls

macro_rules! dist_impl {
    ($fname:ident, $t:ty) => {
        /// one call of the public API; integer inputs multiplied by 2^e (exact)
        fn $fname(kind: &str, p: u16, a: &[i64], b: &[i64], e: i32) -> f64 {
            let s = 2f64.powi(e);
            let av: Vec<$t> = a.iter().map(|&v| (v as f64 * s) as $t).collect();
            let bv: Vec<$t> = b.iter().map(|&v| (v as f64 * s) as $t).collect();
            let r: $t = match kind {
                "man" => Distances::manhattan().distance(&av, &bv),
                "euc" => Distances::euclidian().distance(&av, &bv),
                "mink" => Distances::minkowski(p).distance(&av, &bv),
                "ham" => Distances::hamming().distance(&av, &bv),
                "hami" => {
                    let ai: Vec<i32> = a.iter().map(|&v| v as i32).collect();
                    let bi: Vec<i32> = b.iter().map(|&v| v as i32).collect();
                    Distances::hamming().distance(&ai, &bi)
                }
                _ => panic!("harness: unknown kind"),
            };
            r as f64
        }
    };
}
dist_impl!(dist64, f64);
dist_impl!(dist32, f32);

fn dist(prec: u32, kind: &str, p: u16, a: &[i64], b: &[i64], e: i32) -> Result<f64, String> {
    guard(|| {
        if prec == 52 {
            dist64(kind, p, a, b, e)
        } else {
            dist32(kind, p, a, b, e)
        }
    })
}

/// A constructed Mahalanobis object of one float type on one matrix back end, reduced to
/// its `distance` function (integer vectors times 2^e in, the returned float widened to f64 out).
type Maha = Box<dyn Fn(&[i64], &[i64], i32) -> f64>;

pub const BACKENDS: [&str; 4] = ["dense", "ndarray", "ndarray-f", "nalgebra"];

macro_rules! maha_impl {
    ($fname:ident, $t:ty) => {
        /// covariance (entries * 4^e) or data rows (entries * 2^e) on the given back end:
        /// smartcore's DenseMatrix, ndarray (row-major / column-major layout), nalgebra
        fn $fname(backend: &str, mode: &str, mat: &[Vec<i64>], e: i32) -> Maha {
            let s = if mode == "cov" { 4f64.powi(e) } else { 2f64.powi(e) };
            let (nr, nc) = (mat.len(), mat[0].len());
            let rows: Vec<Vec<$t>> = mat.iter().map(|r| r.iter().map(|&v| (v as f64 * s) as $t).collect()).collect();
            let flat: Vec<$t> = rows.iter().flatten().cloned().collect();
            macro_rules! finish {
                ($m:expr) => {{
                    let m = $m;
                    let d = if mode == "cov" { Mahalanobis::new_from_covariance(&m) } else { Distances::mahalanobis(&m) };
                    Box::new(move |a: &[i64], b: &[i64], e: i32| -> f64 {
                        let s = 2f64.powi(e);
                        let av: Vec<$t> = a.iter().map(|&v| (v as f64 * s) as $t).collect();
                        let bv: Vec<$t> = b.iter().map(|&v| (v as f64 * s) as $t).collect();
                        d.distance(&av, &bv) as f64
                    }) as Maha
                }};
            }
            match backend {
                "dense" => finish!(DenseMatrix::from_2d_vec(&rows)),
                "ndarray" => finish!(ndarray::Array2::<$t>::from_shape_vec((nr, nc), flat).unwrap()),
                "ndarray-f" => {
                    // same logical matrix stored column-major
                    let mut colmajor: Vec<$t> = Vec::with_capacity(nr * nc);
                    for j in 0..nc {
                        for i in 0..nr {
                            colmajor.push(rows[i][j]);
                        }
                    }
                    finish!(ndarray::Array2::<$t>::from_shape_vec((nc, nr), colmajor).unwrap().reversed_axes())
                }
                _ => finish!(nalgebra::DMatrix::<$t>::from_row_slice(nr, nc, &flat)),
            }
        }
    };
}
maha_impl!(maha_obj64, f64);
maha_impl!(maha_obj32, f32);

fn maha_new(prec: u32, backend: &str, mode: &str, mat: &[Vec<i64>], e: i32) -> Result<Maha, String> {
    guard(|| if prec == 52 { maha_obj64(backend, mode, mat, e) } else { maha_obj32(backend, mode, mat, e) })
}

fn maha_dist(m: &Maha, a: &[i64], b: &[i64], e: i32) -> Result<f64, String> {
    guard(|| m(a, b, e))
}

// ---------------------------------------------------------------------------- scales

fn maxdiff(x: &[i64], y: &[i64], z: &[i64]) -> i128 {
    let mut m: i128 = 0;
    for i in 0..x.len() {
        for &(a, b) in [(x[i], y[i]), (y[i], z[i]), (x[i], z[i])].iter() {
            m = m.max((a as i128 - b as i128).abs());
        }
    }
    m
}

fn ilog2_floor(v: i128) -> u32 {
    // v >= 1
    127 - (v as u128).leading_zeros()
}

/// Quantisation scales are chosen from the *inputs* only, so that every integer the
/// specification has to form stays below 2^30: n * maxdiff^pp * 2^T < 2^29 and
/// n * maxdiff * 2^S < 2^27.  `None`: the case does not fit and is skipped (counted).
fn scales(kind: &str, pp: u32, x: &[i64], y: &[i64], z: &[i64]) -> Option<(u32, u32)> {
    if kind == "ham" || kind == "hami" {
        return Some((16, 0));
    }
    let n = x.len() as i128;
    let md = maxdiff(x, y, z).max(1);
    let mut bp: i128 = n;
    for _ in 0..pp {
        bp = bp.saturating_mul(md);
        if bp >= (1 << 29) {
            return None;
        }
    }
    let t = (ilog2_floor((1i128 << 29) / bp.max(1))).min(10);
    let b1 = n * md;
    if b1 >= (1 << 27) {
        return None;
    }
    let s = (ilog2_floor((1i128 << 27) / b1)).min(16);
    Some((s, t))
}

fn power_of(kind: &str, p: u16) -> u32 {
    match kind {
        "man" | "ham" | "hami" => 1,
        "euc" => 2,
        _ => p as u32,
    }
}

// ---------------------------------------------------------------------------- events

/// One event = one (kind, p, precision, scale, x, y, z): the five calls d(x,y), d(y,x),
/// d(x,x), d(y,z), d(x,z) plus, for Minkowski of order 1 / 2, the Manhattan / Euclidean
/// value of (x,y).
fn dist_event(run: i64, kind: &str, p: u16, prec: u32, e: i32, x: &[i64], y: &[i64], z: &[i64]) -> Option<Value> {
    let pp = power_of(kind, p);
    let (s, t) = scales(kind, pp, x, y, z)?;
    let ham = kind == "ham" || kind == "hami";
    let e = if kind == "hami" { 0 } else { e };
    let unscale = if ham { 1.0 } else { 2f64.powi(-e) };
    let mult = if ham { x.len() as f64 } else { 1.0 };
    let pairs: [(&str, &[i64], &[i64]); 5] = [("xy", x, y), ("yx", y, x), ("xx", x, x), ("yz", y, z), ("xz", x, z)];
    let mut ev = json!({"run": run, "ev": "Dist", "kind": kind, "p": p, "prec": prec, "e": e, "S": s, "T": t,
                        "x": x, "y": y, "z": z});
    let mut status = "ok";
    for (name, a, b) in pairs.iter() {
        match dist(prec, kind, p, a, b, e) {
            Ok(v) => ev[*name] = proj(v, unscale, s, t, pp as i32, mult),
            Err(_) => {
                status = "panic";
                ev[*name] = no_result();
            }
        }
    }
    let alt_kind = if kind == "mink" && p == 1 {
        "man"
    } else if kind == "mink" && p == 2 {
        "euc"
    } else {
        "none"
    };
    ev["alt"] = if alt_kind != "none" {
        match dist(prec, alt_kind, 0, x, y, e) {
            Ok(v) => {
                let r = proj(v, unscale, s, t, pp as i32, 1.0);
                json!({"kind": alt_kind, "ok": r["ok"], "fx": r["fx"]})
            }
            Err(_) => json!({"kind": alt_kind, "ok": false, "fx": 0}),
        }
    } else {
        json!({"kind": "none", "ok": false, "fx": 0})
    };
    ev["status"] = json!(status);
    Some(ev)
}

fn mismatch_event(run: i64, kind: &str, p: u16, prec: u32, x: &[i64], y: &[i64]) -> Value {
    let status = match dist(prec, kind, p, x, y, 0) {
        Ok(_) => "ok",
        Err(_) => "panic",
    };
    json!({"run": run, "ev": "Mismatch", "kind": kind, "p": p, "prec": prec, "x": x, "y": y, "status": status})
}

const MAHA_S: u32 = 10;

/// scale of the squared distance: smaller for orders 4 and 5, whose exact numerators are larger
fn maha_t(order: usize) -> u32 {
    if order <= 3 { 8 } else { 4 }
}

fn maha_event(run: i64, mode: &str, mat: &[Vec<i64>], prec: u32, e: i32, x: &[i64], y: &[i64], z: &[i64]) -> Value {
    maha_event_on(run, "dense", mode, mat, prec, e, x, y, z)
}

#[allow(clippy::too_many_arguments)]
fn maha_event_on(run: i64, backend: &str, mode: &str, mat: &[Vec<i64>], prec: u32, e: i32, x: &[i64], y: &[i64], z: &[i64]) -> Value {
    #[allow(non_snake_case)]
    let MAHA_T = maha_t(mat[0].len());
    let mut ev = json!({"run": run, "ev": "Maha", "backend": backend, "mode": mode, "mat": mat, "prec": prec, "e": e,
                        "S": MAHA_S, "T": MAHA_T, "x": x, "y": y, "z": z});
    let names = ["xy", "yx", "xx", "yz", "xz"];
    let m = match maha_new(prec, backend, mode, mat, e) {
        Ok(m) => m,
        Err(_) => {
            for n in names.iter() {
                ev[*n] = no_result();
            }
            ev["alt"] = json!({"kind": "euc", "ok": false, "fx": 0});
            ev["status"] = json!("ctor-panic");
            return ev;
        }
    };
    let pairs: [(&str, &[i64], &[i64]); 5] = [("xy", x, y), ("yx", y, x), ("xx", x, x), ("yz", y, z), ("xz", x, z)];
    let mut status = "ok";
    for (name, a, b) in pairs.iter() {
        match maha_dist(&m, a, b, e) {
            // the Mahalanobis distance is invariant under the joint rescaling: nothing to undo
            Ok(v) => ev[*name] = proj(v, 1.0, MAHA_S, MAHA_T, 2, 1.0),
            Err(_) => {
                status = "panic";
                ev[*name] = no_result();
            }
        }
    }
    ev["alt"] = match dist(prec, "euc", 0, x, y, 0) {
        Ok(v) => {
            let r = proj(v, 1.0, MAHA_S, MAHA_T, 2, 1.0);
            json!({"kind": "euc", "ok": r["ok"], "fx": r["fx"]})
        }
        Err(_) => json!({"kind": "euc", "ok": false, "fx": 0}),
    };
    ev["status"] = json!(status);
    ev
}

fn maha_mismatch_event(run: i64, mat: &[Vec<i64>], prec: u32, x: &[i64], y: &[i64]) -> Value {
    let status = match maha_new(prec, "dense", "cov", mat, 0) {
        Err(_) => "ctor-panic",
        Ok(m) => match maha_dist(&m, x, y, 0) {
            Ok(_) => "ok",
            Err(_) => "panic",
        },
    };
    json!({"run": run, "ev": "MahaMismatch", "mat": mat, "prec": prec, "x": x, "y": y, "status": status})
}

// ---------------------------------------------------------------------------- generators

const KINDS: [(&str, u16); 12] = [
    ("man", 0), ("euc", 0), ("mink", 1), ("mink", 2), ("mink", 3), ("mink", 4), ("mink", 5),
    ("mink", 6), ("mink", 7), ("mink", 8), ("ham", 0), ("hami", 0),
];

fn all_vectors(vals: &[i64], len: usize) -> Vec<Vec<i64>> {
    let mut out: Vec<Vec<i64>> = vec![vec![]];
    for _ in 0..len {
        let mut nx = Vec::new();
        for v in out.iter() {
            for &a in vals {
                let mut w = v.clone();
                w.push(a);
                nx.push(w);
            }
        }
        out = nx;
    }
    out
}

fn rvec(r: &mut StdRng, len: usize, m: i64) -> Vec<i64> {
    (0..len).map(|_| r.gen_range(-m..=m)).collect()
}

struct Gen {
    out: Out,
    run: i64,
    skipped: usize,
}

impl Gen {
    fn all_kinds(&mut self, precs: &[u32], e: i32, x: &[i64], y: &[i64], z: &[i64]) {
        for &(k, p) in KINDS.iter() {
            for &prec in precs {
                self.one(k, p, prec, e, x, y, z);
            }
        }
    }
    fn one(&mut self, k: &str, p: u16, prec: u32, e: i32, x: &[i64], y: &[i64], z: &[i64]) {
        self.run += 1;
        match dist_event(self.run, k, p, prec, e, x, y, z) {
            Some(ev) => self.out.emit(ev),
            None => self.skipped += 1,
        }
    }
}

/// exhaustive small domain: vectors over {-2..2}
fn gen_small(g: &mut Gen, r: &mut StdRng, th: bool) {
    let vals = [-2i64, -1, 0, 1, 2];
    // (a) every pair (x,y) of length <= Lp, z drawn at random
    let lp = if th { 3 } else { 2 };
    for len in 1..=lp {
        let vs = all_vectors(&vals, len);
        for x in vs.iter() {
            for y in vs.iter() {
                let z = &vs[r.gen_range(0..vs.len())];
                if len == 3 {
                    // 15 625 pairs: every kind in f64, f32 for a rotating third of the kinds
                    for (i, &(k, p)) in KINDS.iter().enumerate() {
                        g.one(k, p, 52, 0, x, y, z);
                        if (g.run as usize + i) % 3 == 0 {
                            g.one(k, p, 23, 0, x, y, z);
                        }
                    }
                } else {
                    g.all_kinds(&[52, 23], 0, x, y, z);
                }
            }
        }
    }
    if !th {
        let vs = all_vectors(&vals, 3);
        for _ in 0..700 {
            let x = &vs[r.gen_range(0..vs.len())];
            let y = &vs[r.gen_range(0..vs.len())];
            let z = &vs[r.gen_range(0..vs.len())];
            g.all_kinds(&[52, 23], 0, x, y, z);
        }
    }
    // (b) every triple of length <= Lt
    let lt = if th { 2 } else { 1 };
    for len in 1..=lt {
        let vs = all_vectors(&vals, len);
        for x in vs.iter() {
            for y in vs.iter() {
                for z in vs.iter() {
                    if len == 2 {
                        // 15 625 triples: the four structurally different kinds, f64; one f32
                        for &(k, p) in [("man", 0u16), ("euc", 0), ("mink", 3), ("mink", 8)].iter() {
                            g.one(k, p, 52, 0, x, y, z);
                        }
                        g.one("mink", 5, 23, 0, x, y, z);
                    } else {
                        g.all_kinds(&[52, 23], 0, x, y, z);
                    }
                }
            }
        }
    }
    if !th {
        let vs = all_vectors(&vals, 2);
        for _ in 0..500 {
            let x = &vs[r.gen_range(0..vs.len())];
            let y = &vs[r.gen_range(0..vs.len())];
            let z = &vs[r.gen_range(0..vs.len())];
            g.all_kinds(&[52, 23], 0, x, y, z);
        }
    }
}

/// seeded random larger cases: lengths 1..30, components up to 1000 (less for high orders so
/// that the exact power sums fit the specification's integers), power-of-two rescaling
/// ("large and tiny magnitudes"), equal vectors, one differing coordinate, collinear triples
/// (triangle inequality tight), sparse vectors.
fn gen_random(g: &mut Gen, r: &mut StdRng, th: bool) {
    let cnt = if th { 60000 } else { 9000 };
    for it in 0..cnt {
        let (kind, p0) = KINDS[r.gen_range(0..KINDS.len())];
        let p = if kind == "mink" && r.gen_bool(0.15) { r.gen_range(1..=8) } else { p0 };
        let pp = power_of(kind, p);
        let prec: u32 = if r.gen_bool(0.4) { 23 } else { 52 };
        let len: usize = match r.gen_range(0..10) {
            0 => 1,
            1 => 30,
            2 | 3 => r.gen_range(2..=4),
            _ => r.gen_range(1..=30),
        };
        // bound M on |component| with len * (2M)^pp < 2^29
        let mut m: i64 = 1000;
        let ham = kind == "ham" || kind == "hami";
        if !ham {
            loop {
                let mut b: i128 = len as i128;
                for _ in 0..pp {
                    b = b.saturating_mul(2 * m as i128);
                }
                if b < (1 << 29) || m == 1 {
                    break;
                }
                m = (m * 3) / 4;
                if m < 1 {
                    m = 1;
                }
            }
        } else {
            m = [1, 2, 3, 1000][r.gen_range(0..4)];
        }
        let h = (m / 2).max(1);
        let shape = if it < 40 {
            it % 6
        } else {
            [0, 0, 0, 0, 0, 0, 0, 3, 3, 3, 3, 3, 2, 2, 2, 4, 4, 1, 1, 5][r.gen_range(0..20)]
        };
        let (x, y, z) = match shape {
            0 => (rvec(r, len, m), rvec(r, len, m), rvec(r, len, m)),
            1 => {
                let x = rvec(r, len, m);
                (x.clone(), x, rvec(r, len, m))
            }
            2 => {
                let x = rvec(r, len, m);
                let mut y = x.clone();
                let i = r.gen_range(0..len);
                y[i] = r.gen_range(-m..=m);
                let mut z = y.clone();
                let j = r.gen_range(0..len);
                z[j] = r.gen_range(-m..=m);
                (x, y, z)
            }
            3 => {
                // collinear: y = x + a u, z = x + (a+b) u
                let q = (m / 4).max(0);
                let x = rvec(r, len, h.min(m - 2 * q).max(0));
                let u: Vec<i64> = (0..len).map(|_| r.gen_range(-1..=1)).collect();
                let a = r.gen_range(0..=q);
                let b = r.gen_range(0..=q);
                let y: Vec<i64> = (0..len).map(|i| x[i] + a * u[i]).collect();
                let z: Vec<i64> = (0..len).map(|i| x[i] + (a + b) * u[i]).collect();
                (x, y, z)
            }
            4 => {
                let sp = |r: &mut StdRng| -> Vec<i64> {
                    (0..len).map(|_| if r.gen_bool(0.8) { 0 } else { r.gen_range(-m..=m) }).collect()
                };
                (sp(r), sp(r), sp(r))
            }
            _ => {
                let x = rvec(r, len, m);
                (x.clone(), x.clone(), x)
            }
        };
        // exact power-of-two rescaling; the range keeps every intermediate power of the
        // closed form far inside the exponent range of the type
        let lg = 64 - (2 * m as u64 + 1).leading_zeros() as i32; // > log2(max diff)
        let emax = if prec == 52 { (900 / pp as i32 - lg).clamp(0, 60) } else { (100 / pp as i32 - lg).clamp(0, 8) };
        let e = if r.gen_bool(0.4) || emax == 0 { 0 } else { r.gen_range(-emax..=emax) };
        g.one(kind, p, prec, e, &x, &y, &z);
    }
}

fn gen_mismatch(g: &mut Gen, r: &mut StdRng, th: bool) {
    for &(k, p) in KINDS.iter() {
        for &prec in [52u32, 23].iter() {
            for lx in 0..=4usize {
                for ly in 0..=4usize {
                    if lx != ly {
                        g.run += 1;
                        let ev = mismatch_event(g.run, k, p, prec, &rvec(r, lx, 3), &rvec(r, ly, 3));
                        g.out.emit(ev);
                    }
                }
            }
            for _ in 0..(if th { 40 } else { 6 }) {
                let lx = r.gen_range(1..=30usize);
                let mut ly = r.gen_range(1..=30usize);
                if ly == lx {
                    ly = lx % 30 + 1;
                }
                g.run += 1;
                let ev = mismatch_event(g.run, k, p, prec, &rvec(r, lx, 50), &rvec(r, ly, 50));
                g.out.emit(ev);
            }
        }
    }
    // Mahalanobis: vector length differs from the order of the covariance
    let mats: Vec<Vec<Vec<i64>>> = vec![
        vec![vec![2]],
        vec![vec![2, 1], vec![1, 2]],
        vec![vec![1, 0], vec![0, 1]],
        vec![vec![2, 0, 1], vec![0, 3, 0], vec![1, 0, 2]],
    ];
    for mat in mats.iter() {
        let n = mat.len();
        for &prec in [52u32, 23].iter() {
            for lx in 0..=4usize {
                for ly in 0..=4usize {
                    if lx != n || ly != n {
                        g.run += 1;
                        let ev = maha_mismatch_event(g.run, mat, prec, &rvec(r, lx, 3), &rvec(r, ly, 3));
                        g.out.emit(ev);
                    }
                }
            }
        }
    }
}

fn ident(n: usize) -> Vec<Vec<i64>> {
    (0..n).map(|i| (0..n).map(|j| if i == j { 1 } else { 0 }).collect()).collect()
}

fn maha_scale(r: &mut StdRng, prec: u32) -> i32 {
    if r.gen_bool(0.5) {
        0
    } else if prec == 52 {
        r.gen_range(-10..=10)
    } else {
        r.gen_range(-3..=3)
    }
}

fn gen_maha(g: &mut Gen, r: &mut StdRng, th: bool) {
    // (a) every symmetric integer 2x2 matrix [[a,b],[b,c]], a,c in 1..4, b in -4..4 (positive
    //     definite or not: the specification decides which ones are constrained)
    let per = if th { 160 } else { 14 };
    for a in 1..=4i64 {
        for c in 1..=4i64 {
            for b in -4..=4i64 {
                let mat = vec![vec![a, b], vec![b, c]];
                let spd = a * c - b * b > 0;
                let reps = if spd { per } else { 2 };
                for i in 0..reps {
                    let prec = if i % 3 == 2 { 23 } else { 52 };
                    let (x, y, z) = (rvec(r, 2, 2), rvec(r, 2, 2), rvec(r, 2, 2));
                    let (y, z) = match i % 7 {
                        5 => (x.clone(), z),
                        6 => {
                            // collinear
                            let u = rvec(r, 2, 1);
                            (vec![x[0] + u[0], x[1] + u[1]], vec![x[0] + 2 * u[0], x[1] + 2 * u[1]])
                        }
                        _ => (y, z),
                    };
                    g.run += 1;
                    let e = maha_scale(r, prec);
                    let ev = maha_event(g.run, "cov", &mat, prec, e, &x, &y, &z);
                    g.out.emit(ev);
                }
            }
        }
    }
    // (b) identity covariance, orders 1..3 (must coincide with Euclidean), and 1x1
    for n in 1..=3usize {
        let cnt = if th { 1500 } else { 150 };
        for i in 0..cnt {
            let prec = if i % 3 == 2 { 23 } else { 52 };
            g.run += 1;
            let e = maha_scale(r, prec);
            let ev = maha_event(g.run, "cov", &ident(n), prec, e, &rvec(r, n, 2), &rvec(r, n, 2), &rvec(r, n, 2));
            g.out.emit(ev);
        }
    }
    for s in 1..=4i64 {
        for i in 0..(if th { 40 } else { 6 }) {
            let prec = if i % 2 == 1 { 23 } else { 52 };
            g.run += 1;
            let ev = maha_event(g.run, "cov", &[vec![s]], prec, 0, &rvec(r, 1, 2), &rvec(r, 1, 2), &rvec(r, 1, 2));
            g.out.emit(ev);
        }
    }
    // (c) 3x3: Sigma = B B^T with B integer lower triangular, positive diagonal
    let cnt = if th { 4000 } else { 400 };
    for i in 0..cnt {
        let mut b = vec![vec![0i64; 3]; 3];
        for ii in 0..3 {
            for jj in 0..=ii {
                b[ii][jj] = if ii == jj { r.gen_range(1..=2) } else { r.gen_range(-2..=2) };
            }
        }
        let mut mat = vec![vec![0i64; 3]; 3];
        for ii in 0..3 {
            for jj in 0..3 {
                mat[ii][jj] = (0..3).map(|k| b[ii][k] * b[jj][k]).sum();
            }
        }
        for j in 0..(if th { 4 } else { 3 }) {
            let prec = if (i + j) % 3 == 2 { 23 } else { 52 };
            g.run += 1;
            let e = maha_scale(r, prec);
            let ev = maha_event(g.run, "cov", &mat, prec, e, &rvec(r, 3, 2), &rvec(r, 3, 2), &rvec(r, 3, 2));
            g.out.emit(ev);
        }
    }
    // (d) built from data rows (sample covariance, divisor m-1)
    let cnt = if th { 6000 } else { 700 };
    for i in 0..cnt {
        let n = [2usize, 2, 3, 1][i % 4];
        let (m, v) = match n {
            1 => (r.gen_range(2..=8usize), 5i64),
            2 => (r.gen_range(3..=8usize), 5i64),
            _ => (r.gen_range(4..=5usize), 3i64),
        };
        let data: Vec<Vec<i64>> = (0..m).map(|_| (0..n).map(|_| r.gen_range(0..=v)).collect()).collect();
        let q = |r: &mut StdRng| -> Vec<i64> { (0..n).map(|_| r.gen_range(0..=v)).collect() };
        let prec = if i % 3 == 2 { 23 } else { 52 };
        let e = maha_scale(r, prec);
        let x = if i % 5 == 0 { data[0].clone() } else { q(r) };
        let (y, z) = (q(r), q(r));
        g.run += 1;
        let ev = maha_event(g.run, "data", &data, prec, e, &x, &y, &z);
        g.out.emit(ev);
    }
}

/// Size ladder: vector lengths around the powers of two 64..1024 (block sizes, recursion
/// thresholds of summation schemes), a few odd composites and two lengths in the thousands,
/// for every distance kind, dense random differences (every coordinate contributes), f64
/// and f32.  The closed forms stay O(n) for TLC.
const LADDER: [usize; 21] = [63, 64, 65, 101, 127, 128, 129, 130, 255, 256, 257, 511, 512, 513, 785, 1023, 1024, 1025, 2049, 3000, 4097];

fn gen_ladder(g: &mut Gen, r: &mut StdRng, th: bool) {
    for (li, &len) in LADDER.iter().enumerate() {
        // thorough: every kind (the structurally different ones for the longest vectors);
        // quick: Euclidean and Manhattan at every length, the other kinds in rotation
        let rot: [(&str, u16); 6] = [("mink", 3), ("ham", 0), ("mink", 2), ("hami", 0), ("mink", 7), ("mink", 1)];
        if !th && (len == 2049 || len == 3000) {
            continue;
        }
        let kinds: Vec<(&str, u16)> = if !th && len > 1100 {
            vec![("euc", 0), ("man", 0)]
        } else if !th {
            vec![("euc", 0), ("man", 0), rot[li % 6]]
        } else if len > 1100 {
            vec![("man", 0), ("euc", 0), ("mink", 3), ("ham", 0)]
        } else {
            KINDS.to_vec()
        };
        for &(kind, p) in kinds.iter() {
            let pp = power_of(kind, p);
            let ham = kind == "ham" || kind == "hami";
            // bound M on |component| with len * (2M)^pp < 2^29
            let mut m: i64 = 400;
            if ham {
                m = 2;
            } else {
                loop {
                    let mut b: i128 = len as i128;
                    for _ in 0..pp {
                        b = b.saturating_mul(2 * m as i128);
                    }
                    if b < (1 << 29) || m == 1 {
                        break;
                    }
                    m = ((m * 3) / 4).max(1);
                }
            }
            let reps = if th { 3 } else { 1 };
            for rep in 0..reps {
                let x = rvec(r, len, m);
                // every coordinate differs (dense), or only a handful do (sparse): a scheme that
                // loses one coordinate must lose a difference that matters either way
                let y: Vec<i64> = if rep % 2 == 0 || ham {
                    x.iter().map(|&v| if v >= 0 { v - r.gen_range(1..=m) } else { v + r.gen_range(1..=m) }).collect()
                } else {
                    x.iter().map(|&v| if r.gen_bool(0.05) { -v + 1 } else { v }).collect()
                };
                let z = rvec(r, len, m);
                for &prec in [52u32, 23].iter() {
                    if !th && prec == 23 && (li + kind.len()) % 3 != 0 {
                        continue; // quick: f32 for a third of the cases
                    }
                    let lg = 64 - (2 * m as u64 + 1).leading_zeros() as i32;
                    let emax = if prec == 52 { (900 / pp as i32 - lg).clamp(0, 60) } else { (100 / pp as i32 - lg).clamp(0, 8) };
                    let e = if (li + rep) % 2 == 0 || emax == 0 { 0 } else { r.gen_range(-emax..=emax) };
                    g.one(kind, p, prec, e, &x, &y, &z);
                }
            }
        }
    }
    // single differing coordinate at every position of a vector just above a block size:
    // Euclidean / Manhattan / Hamming must see it wherever it is
    for &len in [65usize, 129].iter() {
        let step = if th { 1 } else { 8 };
        for pos in (0..len).step_by(step).chain(std::iter::once(len / 2)) {
            let x = rvec(r, len, 50);
            let mut y = x.clone();
            y[pos] += 7;
            let z = x.clone();
            for &(kind, p) in [("euc", 0u16), ("man", 0), ("ham", 0), ("mink", 3)].iter() {
                g.one(kind, p, 52, 0, &x, &y, &z);
            }
        }
    }
}

fn mat_mul_t(a: &[Vec<i64>], d: &[i64]) -> Vec<Vec<i64>> {
    // A diag(d) A^T
    let n = a.len();
    (0..n).map(|i| (0..n).map(|j| (0..n).map(|k| a[i][k] * d[k] * a[j][k]).sum()).collect()).collect()
}

/// unit lower triangular integer matrix number `code` in base `base`, entries lo..lo+base-1
fn unit_lower(n: usize, mut code: usize, base: usize, lo: i64) -> Vec<Vec<i64>> {
    let mut a = vec![vec![0i64; n]; n];
    for i in 0..n {
        a[i][i] = 1;
        for j in 0..i {
            a[i][j] = lo + (code % base) as i64;
            code /= base;
        }
    }
    a
}

/// Structured positive-definite families (orders 3..5): Sigma = A D A^T with A integer unit
/// lower triangular and D a positive integer diagonal -- the covariance of integer linear
/// combinations of uncorrelated factors.  Their Schur complements are small exact integers,
/// so Gaussian elimination with row interchanges meets exact zeros, ties and negative
/// candidates below the diagonal.  The same family built from data: two-level factorial
/// designs with a centre point whose columns are A-combinations of the factor columns.
fn gen_maha_structured(g: &mut Gen, r: &mut StdRng, th: bool) {
    let dsets3: [[i64; 3]; 4] = [[1, 1, 1], [2, 1, 1], [1, 1, 2], [1, 3, 1]];
    let vec_for = |r: &mut StdRng, n: usize| -> Vec<i64> { rvec(r, n, if n <= 3 { 2 } else { 1 }) };
    // order 3: every A with entries in 0..2 (27) and in -2..2 (125, sampled in quick), four diagonals
    for (base, lo) in [(3usize, 0i64), (5, -2)].iter() {
        let total = base.pow(3);
        for code in 0..total {
            if *base == 5 && !th && code % 3 != 0 {
                continue;
            }
            let a = unit_lower(3, code, *base, *lo);
            for (di, d) in dsets3.iter().enumerate() {
                if !th && *base == 5 && di != code % 4 {
                    continue;
                }
                let mat = mat_mul_t(&a, d);
                let prec = if (code + di) % 4 == 3 { 23 } else { 52 };
                g.run += 1;
                let ev = maha_event(g.run, "cov", &mat, prec, maha_scale(r, prec), &vec_for(r, 3), &vec_for(r, 3), &vec_for(r, 3));
                g.out.emit(ev);
            }
        }
    }
    // orders 4 and 5: sampled A with entries in 0..2 (and a few with negative entries), D in {1,2}
    for &(n, cnt) in [(4usize, if th { 1500 } else { 140 }), (5usize, if th { 600 } else { 50 })].iter() {
        for i in 0..cnt {
            let (base, lo) = if i % 4 == 3 { (4usize, -1i64) } else { (3usize, 0i64) };
            let a = unit_lower(n, r.gen_range(0..base.pow((n * (n - 1) / 2) as u32)), base, lo);
            let d: Vec<i64> = (0..n).map(|_| if r.gen_bool(0.7) { 1 } else { 2 }).collect();
            let mat = mat_mul_t(&a, &d);
            let prec = if i % 5 == 4 { 23 } else { 52 };
            g.run += 1;
            let ev = maha_event(g.run, "cov", &mat, prec, maha_scale(r, prec), &vec_for(r, n), &vec_for(r, n), &vec_for(r, n));
            g.out.emit(ev);
        }
    }
    // designed experiments: 2^k factorial (+-1) plus centre point, columns = A * factors
    for &(k, cnt) in [(3usize, if th { 27 } else { 27 }), (4usize, if th { 300 } else { 40 }), (5usize, if th { 120 } else { 12 })].iter() {
        for i in 0..cnt {
            let code = if k == 3 { i } else { r.gen_range(0..3usize.pow((k * (k - 1) / 2) as u32)) };
            let a = unit_lower(k, code, 3, 0);
            let mut data: Vec<Vec<i64>> = Vec::new();
            for run in 0..(1usize << k) {
                let s: Vec<i64> = (0..k).map(|f| if (run >> f) & 1 == 1 { 1 } else { -1 }).collect();
                data.push((0..k).map(|c| (0..k).map(|f| a[c][f] * s[f]).sum()).collect());
            }
            data.push(vec![0; k]);
            let prec = if i % 5 == 4 { 23 } else { 52 };
            g.run += 1;
            let ev = maha_event(g.run, "data", &data, prec, maha_scale(r, prec), &vec_for(r, k), &vec_for(r, k), &vec_for(r, k));
            g.out.emit(ev);
        }
    }
}

/// a sample of the Mahalanobis families on the other matrix back ends (ndarray row-major and
/// column-major, nalgebra): covariance estimation and LU inversion are back-end code
fn gen_maha_backends(g: &mut Gen, r: &mut StdRng, th: bool) {
    let cnt = if th { 1200 } else { 150 };
    for i in 0..cnt {
        let backend = BACKENDS[1 + i % 3];
        let prec = if i % 4 == 3 { 23 } else { 52 };
        let n = 2 + i % 3;
        let (mode, mat): (&str, Vec<Vec<i64>>) = if i % 2 == 0 {
            let a = unit_lower(n, r.gen_range(0..3usize.pow((n * (n - 1) / 2) as u32)), 3, 0);
            let d: Vec<i64> = (0..n).map(|_| r.gen_range(1..=2)).collect();
            ("cov", mat_mul_t(&a, &d))
        } else {
            let m = r.gen_range(n + 2..=n + 5);
            ("data", (0..m).map(|_| (0..n).map(|_| r.gen_range(0..=3)).collect()).collect())
        };
        let v = |r: &mut StdRng| rvec(r, n, if n <= 3 { 2 } else { 1 });
        g.run += 1;
        let ev = maha_event_on(g.run, backend, mode, &mat, prec, maha_scale(r, prec), &v(r), &v(r), &v(r));
        g.out.emit(ev);
    }
}

/// spec -> impl: every line is an input enumerated by TLC from DistancesMC together with the
/// interval [lo, hi] the design model admits for round(d * 2^S); the real code is run on
/// the input and the observed value recorded next to the interval (compared by the trace spec).
fn replay_spec(g: &mut Gen, input: &str) {
    for l in read_ndjson(input) {
        let kind = l["kind"].as_str().unwrap().to_string();
        let p = l["p"].as_u64().unwrap() as u16;
        let s = l["S"].as_u64().unwrap() as u32;
        let x: Vec<i64> = l["x"].as_array().unwrap().iter().map(|v| v.as_i64().unwrap()).collect();
        let y: Vec<i64> = l["y"].as_array().unwrap().iter().map(|v| v.as_i64().unwrap()).collect();
        for &prec in [52u32, 23].iter() {
            g.run += 1;
            let (status, out) = match dist(prec, &kind, p, &x, &y, 0) {
                Ok(v) => ("ok", proj(v, 1.0, s, 0, 1, 1.0)),
                Err(_) => ("panic", no_result()),
            };
            g.out.emit(json!({"run": g.run, "ev": "Expect", "kind": kind, "p": p, "prec": prec, "S": s,
                              "x": x, "y": y, "lo": l["lo"], "hi": l["hi"], "expectPanic": l["panic"],
                              "status": status, "out": out}));
        }
    }
}

fn ivec(v: &Value) -> Vec<i64> {
    v.as_array().unwrap().iter().map(|x| x.as_i64().unwrap()).collect()
}

/// re-execute the calls of recorded events (replay artefacts) against the current tree
fn rerun(g: &mut Gen, input: &str) {
    for l in read_ndjson(input) {
        g.run += 1;
        let prec = l["prec"].as_u64().unwrap_or(52) as u32;
        let ev = match l["ev"].as_str().unwrap_or("") {
            "Dist" => dist_event(g.run, l["kind"].as_str().unwrap(), l["p"].as_u64().unwrap() as u16, prec,
                                 l["e"].as_i64().unwrap() as i32, &ivec(&l["x"]), &ivec(&l["y"]), &ivec(&l["z"])),
            "Mismatch" => Some(mismatch_event(g.run, l["kind"].as_str().unwrap(), l["p"].as_u64().unwrap() as u16, prec,
                                              &ivec(&l["x"]), &ivec(&l["y"]))),
            "Maha" => {
                let mat: Vec<Vec<i64>> = l["mat"].as_array().unwrap().iter().map(ivec).collect();
                Some(maha_event_on(g.run, l["backend"].as_str().unwrap_or("dense"), l["mode"].as_str().unwrap(), &mat, prec,
                                   l["e"].as_i64().unwrap() as i32, &ivec(&l["x"]), &ivec(&l["y"]), &ivec(&l["z"])))
            }
            "MahaMismatch" => {
                let mat: Vec<Vec<i64>> = l["mat"].as_array().unwrap().iter().map(ivec).collect();
                Some(maha_mismatch_event(g.run, &mat, prec, &ivec(&l["x"]), &ivec(&l["y"])))
            }
            "Expect" => {
                let kind = l["kind"].as_str().unwrap();
                let s = l["S"].as_u64().unwrap() as u32;
                let (x, y) = (ivec(&l["x"]), ivec(&l["y"]));
                let (status, out) = match dist(prec, kind, l["p"].as_u64().unwrap() as u16, &x, &y, 0) {
                    Ok(v) => ("ok", proj(v, 1.0, s, 0, 1, 1.0)),
                    Err(_) => ("panic", no_result()),
                };
                Some(json!({"run": g.run, "ev": "Expect", "kind": kind, "p": l["p"], "prec": prec, "S": s,
                            "x": x, "y": y, "lo": l["lo"], "hi": l["hi"], "expectPanic": l["expectPanic"],
                            "status": status, "out": out}))
            }
            _ => None,
        };
        match ev {
            Some(e) => g.out.emit(e),
            None => g.skipped += 1,
        }
    }
}

fn main() {
    let args: Vec<String> = std::env::args().skip(1).collect();
    let args = &args[..];
    silence_panics();
    let mode = arg(args, 0);
    let path = arg(args, 1);
    let mut g = Gen { out: Out::create(path), run: 0, skipped: 0 };
    let mut r = rng(17);
    let th = thorough();
    match mode {
        "gen-small" => gen_small(&mut g, &mut r, th),
        "gen-random" => gen_random(&mut g, &mut r, th),
        "gen-mismatch" => gen_mismatch(&mut g, &mut r, th),
        "gen-maha" => gen_maha(&mut g, &mut r, th),
        "gen-ladder" => gen_ladder(&mut g, &mut r, th),
        "gen-maha-structured" => gen_maha_structured(&mut g, &mut r, th),
        "gen-maha-backends" => gen_maha_backends(&mut g, &mut r, th),
        "replay-spec" => replay_spec(&mut g, arg(args, 2)),
        "rerun" => rerun(&mut g, arg(args, 2)),
        _ => {
            eprintln!("unknown c17 mode {}", mode);
            std::process::exit(2);
        }
    }
    let skipped = g.skipped;
    let n = g.out.finish();
    println!("events={} skipped={}", n, skipped);
}
