//! C09 — logistic regression and the L-BFGS minimiser.
//!
//! `gen-lbfgs <out>`  The harness *is* the objective: a strictly convex quadratic
//!     f(x) = 1/2 x'Mx - b'x with an integer SPD matrix M of known spectrum.  The real
//!     `LBFGS::optimize` (re-exported by smartcore::verif) is called with closures that log
//!     every evaluation point.  The accepted iterates are the points at which the gradient
//!     call-back is invoked (the back-tracking search uses `f` only).  Per accepted iterate
//!     the harness records two exact projections: the dense rank of f among the values of
//!     the run and the binary exponent of the infinity norm of the gradient.
//! `gen-logit <out>`  Fits `LogisticRegression` on generated training sets whose features
//!     are small dyadic rationals (logged exactly as integers), and records the fitted
//!     coefficients / intercepts in fixed point together with the predictions.  The two
//!     fixed training sets of known_findings/C09.json are fitted first.
//! `rerun-lbfgs <out> <run>` / `rerun-logit <out> <run>`  regenerate the seeded sequence of
//!     cases (VERIF_SEED, VERIF_TIER) and execute only the one with that run number.
//! `refit-file <out> <in>`  fit again the training sets stored in recorded LogitFit events.
//! `C09_DEBUG=1` adds a `dbg` string with the raw floating-point values to the events (for a
//!     human reader; the specification never looks at it).
//!
//! No property logic lives here.  Whether a run is monotone, reduced, stationary, ... is
//! decided by the TLA+ predicates of spec/linear/LBFGS.tla and Logistic.tla under TLC.
use rand::rngs::StdRng;
use rand::Rng;
use serde_json::{json, Value};
use smartcore::linalg::naive::dense_matrix::DenseMatrix;
use smartcore::api::{Predictor, SupervisedEstimator};
use smartcore::linalg::{BaseMatrix, BaseVector, Matrix};
use smartcore::linear::logistic_regression::{
    LogisticRegression, LogisticRegressionParameters, LogisticRegressionSolverName,
};
use smartcore::verif::{Backtracking, FirstOrderOptimizer, FunctionOrder, GradientDescent, LBFGS};
use std::cell::RefCell;
use vutil::*;

// ------------------------------------------------------------------------------------------
// L-BFGS on quadratics
// ------------------------------------------------------------------------------------------

/// description of one optimiser run (everything needed to rebuild it exactly)
#[derive(Clone, Debug)]
struct QuadCase {
    d: usize,
    /// integer SPD matrix, row major (exact in f64: |entries| < 2^50)
    m: Vec<i64>,
    /// spectrum of `m` is cscale * eig[i]
    eig: Vec<i64>,
    cond: i64,
    /// power-of-two rescaling of the whole objective (exact)
    fscale: i32,
    b: Vec<f64>,
    x0: Vec<f64>,
    max_iter: usize,
    /// g_atol = 0 (code -1), default 1e-8 (code 0), or 2^-44 |g(x0)|_inf (code 1)
    atol_kind: i32,
    hist: usize,
    third: bool,
    family: &'static str,
}

/// (cI - 2vv') D (cI - 2vv') for integer v, c = v'v: an integer matrix with spectrum c^2 * D
fn conjugate_householder(d: usize, mat: &[i64], v: &[i64]) -> Vec<i64> {
    let c: i64 = v.iter().map(|a| a * a).sum();
    let mut h = vec![0i64; d * d];
    for i in 0..d {
        for j in 0..d {
            h[i * d + j] = (if i == j { c } else { 0 }) - 2 * v[i] * v[j];
        }
    }
    let mul = |a: &[i64], b: &[i64]| -> Vec<i64> {
        let mut r = vec![0i64; d * d];
        for i in 0..d {
            for j in 0..d {
                let mut s = 0i64;
                for k in 0..d {
                    s += a[i * d + k] * b[k * d + j];
                }
                r[i * d + j] = s;
            }
        }
        r
    };
    mul(&mul(&h, mat), &h)
}

fn gen_quad(r: &mut StdRng, idx: usize) -> QuadCase {
    let d = 1 + (idx % 12);
    // spectrum: integers in [1, cond], log-uniform, both ends attained
    let cond: i64 = match r.gen_range(0..6) {
        0 => 1,
        1 => r.gen_range(2..=10),
        2 => r.gen_range(11..=100),
        3 => r.gen_range(101..=1000),
        4 => r.gen_range(1001..=10000),
        _ => 10000,
    };
    let mut eig: Vec<i64> = (0..d)
        .map(|_| {
            let u: f64 = r.gen::<f64>() * (cond as f64).ln();
            (u.exp().round() as i64).max(1).min(cond)
        })
        .collect();
    eig[0] = 1;
    if d > 1 {
        eig[d - 1] = cond;
    }
    let cond = *eig.iter().max().unwrap();
    let mut m = vec![0i64; d * d];
    for i in 0..d {
        m[i * d + i] = eig[i];
    }
    // zero, one or two integer Householder conjugations (exact integer arithmetic)
    let family;
    let nrot = if d == 1 { 0 } else { r.gen_range(0..3) };
    for _ in 0..nrot {
        let mut v: Vec<i64> = (0..d).map(|_| r.gen_range(-2..=2)).collect();
        if v.iter().all(|a| *a == 0) {
            v[0] = 1;
        }
        m = conjugate_householder(d, &m, &v);
    }
    family = match nrot {
        0 => "diag",
        1 => "house1",
        _ => "house2",
    };
    let fscale = match r.gen_range(0..4) {
        0 => r.gen_range(-30..=-1),
        1 => r.gen_range(1..=30),
        _ => 0,
    };
    let bs = r.gen_range(0..3);
    let b: Vec<f64> = (0..d)
        .map(|_| match bs {
            0 => 0.0,
            1 => r.gen_range(-50..=50) as f64,
            _ => r.gen_range(-50..=50) as f64 * 1024.0,
        })
        .collect();
    let xe = match r.gen_range(0..8) {
        0 | 1 => r.gen_range(-10..=0),
        2 | 3 => r.gen_range(1..=20),
        4 => r.gen_range(21..=40),
        _ => 0,
    };
    let mut x0: Vec<f64> = (0..d)
        .map(|_| r.gen_range(-100..=100) as f64 * (2.0f64).powi(xe))
        .collect();
    if r.gen_range(0..20) == 0 {
        x0 = vec![0.0; d];
    }
    let (max_iter, atol_kind) = match r.gen_range(0..10) {
        0 => (r.gen_range(1..=4), 0),
        1 | 2 => (1000, -1),
        3 | 4 => (1000, 1),
        _ => (1000, 0),
    };
    let hist = match r.gen_range(0..5) {
        0 => 1,
        1 => 3,
        2 => 20,
        _ => 10,
    };
    QuadCase {
        d,
        m,
        eig,
        cond,
        fscale,
        b,
        x0,
        max_iter,
        atol_kind,
        hist,
        third: r.gen_bool(0.5),
        family,
    }
}

struct CallLog {
    /// gradient calls: (point, f at the point, |g|_inf)
    g: Vec<(Vec<f64>, f64, f64)>,
    /// number of objective evaluations seen before the i-th gradient call
    nf_at: Vec<usize>,
    nf: usize,
}

struct QuadOutcome {
    status: &'static str,
    log: CallLog,
    ret: Option<(Vec<f64>, f64, usize)>,
}

fn run_quad(c: &QuadCase) -> QuadOutcome {
    let d = c.d;
    let s = (2.0f64).powi(c.fscale);
    let mf: Vec<f64> = c.m.iter().map(|v| *v as f64 * s).collect();
    let bf: Vec<f64> = c.b.iter().map(|v| *v * s).collect();
    let fval = |x: &[f64]| -> f64 {
        let mut q = 0.0;
        for i in 0..d {
            let mut row = 0.0;
            for j in 0..d {
                row += mf[i * d + j] * x[j];
            }
            q += x[i] * (0.5 * row - bf[i]);
        }
        q
    };
    let gval = |x: &[f64]| -> Vec<f64> {
        (0..d)
            .map(|i| {
                let mut row = 0.0;
                for j in 0..d {
                    row += mf[i * d + j] * x[j];
                }
                row - bf[i]
            })
            .collect()
    };
    let log = RefCell::new(CallLog {
        g: vec![],
        nf_at: vec![],
        nf: 0,
    });
    let pt = |x: &DenseMatrix<f64>| -> Vec<f64> { (0..d).map(|j| x.get(0, j)).collect() };
    let f = |x: &DenseMatrix<f64>| -> f64 {
        log.borrow_mut().nf += 1;
        fval(&pt(x))
    };
    let df = |g: &mut DenseMatrix<f64>, x: &DenseMatrix<f64>| {
        let p = pt(x);
        let gv = gval(&p);
        let mut ninf = 0.0f64;
        let mut bad = false;
        for (j, v) in gv.iter().enumerate() {
            g.set(0, j, *v);
            if !v.is_finite() {
                bad = true;
            }
            ninf = ninf.max(v.abs());
        }
        if bad {
            ninf = f64::NAN;
        }
        let mut l = log.borrow_mut();
        let nf = l.nf;
        l.nf_at.push(nf);
        let fv = fval(&p);
        l.g.push((p, fv, ninf));
    };
    let mut opt: LBFGS<f64> = Default::default();
    opt.max_iter = c.max_iter;
    opt.m = c.hist;
    // the tolerance is fixed before the run from the gradient at the start (exact scaling)
    let g0 = gval(&c.x0).iter().fold(0.0f64, |a, v| a.max(v.abs()));
    match c.atol_kind {
        -1 => opt.g_atol = 0.0,
        1 => opt.g_atol = g0 * (2.0f64).powi(-44),
        _ => {}
    }
    let ls: Backtracking<f64> = Backtracking {
        order: if c.third {
            FunctionOrder::THIRD
        } else {
            FunctionOrder::SECOND
        },
        ..Default::default()
    };
    let x0 = DenseMatrix::row_vector_from_array(&c.x0);
    let r = guard(|| opt.optimize(&f, &df, &x0, &ls));
    let (status, ret) = match r {
        Ok(res) => ("ok", Some((pt(&res.x), res.f_x, res.iterations))),
        Err(_) => ("panic", None),
    };
    let mut l = log.into_inner();
    // value of the objective and the gradient at the returned point, by the same call-backs
    if let Some((x, _, _)) = &ret {
        let gv = gval(x);
        let mut ninf = gv.iter().fold(0.0f64, |a, v| a.max(v.abs()));
        if gv.iter().any(|v| !v.is_finite()) {
            ninf = f64::NAN;
        }
        l.g.push((x.clone(), fval(x), ninf));
    }
    QuadOutcome {
        status,
        log: l,
        ret,
    }
}

fn atol_of(c: &QuadCase, g0: f64) -> f64 {
    match c.atol_kind {
        -1 => 0.0,
        1 => g0 * (2.0f64).powi(-44),
        _ => 1e-8,
    }
}

/// events of one run.  Iterates = points of the gradient calls with consecutive repetitions
/// of the same point merged (the optimiser re-evaluates the gradient at the current point
/// at the beginning of every iteration).
fn quad_events(run: i64, c: &QuadCase, o: &QuadOutcome) -> Vec<Value> {
    let mut ev = vec![];
    let has_ret = o.ret.is_some();
    let calls = &o.log.g;
    let ncalls = if has_ret { calls.len() - 1 } else { calls.len() };
    // merge consecutive duplicates
    let mut it: Vec<usize> = vec![];
    for i in 0..ncalls {
        if i == 0 || calls[i].0 != calls[it[it.len() - 1]].0 {
            it.push(i);
        }
    }
    // ranks over every finite objective value of the run (iterates, returned point, reported f_x)
    let mut vals: Vec<f64> = vec![];
    for &i in &it {
        if calls[i].1.is_finite() {
            vals.push(calls[i].1);
        }
    }
    if has_ret && calls[ncalls].1.is_finite() {
        vals.push(calls[ncalls].1);
    }
    if let Some((_, fx, _)) = &o.ret {
        if fx.is_finite() {
            vals.push(*fx);
        }
    }
    let ranks = dense_ranks(&vals);
    let rank_of = |v: f64| -> i64 {
        if !v.is_finite() {
            return 0;
        }
        let p = vals.iter().position(|w| *w == v).unwrap();
        ranks[p]
    };
    let gex = |v: f64| -> i64 {
        if v.is_nan() {
            2000
        } else {
            bin_exp(v)
        }
    };
    let g0 = if calls.is_empty() { 0.0 } else { calls[0].2 };
    let atol = atol_of(c, g0);
    let dbg = std::env::var("C09_DEBUG").is_ok();
    for (k, &i) in it.iter().enumerate() {
        let (_, fv, gn) = &calls[i];
        if k == 0 {
            let mut e = json!({"run": run, "ev": "Start", "dim": c.d, "cond": c.cond, "family": c.family,
                "maxIter": c.max_iter, "m": c.hist, "order": if c.third {"third"} else {"second"},
                "atolKind": c.atol_kind, "atolEx": if atol == 0.0 { -2000 } else { bin_exp(atol) },
                "fscale": c.fscale, "x0Ex": bin_exp(c.x0.iter().fold(0.0f64, |a, v| a.max(v.abs()))),
                "fFin": fv.is_finite(), "fRk": rank_of(*fv), "gEx": gex(*gn)});
            if dbg {
                e["dbg"] = json!(format!("f={:e} g={:e} eig={:?}", fv, gn, c.eig));
            }
            ev.push(e);
        } else {
            let prev = it[k - 1];
            let nf = o.log.nf_at[i] - o.log.nf_at[prev];
            let mut e = json!({"run": run, "ev": "Iter", "k": k, "fFin": fv.is_finite(), "fRk": rank_of(*fv),
                "gEx": gex(*gn), "nF": nf});
            if dbg {
                e["dbg"] = json!(format!("f={:e} g={:e}", fv, gn));
            }
            ev.push(e);
        }
    }
    match &o.ret {
        Some((x, fx, iters)) => {
            let (_, fr, gr) = &calls[ncalls];
            let last = it.last().map(|&i| &calls[i].0);
            ev.push(json!({"run": run, "ev": "Stop", "status": o.status, "iters": iters, "nIter": it.len() as i64 - 1,
                "gradCalls": ncalls, "fEvals": o.log.nf,
                "retFFin": fr.is_finite(), "retFRk": rank_of(*fr), "retGEx": gex(*gr),
                "retIsLast": last.map(|l| l == x).unwrap_or(false),
                "fxFin": fx.is_finite(), "fxRk": rank_of(*fx)}));
        }
        None => {
            ev.push(json!({"run": run, "ev": "Stop", "status": o.status, "iters": 0, "nIter": it.len() as i64 - 1,
                "gradCalls": ncalls, "fEvals": o.log.nf,
                "retFFin": false, "retFRk": 0, "retGEx": 2000, "retIsLast": false, "fxFin": false, "fxRk": 0}));
        }
    }
    ev
}

/// `only`: regenerate the whole seeded sequence of cases but execute just this one (replay)
fn gen_lbfgs(path: &str, only: Option<usize>) {
    let mut out = Out::create(path);
    let mut r = rng(9);
    let n = if thorough() { 8000 } else { 1500 };
    let mut timeouts = 0;
    for idx in 0..n {
        let c = gen_quad(&mut r, idx);
        if only.map(|o| o != idx).unwrap_or(false) {
            continue;
        }
        let c2 = c.clone();
        let o = watchdog(20, move || run_quad(&c2));
        let run = idx as i64 + 1;
        match o {
            Some(Ok(o)) => {
                for e in quad_events(run, &c, &o) {
                    out.emit(e);
                }
            }
            _ => {
                timeouts += 1;
                out.emit(json!({"run": run, "ev": "Start", "dim": c.d, "cond": c.cond, "family": c.family,
                    "maxIter": c.max_iter, "m": c.hist, "order": if c.third {"third"} else {"second"},
                    "atolKind": c.atol_kind, "atolEx": 0, "fscale": c.fscale, "x0Ex": 0,
                    "fFin": false, "fRk": 0, "gEx": 2000}));
                out.emit(json!({"run": run, "ev": "Stop", "status": "timeout", "iters": 0, "nIter": 0,
                    "gradCalls": 0, "fEvals": 0,
                    "retFFin": false, "retFRk": 0, "retGEx": 2000, "retIsLast": false, "fxFin": false, "fxRk": 0}));
            }
        }
    }
    let n = out.finish();
    println!("lbfgs: {} events, {} timeouts", n, timeouts);
}


// ------------------------------------------------------------------------------------------
// plain gradient descent on quadratics (supplementary: not part of a listed property; the
// events are validated against spec/linear/GradDescent*.tla and a mismatch is reported as
// information, never as a violation of C09)
// ------------------------------------------------------------------------------------------

/// iteration budget of the "full" gradient-descent runs (the library default of 10 000 would make
/// the event file needlessly long; truncated budgets 1..4 come from the case generator)
const GD_FULL: usize = 300;

struct GdOutcome {
    status: &'static str,
    /// gradient calls: (point, f, |g|_2 as the library computes it)
    calls: Vec<(Vec<f64>, f64, f64)>,
    nf_at: Vec<usize>,
    nf: usize,
    ret: Option<(Vec<f64>, f64, usize)>,
    gtol: f64,
}

fn norm2(v: &[f64]) -> f64 {
    // same fold as BaseVector::norm2 of DenseMatrix: sqrt of the running sum of squares
    let mut s = 0.0f64;
    for x in v {
        s += x * x;
    }
    s.sqrt()
}

fn run_gd(c: &QuadCase) -> GdOutcome {
    let d = c.d;
    let s = (2.0f64).powi(c.fscale);
    let mf: Vec<f64> = c.m.iter().map(|v| *v as f64 * s).collect();
    let bf: Vec<f64> = c.b.iter().map(|v| *v * s).collect();
    let fval = |x: &[f64]| -> f64 {
        let mut q = 0.0;
        for i in 0..d {
            let mut row = 0.0;
            for j in 0..d {
                row += mf[i * d + j] * x[j];
            }
            q += x[i] * (0.5 * row - bf[i]);
        }
        q
    };
    let gval = |x: &[f64]| -> Vec<f64> {
        (0..d)
            .map(|i| {
                let mut row = 0.0;
                for j in 0..d {
                    row += mf[i * d + j] * x[j];
                }
                row - bf[i]
            })
            .collect()
    };
    let log: RefCell<(Vec<(Vec<f64>, f64, f64)>, Vec<usize>, usize)> = RefCell::new((vec![], vec![], 0));
    let pt = |x: &DenseMatrix<f64>| -> Vec<f64> { (0..d).map(|j| x.get(0, j)).collect() };
    let f = |x: &DenseMatrix<f64>| -> f64 {
        log.borrow_mut().2 += 1;
        fval(&pt(x))
    };
    let df = |g: &mut DenseMatrix<f64>, x: &DenseMatrix<f64>| {
        let p = pt(x);
        let gv = gval(&p);
        for (j, v) in gv.iter().enumerate() {
            g.set(0, j, *v);
        }
        let mut l = log.borrow_mut();
        let nf = l.2;
        l.1.push(nf);
        let fv = fval(&p);
        l.0.push((p, fv, norm2(&gv)));
    };
    let mut opt: GradientDescent<f64> = Default::default();
    opt.max_iter = if c.max_iter >= 1000 { GD_FULL } else { c.max_iter };
    // the tolerance as the optimiser computes it from its parameters and the start
    let gtol = (norm2(&c.x0) * opt.g_rtol).max(opt.g_atol);
    let ls: Backtracking<f64> = Backtracking {
        order: if c.third { FunctionOrder::THIRD } else { FunctionOrder::SECOND },
        ..Default::default()
    };
    let x0 = DenseMatrix::row_vector_from_array(&c.x0);
    let r = guard(|| opt.optimize(&f, &df, &x0, &ls));
    let (status, ret) = match r {
        Ok(res) => ("ok", Some((pt(&res.x), res.f_x, res.iterations))),
        Err(_) => ("panic", None),
    };
    let (mut calls, nf_at, nf) = log.into_inner();
    if let Some((x, _, _)) = &ret {
        let gv = gval(x);
        calls.push((x.clone(), fval(x), norm2(&gv)));
    }
    GdOutcome { status, calls, nf_at, nf, ret, gtol }
}

fn gd_events(run: i64, c: &QuadCase, o: &GdOutcome) -> Vec<Value> {
    let mut ev = vec![];
    let has_ret = o.ret.is_some();
    let ncalls = if has_ret { o.calls.len() - 1 } else { o.calls.len() };
    // one gradient call per iterate: call 0 is the start, call k the point after k steps
    let mut fvals: Vec<f64> = o.calls.iter().map(|c| c.1).filter(|v| v.is_finite()).collect();
    if let Some((_, fx, _)) = &o.ret {
        if fx.is_finite() {
            fvals.push(*fx);
        }
    }
    let franks = dense_ranks(&fvals);
    let frank = |v: f64| -> i64 {
        if !v.is_finite() {
            return 0;
        }
        franks[fvals.iter().position(|w| *w == v).unwrap()]
    };
    // gradient norms and the tolerance share one rank pool: comparisons between them are exact
    let mut gvals: Vec<f64> = o.calls.iter().map(|c| c.2).filter(|v| v.is_finite()).collect();
    gvals.push(o.gtol);
    let granks = dense_ranks(&gvals);
    let grank = |v: f64| -> i64 {
        if !v.is_finite() {
            return 2_000_000;
        }
        granks[gvals.iter().position(|w| *w == v).unwrap()]
    };
    let max_iter = if c.max_iter >= 1000 { GD_FULL } else { c.max_iter };
    for k in 0..ncalls {
        let (_, fv, gn) = &o.calls[k];
        if k == 0 {
            ev.push(json!({"run": run, "ev": "Start", "dim": c.d, "cond": c.cond, "family": c.family,
                "maxIter": max_iter, "order": if c.third {"third"} else {"second"}, "fscale": c.fscale,
                "fFin": fv.is_finite(), "fRk": frank(*fv), "gFin": gn.is_finite(), "gRk": grank(*gn),
                "gtolRk": grank(o.gtol), "gEx": if *gn == 0.0 { -2000 } else if gn.is_finite() { bin_exp(*gn) } else { 2000 }}));
        } else {
            let nfk = o.nf_at[k] - o.nf_at[k - 1];
            ev.push(json!({"run": run, "ev": "Iter", "k": k, "fFin": fv.is_finite(), "fRk": frank(*fv),
                "gFin": gn.is_finite(), "gRk": grank(*gn), "nF": nfk}));
        }
    }
    match &o.ret {
        Some((x, fx, iters)) => {
            let (_, fr, gr) = &o.calls[ncalls];
            let last = if ncalls > 0 { Some(&o.calls[ncalls - 1].0) } else { None };
            ev.push(json!({"run": run, "ev": "Stop", "status": o.status, "iters": iters, "gradCalls": ncalls,
                "fEvals": o.nf, "retFFin": fr.is_finite(), "retFRk": frank(*fr), "retGFin": gr.is_finite(),
                "retGRk": grank(*gr), "retIsLast": last.map(|l| l == x).unwrap_or(false),
                "fxFin": fx.is_finite(), "fxRk": frank(*fx),
                "retGEx": if *gr == 0.0 { -2000 } else if gr.is_finite() { bin_exp(*gr) } else { 2000 }}));
        }
        None => {
            ev.push(json!({"run": run, "ev": "Stop", "status": o.status, "iters": 0, "gradCalls": ncalls,
                "fEvals": o.nf, "retFFin": false, "retFRk": 0, "retGFin": false, "retGRk": 2_000_000,
                "retIsLast": false, "fxFin": false, "fxRk": 0, "retGEx": 2000}));
        }
    }
    ev
}

/// the L-BFGS case generator restricted to condition numbers plain gradient descent can handle
fn gen_gd(path: &str) {
    let mut out = Out::create(path);
    let mut r = rng(10);
    let n = if thorough() { 2400 } else { 600 };
    let mut done = 0;
    let mut idx = 0;
    let mut timeouts = 0;
    while done < n {
        let c = gen_quad(&mut r, idx);
        idx += 1;
        if c.cond > 16 {
            continue;
        }
        done += 1;
        let run = done as i64;
        let c2 = c.clone();
        match watchdog(30, move || run_gd(&c2)) {
            Some(Ok(o)) => {
                for e in gd_events(run, &c, &o) {
                    out.emit(e);
                }
            }
            _ => {
                timeouts += 1;
                out.emit(json!({"run": run, "ev": "Start", "dim": c.d, "cond": c.cond, "family": c.family,
                    "maxIter": c.max_iter, "order": if c.third {"third"} else {"second"}, "fscale": c.fscale,
                    "fFin": false, "fRk": 0, "gFin": false, "gRk": 2_000_000, "gtolRk": 0, "gEx": 2000}));
                out.emit(json!({"run": run, "ev": "Stop", "status": "timeout", "iters": 0, "gradCalls": 0,
                    "fEvals": 0, "retFFin": false, "retFRk": 0, "retGFin": false, "retGRk": 2_000_000,
                    "retIsLast": false, "fxFin": false, "fxRk": 0, "retGEx": 2000}));
            }
        }
    }
    let n = out.finish();
    println!("gd: {} events, {} timeouts", n, timeouts);
}


// ------------------------------------------------------------------------------------------
// logistic regression
// ------------------------------------------------------------------------------------------

/// features are multiples of 2^-xs (exactly representable, logged as integers); xs = XS for
/// the ordinary families, 0 for the large-magnitude family (integer-valued features)
const XS: i32 = 4;
/// the ways a caller can build the parameter object (all must mean the same thing)
const STYLES: [&str; 4] = ["alpha", "solver_alpha", "alpha_solver", "struct"];
/// alpha = alphaNum / 2^AS
const AS: i32 = 6;

#[derive(Clone)]
struct LogitCase {
    n: usize,
    p: usize,
    k: usize,
    /// the k distinct label values, ascending (any finite floats)
    labels: Vec<f64>,
    yc: Vec<usize>,
    /// features times 2^xs
    xi: Vec<Vec<i64>>,
    /// query rows
    qi: Vec<Vec<i64>>,
    alpha_num: i64,
    layout: String,
    xs: i32,
    style: usize,
    /// 0 DenseMatrix, 1 ndarray, 2 nalgebra
    backend: usize,
    /// call fit / predict through the api traits instead of the inherent methods
    via_trait: bool,
}

const BACKENDS: [&str; 3] = ["dense", "ndarray", "nalgebra"];
/// code of a prediction that is not (bit for bit) one of the training labels
const NOLABEL: i64 = -2_000_000_000;

/// Integer codes of the labels (order preserving): twice the value when every label is a
/// half-integer of moderate size (readable), otherwise the rank 1..k.
fn label_codes(labels: &[f64]) -> Vec<i64> {
    if labels.iter().all(|v| int_exact(v * 2.0).map(|c| c.abs() < 1_000_000_000).unwrap_or(false)) {
        labels.iter().map(|v| (v * 2.0) as i64).collect()
    } else {
        (1..=labels.len() as i64).collect()
    }
}

fn next_up(v: f64) -> f64 {
    let b = v.to_bits();
    f64::from_bits(if v >= 0.0 { b + 1 } else { b - 1 })
}

fn gauss(r: &mut StdRng) -> f64 {
    // sum of uniforms: good enough for a data generator
    let mut s = 0.0;
    for _ in 0..6 {
        s += r.gen::<f64>();
    }
    (s - 3.0) * 1.414
}

/// what a special family fixes; everything else is drawn as usual
#[derive(Clone, Copy, Default)]
struct Force {
    k: Option<usize>,
    n: Option<usize>,
    /// number of query rows (all fresh) instead of training rows + 8
    nq: Option<usize>,
    /// small feature magnitudes (|X| <= 1000 in sixteenths) so that long training sets stay in budget
    small: bool,
}

fn gen_logit(r: &mut StdRng, idx: usize, th: bool, force: Force) -> LogitCase {
    let k = force.k.unwrap_or(2 + (idx % 3));
    let p = 1 + r.gen_range(0..6);
    let nmax = if th { 100 } else { 60 };
    let mut n = force.n.unwrap_or_else(|| r.gen_range((6usize.max(k + 1))..=nmax));
    // ---- labels: ordinary half-integers; adjacent floats; ordinary values rescaled by 2^e
    let pool: [i64; 12] = [-14, -2, 0, 1, 2, 4, 6, 7, 20, 200, 2001, -3];
    let lab_family = match r.gen_range(0..10) {
        0 | 1 => "adjacent",
        2 | 3 => "rescaled",
        _ => "plain",
    };
    let mut labels: Vec<f64> = vec![];
    if lab_family == "adjacent" {
        let bases = [0.3, 1.0, -2.5, 1.0e10, 7.0e-5, -1.0];
        let mut v = bases[r.gen_range(0..bases.len())];
        for _ in 0..k {
            labels.push(v);
            v = next_up(v);
        }
    } else {
        let e = if lab_family == "rescaled" { [-200, -40, 40, 200][r.gen_range(0..4)] } else { 0 };
        let mut codes: Vec<i64> = vec![];
        while codes.len() < k {
            let v = pool[r.gen_range(0..pool.len())];
            if !codes.contains(&v) && !(e != 0 && v == 0 && codes.contains(&0)) {
                codes.push(v);
            }
        }
        labels = codes.iter().map(|c| *c as f64 / 2.0 * (2.0f64).powi(e)).collect();
    }
    labels.sort_by(|a, b| a.partial_cmp(b).unwrap());
    // ---- features
    // large-magnitude family: raw, un-centred measurements (scale 16..100, shifted by up to
    // 30 scales, |x| up to 4000), integer valued
    let large = !force.small && r.gen_range(0..4) == 0;
    let xs = if large { 0 } else { XS };
    let scales = [0.125, 0.5, 1.0, 4.0, 16.0, 100.0];
    let sc: Vec<f64> = (0..p)
        .map(|_| {
            if large {
                scales[r.gen_range(4..6)]
            } else if force.small {
                scales[r.gen_range(0..4)]
            } else {
                scales[r.gen_range(0..scales.len())]
            }
        })
        .collect();
    let sh: Vec<f64> = (0..p)
        .map(|j| {
            if large {
                sc[j] * r.gen_range(-30..=30) as f64
            } else if r.gen_bool(0.5) {
                0.0
            } else {
                sc[j] * r.gen_range(-3..=3) as f64
            }
        })
        .collect();
    // balanced-ordered (two classes): exactly n/2 rows each and the larger label has the larger
    // mean in every feature -- at the all-zero start the intercept gradient is exactly 0 and
    // every coefficient gradient is negative
    let balanced = k == 2 && force.n.is_none() && r.gen_range(0..8) == 0;
    let (layout, sep) = if balanced {
        ("balanced-ordered", 1.5)
    } else {
        match r.gen_range(0..5) {
            0 => ("same", 0.0),
            1 => ("overlap", 0.7),
            2 => ("overlap", 1.5),
            3 => ("apart", 3.0),
            _ => ("separable", 8.0),
        }
    };
    let means: Vec<Vec<f64>> = (0..k)
        .map(|c| {
            (0..p)
                .map(|_| {
                    if balanced {
                        if c == 1 { sep * (0.5 + r.gen::<f64>()) } else { 0.0 }
                    } else {
                        sep * (r.gen::<f64>() - 0.5) * 2.0
                    }
                })
                .collect()
        })
        .collect();
    let lim = if force.small { 1000.0 } else { 4000.0 };
    let row = |r: &mut StdRng, c: usize| -> Vec<i64> {
        (0..p)
            .map(|j| {
                let v = sh[j] + sc[j] * (means[c][j] + gauss(r));
                let q = (v * (1 << xs) as f64).round();
                q.max(-lim).min(lim) as i64
            })
            .collect()
    };
    if balanced {
        n += n % 2;
    }
    let mut yc: Vec<usize> = (0..n).map(|i| if i < k { i } else { r.gen_range(0..k) }).collect();
    if balanced {
        yc = (0..n).map(|i| i % 2).collect();
    } else {
        // unbalanced now and then: one dominant class, or (large family, k >= 3) two frequent
        // classes and rare others
        match r.gen_range(0..4) {
            0 => {
                for v in yc.iter_mut().skip(k) {
                    if r.gen_bool(0.7) {
                        *v = 0;
                    }
                }
            }
            1 | 2 if large && k >= 3 => {
                for v in yc.iter_mut().skip(k) {
                    let u: f64 = r.gen();
                    *v = if u < 0.45 {
                        0
                    } else if u < 0.9 {
                        1
                    } else {
                        r.gen_range(2..k)
                    };
                }
            }
            _ => {}
        }
    }
    // random order of the rows
    for i in (1..n).rev() {
        let j = r.gen_range(0..=i);
        yc.swap(i, j);
    }
    let xi: Vec<Vec<i64>> = yc.iter().map(|&c| row(r, c)).collect();
    let mut qi = if force.nq.is_some() { vec![] } else { xi.clone() };
    for _ in 0..force.nq.unwrap_or(8) {
        let c = r.gen_range(0..k);
        qi.push(row(r, c));
    }
    let alphas: [i64; 8] = [0, 1, 4, 16, 64, 128, 256, 640];
    let alpha_num = alphas[r.gen_range(0..alphas.len())];
    let style = r.gen_range(0..STYLES.len());
    let backend = match r.gen_range(0..10) {
        0 | 1 => 1,
        2 | 3 => 2,
        _ => 0,
    };
    // the exactly balanced two-class sets are the ones on which a back end's norm / sum
    // quirks show at the very first convergence test: send half of them to ndarray
    let backend = if balanced && r.gen_bool(0.5) { 1 } else { backend };
    let via_trait = r.gen_bool(0.3);
    let mut name = String::new();
    if large {
        name.push_str("large-");
    }
    name.push_str(layout);
    if lab_family != "plain" {
        name.push_str("+labels-");
        name.push_str(lab_family);
    }
    LogitCase {
        n,
        p,
        k,
        labels,
        yc,
        xi,
        qi,
        alpha_num,
        layout: name,
        xs,
        style,
        backend,
        via_trait,
    }
}

fn to_matrix<M: Matrix<f64>>(rows: &[Vec<i64>], xs: i32) -> M {
    let n = rows.len();
    let p = rows[0].len();
    let mut m = M::zeros(n, p);
    for (i, r) in rows.iter().enumerate() {
        for (j, x) in r.iter().enumerate() {
            m.set(i, j, *x as f64 / (1 << xs) as f64);
        }
    }
    m
}

/// largest s in 0..=30 with max|v| * 2^s < 2^15; None when max|v| >= 2^15 or not finite
fn scale_for(v: &[f64]) -> Option<u32> {
    let m = v.iter().fold(0.0f64, |a, x| a.max(x.abs()));
    if !m.is_finite() || v.iter().any(|x| !x.is_finite()) || m >= 32768.0 {
        return None;
    }
    let mut s = 30u32;
    while s > 0 && (m * (1u64 << s) as f64).round() >= 32768.0 {
        s -= 1;
    }
    if (m * (1u64 << s) as f64).round() >= 32768.0 {
        return None;
    }
    Some(s)
}

struct LogitOut {
    coef: Vec<Vec<f64>>,
    icept: Vec<f64>,
    pred: Vec<f64>,
}

fn run_logit(c: &LogitCase) -> Result<LogitOut, String> {
    match c.backend {
        1 => run_logit_m::<ndarray::Array2<f64>>(c),
        2 => run_logit_m::<nalgebra::DMatrix<f64>>(c),
        _ => run_logit_m::<DenseMatrix<f64>>(c),
    }
}

fn run_logit_m<M: Matrix<f64>>(c: &LogitCase) -> Result<LogitOut, String> {
    let x: M = to_matrix(&c.xi, c.xs);
    let q: M = to_matrix(&c.qi, c.xs);
    let yv: Vec<f64> = c.yc.iter().map(|&i| c.labels[i]).collect();
    let y: M::RowVector = BaseVector::from_array(&yv);
    let alpha = c.alpha_num as f64 / (1 << AS) as f64;
    let params = match c.style {
        0 => LogisticRegressionParameters::default().with_alpha(alpha),
        1 => LogisticRegressionParameters::default()
            .with_solver(LogisticRegressionSolverName::LBFGS)
            .with_alpha(alpha),
        2 => LogisticRegressionParameters::default()
            .with_alpha(alpha)
            .with_solver(LogisticRegressionSolverName::LBFGS),
        _ => LogisticRegressionParameters {
            solver: LogisticRegressionSolverName::LBFGS,
            alpha,
        },
    };
    let lr: LogisticRegression<f64, M> = if c.via_trait {
        SupervisedEstimator::fit(&x, &y, params)
    } else {
        LogisticRegression::fit(&x, &y, params)
    }
    .map_err(|e| format!("err:{}", e))?;
    let cm = lr.coefficients();
    let im = lr.intercept();
    let (cr, cc) = cm.shape();
    let coef: Vec<Vec<f64>> = (0..cr).map(|i| (0..cc).map(|j| cm.get(i, j)).collect()).collect();
    let (ir, ic) = im.shape();
    let mut icept = vec![];
    for i in 0..ir {
        for j in 0..ic {
            icept.push(im.get(i, j));
        }
    }
    let pred = if c.via_trait {
        Predictor::predict(&lr, &q)
    } else {
        lr.predict(&q)
    }
    .map_err(|e| format!("err:{}", e))?;
    Ok(LogitOut {
        coef,
        icept,
        pred: pred.to_vec(),
    })
}

fn logit_event(run: i64, c: &LogitCase, o: Option<Result<Result<LogitOut, String>, String>>) -> Value {
    let codes = label_codes(&c.labels);
    let mut e = json!({"run": run, "ev": "LogitFit", "n": c.n, "p": c.p, "k": c.k, "layout": c.layout,
        "labels2": codes, "labelBits": c.labels.iter().map(|v| bits64(*v)).collect::<Vec<Value>>(),
        "labelStr": c.labels.iter().map(|v| format!("{:e}", v)).collect::<Vec<String>>(),
        "yc": c.yc.iter().map(|v| v + 1).collect::<Vec<usize>>(),
        "xS": c.xs, "X": c.xi, "Q": c.qi, "alphaNum": c.alpha_num, "alphaS": AS, "build": STYLES[c.style],
        "backend": BACKENDS[c.backend], "entry": if c.via_trait { "trait" } else { "inherent" }});
    let status;
    let (mut w_ok, mut ws, mut bs): (bool, Vec<u32>, u32) = (false, vec![0; c.p], 0u32);
    let (mut w_fin, mut rows, mut cols_n, mut icn) = (false, 0usize, 0usize, 0usize);
    let (mut coef, mut icept): (Vec<Vec<i64>>, Vec<i64>) = (vec![], vec![]);
    let (mut pred2, mut pred_ok): (Vec<i64>, bool) = (vec![], false);
    match o {
        None => status = "timeout",
        Some(Err(m)) => {
            status = "panic";
            e["msg"] = json!(m);
        }
        Some(Ok(Err(m))) => {
            status = "err";
            e["msg"] = json!(m);
        }
        Some(Ok(Ok(out))) => {
            status = "ok";
            if std::env::var("C09_DEBUG").is_ok() {
                e["dbg"] = json!(format!("coef={:?} icept={:?}", out.coef, out.icept));
            }
            w_fin = out.coef.iter().flatten().all(|v| v.is_finite()) && out.icept.iter().all(|v| v.is_finite());
            rows = out.coef.len();
            cols_n = out.coef.iter().map(|r| r.len()).max().unwrap_or(0);
            icn = out.icept.len();
            // one power-of-two scale per feature column (coefficients of differently scaled
            // features differ by orders of magnitude) and one for the intercepts
            let p = c.p;
            let cols: Vec<Option<u32>> = (0..p)
                .map(|j| scale_for(&out.coef.iter().map(|r| r.as_slice().get(j).cloned().unwrap_or(f64::NAN)).collect::<Vec<f64>>()))
                .collect();
            let shape_ok = out.coef.iter().all(|r| r.len() == p);
            if let (true, true, Some(s2)) = (shape_ok, cols.iter().all(|s| s.is_some()), scale_for(&out.icept)) {
                w_ok = true;
                ws = cols.iter().map(|s| s.unwrap()).collect();
                bs = s2;
                coef = out
                    .coef
                    .iter()
                    .map(|r| r.iter().enumerate().map(|(j, v)| Q::new(ws[j]).x(*v)).collect())
                    .collect();
                icept = Q::new(s2).v(&out.icept);
            }
            // exact projection of the predictions: the code of the training label a prediction
            // equals, NOLABEL when it equals none
            pred_ok = out.pred.iter().all(|v| v.is_finite());
            pred2 = out
                .pred
                .iter()
                .map(|v| c.labels.iter().position(|l| l == v).map(|i| codes[i]).unwrap_or(NOLABEL))
                .collect();
        }
    }
    e["status"] = json!(status);
    // shape of what fit returned, whether it is finite, and whether it fits the fixed-point range
    e["coefRows"] = json!(rows);
    e["coefCols"] = json!(cols_n);
    e["iceptLen"] = json!(icn);
    e["wFin"] = json!(w_fin);
    e["wOk"] = json!(w_ok);
    e["wS"] = json!(ws);
    e["bS"] = json!(bs);
    e["coef"] = json!(coef);
    e["icept"] = json!(icept);
    e["predOk"] = json!(pred_ok);
    e["pred2"] = json!(pred2);
    e
}


/// Fixed training sets on which the unchanged library is known to misbehave (see
/// known_findings/C09.json); they are fitted first in every run so that the findings are
/// reported (or seen to be repaired) independently of the seed.
fn fixed_cases() -> Vec<LogitCase> {
    let mut v = vec![];
    // alpha = 0, separable, one feature: NaN coefficients
    v.push(fixed_case(1, &[-2, 2], &[0, 0, 1, 1, 1, 1, 1, 0, 1, 0, 0, 1, 1, 0, 1, 1, 1, 1, 1, 1, 0, 0, 1, 1, 0, 0, 0, 0, 1, 0, 1, 1, 1, 0, 0, 1, 0, 1, 0, 0, 1, 1, 1, 1, 1, 1, 1, 0, 1, 0, 0, 1, 1, 0, 0, 1, 1, 1, 0, 1, 0, 1, 1, 1, 1, 1, 1, 0], &[309, 358, -1979, -2304, -2351, -2067, -1733, -53, -2399, 620, 427, -2011, -1981, 844, -1671, -1801, -1892, -2271, -2101, -1846, 247, 842, -2469, -1989, 833, 1031, 115, 381, -2398, 300, -2587, -1670, -1906, 570, 823, -1992, 549, -1834, 526, 80, -2200, -1920, -2339, -2151, -2246, -2088, -1790, 305, -1572, 729, 836, -2217, -1658, 440, 612, -1963, -2217, -2024, 539, -1592, 828, -1859, -1837, -1762, -1553, -2131, -2286, 61], 0, "separable"));
    // alpha = 1/64, four classes, two features of magnitude ~200: 1000 iterations are not enough
    v.push(fixed_case(4, &[-3, 0, 7, 20], &[3, 2, 3, 2, 3, 3, 1, 1, 0, 1, 0, 2, 0, 1], &[-3182, 7, -3164, 2, -3863, 12, -2991, -12, -2334, -7, -1168, -18, -727, 11, -2170, -25, -2100, 25, -2795, 13, -3329, 9, -2100, -11, -1635, 8, -2899, 2, -3167, -1, -4000, -13, -2137, 5, -4000, -15, 1287, 2, -3132, -13, -4000, 18, -4000, 6, 305, 0, -4000, -3, -1911, 22, -4000, -12, 1864, 2, -2875, 15], 1, "overlap"));
    // alpha = 0, separable, three features: the objective underflows to exactly 0 and the line search panics
    v.push(fixed_case(3, &[-2, 6], &[0, 0, 0, 1, 1, 1, 1, 0, 1, 1, 1, 1, 0, 1, 0, 0, 1, 1, 1, 0, 1, 1, 0, 1, 0, 0, 1, 1, 0, 0, 0, 0, 0, 1, 0, 1, 0, 1, 1, 1, 0, 1, 1, 0, 0, 1, 1, 0, 1, 0, 1, 0, 0, 0, 1, 1, 0, 1, 0, 0, 1, 1, 1, 1, 1, 0, 0, 0, 0, 0, 1, 0, 0, 0, 0, 0, 1, 1, 1, 0, 1, 0, 0, 1, 0, 0, 0, 1, 0, 1, 0, 0, 0], &[-16, -1381, -568, -12, -1730, -501, -16, -2039, -221, 7, 1008, -389, 7, 856, -272, 8, 500, -243, 11, -127, -540, -10, -2330, -237, 9, 558, -327, 10, 882, -291, 6, 275, -486, 8, 719, -151, -12, -1311, -413, 13, 379, -300, -16, -1380, -277, -15, -1785, -201, 12, 261, 67, 13, 578, -166, 7, 557, -560, -16, -1651, -274, 9, 359, -42, 11, 949, -210, -17, -1432, -9, 5, 721, -668, -14, -1386, 85, -12, -1668, 20, 9, 428, -435, 8, 898, -548, -14, -1543, -136, -16, -1778, -876, -17, -1296, -192, -13, -1701, -262, -12, -2241, -498, 11, 476, -510, -17, -1601, 103, 9, 1072, 0, -15, -1970, -60, 9, 292, -586, 11, 577, -550, 11, 205, 194, -18, -1558, 138, 7, 451, -69, 12, 681, -556, -14, -1517, -586, -17, -2084, -313, 12, 133, -575, 9, 87, 66, -19, -2045, -48, 10, 168, -266, -16, -1511, 4, 8, 683, -442, -13, -1865, -264, -14, -1942, -620, -16, -1844, -412, 5, 359, -414, 14, 698, -648, -15, -2133, -799, 9, 629, -55, -13, -1427, -295, -17, -1799, -576, 9, 881, -540, 12, 815, -472, 7, 499, -51, 11, 496, -296, 12, 456, -315, -15, -1504, -466, -14, -2052, -206, -16, -1777, -405, -15, -1157, 538, -16, -1668, -222, 12, 311, -196, -11, -1648, -691, -15, -1705, -203, -17, -1785, -290, -12, -1455, 146, -15, -1630, -314, 11, 764, -139, 10, 809, -535, 12, 493, -537, -21, -1649, -161, 9, 517, -591, -19, -2280, -220, -15, -1433, -90, 15, 419, -380, -14, -1815, -624, -14, -1786, -440, -14, -1562, 22, 11, 521, -276, -18, -1790, -496, 8, 669, 355, -17, -1569, -82, -16, -1472, -176, -16, -1581, 10], 0, "separable"));
    // alpha = 1/4, four classes, raw integer features up to 3029: still 9% of the starting gradient after 1000 iterations
    let mut big = fixed_case(4, &[0, 2, 200, 2001], &[2, 2, 3, 1, 0, 3, 1, 3, 0, 3, 3, 3, 3, 3, 0, 2, 2, 3, 3, 3, 1, 2, 2, 2, 2, 0, 1, 1, 2, 3, 2, 0, 2, 1, 3, 2, 3, 1, 0, 3, 3, 3, 1, 1, 0, 0, 2, 0, 1, 2, 0, 3, 3, 1, 2, 1, 1, 3, 0, 2, 0, 2, 2, 3, 2, 3, 1, 3, 1, 1, 2, 0, 1, 2, 1, 2, 1, 1, 0, 2, 0, 0, 1, 0, 3, 3, 0, 3, 0, 1, 3, 1, 0, 0], &[2914, 294, 321, -2577, 2861, 308, 322, -2701, 2797, 335, 327, -2642, 2912, 280, 317, -2682, 2829, 286, 321, -2611, 2761, 278, 299, -2547, 2629, 280, 306, -2824, 2754, 323, 324, -2609, 2836, 316, 335, -2446, 2886, 307, 300, -2657, 2825, 306, 337, -2691, 2896, 310, 340, -2587, 2784, 323, 298, -2589, 2649, 312, 308, -2778, 2877, 309, 328, -2539, 2773, 316, 312, -2668, 2822, 312, 323, -2639, 2779, 312, 297, -2591, 2712, 342, 329, -2609, 2891, 291, 317, -2555, 2806, 303, 315, -2655, 2600, 319, 288, -2559, 2769, 301, 340, -2675, 2588, 287, 327, -2648, 2887, 288, 309, -2669, 2867, 319, 315, -2355, 2951, 286, 314, -2673, 2687, 290, 304, -2758, 2605, 292, 310, -2695, 2827, 322, 301, -2762, 2678, 315, 328, -2569, 2752, 273, 329, -2664, 2668, 299, 291, -2639, 2904, 323, 339, -2495, 2754, 328, 323, -2642, 2849, 274, 339, -2610, 2959, 312, 344, -2611, 2853, 284, 326, -2650, 2914, 289, 345, -2712, 2813, 326, 331, -2562, 2771, 291, 317, -2513, 2758, 326, 328, -2517, 2744, 297, 308, -2760, 2827, 284, 336, -2883, 2784, 290, 299, -2663, 2903, 292, 309, -2775, 2937, 319, 297, -2579, 2689, 302, 312, -2544, 2753, 299, 319, -2605, 2817, 321, 346, -2647, 2727, 292, 306, -2538, 2895, 304, 321, -2785, 3020, 317, 331, -2615, 2738, 310, 308, -2828, 2702, 295, 311, -2755, 2838, 315, 318, -2658, 2854, 283, 324, -2628, 2690, 320, 316, -2723, 2870, 281, 314, -2688, 2572, 298, 342, -2538, 2966, 312, 309, -2619, 2813, 294, 302, -2636, 2655, 313, 323, -2671, 2891, 291, 303, -2720, 2786, 271, 309, -2728, 2694, 310, 326, -2491, 2728, 321, 310, -2641, 2864, 303, 327, -2739, 2843, 304, 309, -2668, 2759, 291, 319, -2699, 2855, 296, 330, -2499, 2907, 329, 333, -2677, 2787, 320, 314, -2879, 2748, 272, 318, -2522, 2741, 317, 299, -2726, 2823, 295, 336, -2585, 2828, 307, 311, -2619, 2690, 323, 314, -2645, 2708, 301, 321, -2783, 2577, 275, 319, -2640, 2721, 322, 305, -2616, 2859, 273, 310, -2607, 2618, 292, 317, -2558, 2746, 289, 326, -2813, 2790, 321, 341, -2623, 2760, 309, 313, -2796, 2824, 271, 315, -2543, 2801, 332, 321, -2528, 2809, 308, 298, -2839, 2821, 286, 326, -2659, 2984, 344, 325, -2858, 2908, 285, 295, -2788, 2876, 316, 323, -2708, 3029, 293, 354, -2651], 16, "large-overlap");
    big.xs = 0;
    v.push(big);
    v
}

fn fixed_case(p: usize, labels2: &[i64], yc: &[usize], flat: &[i64], alpha_num: i64, layout: &'static str) -> LogitCase {
    let n = yc.len();
    let xi: Vec<Vec<i64>> = (0..n).map(|i| flat[i * p..(i + 1) * p].to_vec()).collect();
    LogitCase {
        n,
        p,
        k: labels2.len(),
        labels: labels2.iter().map(|v| *v as f64 / 2.0).collect(),
        yc: yc.to_vec(),
        qi: xi.clone(),
        xi,
        alpha_num,
        layout: layout.to_string(),
        xs: XS,
        style: 0,
        backend: 0,
        via_trait: false,
    }
}

/// batch sizes of one predict call / lengths of one training set that straddle the block
/// sizes an implementation may use internally
const BATCH_LADDER: [usize; 6] = [255, 256, 257, 300, 513, 700];
const TRAIN_LADDER: [usize; 10] = [63, 64, 65, 127, 128, 129, 255, 256, 257, 513];

fn gen_logit_file(path: &str, only: Option<usize>) {
    let mut out = Out::create(path);
    let mut r = rng(90);
    let th = thorough();
    let n = if th { 3000 } else { 600 };
    let (mut bad, mut unscaled) = (0, 0);
    if only.is_none() {
        for (i, c) in fixed_cases().into_iter().enumerate() {
            let c2 = c.clone();
            let o = watchdog(60, move || run_logit(&c2));
            out.emit(logit_event(900001 + i as i64, &c, o));
        }
        // size ladders (their own random stream, so the main sequence does not depend on them)
        let mut rl = rng(91);
        let mut run = 910000;
        // one predict call on a long batch, for two and for more classes
        for (i, &nq) in BATCH_LADDER.iter().enumerate() {
            for &k in &[2usize, 3 + (i % 2)] {
                let mut c = gen_logit(&mut rl, i, th, Force { k: Some(k), n: None, nq: Some(nq), small: false });
                if c.alpha_num == 0 {
                    c.alpha_num = 64; // keep the ladder cases inside the judged (penalised) domain
                }
                run += 1;
                let c2 = c.clone();
                let o = watchdog(60, move || run_logit(&c2));
                out.emit(logit_event(run, &c, o));
            }
        }
        // long training sets (small feature magnitudes keep the 32-bit sums of the spec in range)
        // quick: one length around each of 64, 128, 256 and the 513; thorough: all of them
        let picks: Vec<usize> = if th {
            (0..TRAIN_LADDER.len()).collect()
        } else {
            vec![rl.gen_range(0..3), 3 + rl.gen_range(0..3), 6 + rl.gen_range(0..3), 9]
        };
        for (i, &t) in picks.iter().enumerate() {
            let mut c = gen_logit(&mut rl, i, th, Force { k: None, n: Some(TRAIN_LADDER[t]), nq: Some(8), small: true });
            if c.alpha_num == 0 {
                c.alpha_num = 64;
            }
            run += 1;
            let c2 = c.clone();
            let o = watchdog(120, move || run_logit(&c2));
            out.emit(logit_event(run, &c, o));
        }
    }
    for idx in 0..n {
        let c = gen_logit(&mut r, idx, th, Force::default());
        if only.map(|o| o != idx).unwrap_or(false) {
            continue;
        }
        let c2 = c.clone();
        let o = watchdog(60, move || run_logit(&c2));
        let e = logit_event(idx as i64 + 1, &c, o);
        if e["status"] != "ok" {
            bad += 1;
        } else if e["wOk"] == false {
            unscaled += 1;
        }
        out.emit(e);
    }
    let n = out.finish();
    println!("logit: {} events, {} not ok, {} out of fixed-point range", n, bad, unscaled);
}

/// re-execute recorded LogitFit events from their own input fields (replay of an artefact)
fn refit_file(inp: &str, path: &str) {
    let mut out = Out::create(path);
    for v in read_ndjson(inp) {
        if v["ev"] != "LogitFit" {
            continue;
        }
        let mat = |a: &Value| -> Vec<Vec<i64>> {
            a.as_array()
                .unwrap()
                .iter()
                .map(|r| r.as_array().unwrap().iter().map(|x| x.as_i64().unwrap()).collect())
                .collect()
        };
        let ints = |a: &Value| -> Vec<i64> { a.as_array().unwrap().iter().map(|x| x.as_i64().unwrap()).collect() };
        let style = STYLES.iter().position(|s| Some(*s) == v["build"].as_str()).unwrap_or(0);
        let backend = BACKENDS.iter().position(|s| Some(*s) == v["backend"].as_str()).unwrap_or(0);
        // the labels bit for bit; older artefacts carry only the doubled values
        let labels: Vec<f64> = match v["labelBits"].as_array() {
            Some(a) => a
                .iter()
                .map(|hl| f64::from_bits(((hl[0].as_u64().unwrap()) << 32) | hl[1].as_u64().unwrap()))
                .collect(),
            None => ints(&v["labels2"]).iter().map(|c| *c as f64 / 2.0).collect(),
        };
        let c = LogitCase {
            n: v["n"].as_u64().unwrap() as usize,
            p: v["p"].as_u64().unwrap() as usize,
            k: v["k"].as_u64().unwrap() as usize,
            labels,
            yc: ints(&v["yc"]).iter().map(|x| *x as usize - 1).collect(),
            xi: mat(&v["X"]),
            qi: mat(&v["Q"]),
            alpha_num: v["alphaNum"].as_i64().unwrap(),
            layout: v["layout"].as_str().unwrap_or("given").to_string(),
            xs: v["xS"].as_i64().unwrap_or(XS as i64) as i32,
            style,
            backend,
            via_trait: v["entry"].as_str() == Some("trait"),
        };
        let c2 = c.clone();
        let o = watchdog(60, move || run_logit(&c2));
        out.emit(logit_event(v["run"].as_i64().unwrap_or(0), &c, o));
    }
    println!("refit: {} events", out.finish());
}

fn main() {
    let args: Vec<String> = std::env::args().skip(1).collect();
    let args = &args[..];
    silence_panics();
    let mode = arg(args, 0);
    let path = arg(args, 1);
    match mode {
        "gen-lbfgs" => gen_lbfgs(path, None),
        "gen-logit" => gen_logit_file(path, None),
        "gen-gd" => gen_gd(path),
        // rerun-* <out> <run>: execute again the case that produced run number <run>
        "rerun-lbfgs" => gen_lbfgs(path, Some(arg(args, 2).parse::<usize>().expect("run number") - 1)),
        "rerun-logit" => gen_logit_file(path, Some(arg(args, 2).parse::<usize>().expect("run number") - 1)),
        // refit-file <out> <in>: fit again the training sets stored in recorded LogitFit events
        "refit-file" => refit_file(arg(args, 2), path),
        _ => {
            eprintln!("unknown mode {}", mode);
            std::process::exit(2)
        }
    }
}
