//! C09 — logistic regression and the L-BFGS minimiser.
//!
//! `gen-lbfgs <out>`  The harness *is* the objective: a strictly convex quadratic
//!     f(x) = 1/2 x'Mx - b'x with an integer SPD matrix M of known spectrum.  The real
//!     `LBFGS::optimize` (re-exported by smartcore::verif) is called with closures that log
//!     every evaluation point.  The accepted iterates are the points at which the gradient
//!     call-back is invoked (the back-tracking search uses `f` only).  Per accepted iterate
//!     the harness records two exact projections: the dense rank of f among the values of
//!     the run and the binary exponent of the infinity norm of the gradient.
//! `gen-logit <out>`  Fits `LogisticRegression` on generated training sets whose features
//!     are small dyadic rationals (logged exactly as integers), and records the fitted
//!     coefficients / intercepts in fixed point together with the predictions.
//!
//! No property logic lives here.  Whether a run is monotone, reduced, stationary, ... is
//! decided by the TLA+ predicates of spec/linear/LBFGS.tla and Logistic.tla under TLC.
use rand::rngs::StdRng;
use rand::Rng;
use serde_json::{json, Value};
use smartcore::linalg::naive::dense_matrix::DenseMatrix;
use smartcore::linalg::BaseMatrix;
use smartcore::linear::logistic_regression::{LogisticRegression, LogisticRegressionParameters};
use smartcore::verif::{Backtracking, FirstOrderOptimizer, FunctionOrder, LBFGS};
use std::cell::RefCell;
use vutil::*;

// ------------------------------------------------------------------------------------------
// L-BFGS on quadratics
// ------------------------------------------------------------------------------------------

/// description of one optimiser run (everything needed to rebuild it exactly)
#[derive(Clone, Debug)]
struct QuadCase {
    d: usize,
    /// integer SPD matrix, row major (exact in f64: |entries| < 2^50)
    m: Vec<i64>,
    /// spectrum of `m` is cscale * eig[i]
    eig: Vec<i64>,
    cond: i64,
    /// power-of-two rescaling of the whole objective (exact)
    fscale: i32,
    b: Vec<f64>,
    x0: Vec<f64>,
    max_iter: usize,
    /// g_atol = 0 (code -1), default 1e-8 (code 0), or 2^atol_e (code 1)
    atol_kind: i32,
    atol_e: i32,
    hist: usize,
    third: bool,
    family: &'static str,
}

/// (cI - 2vv') D (cI - 2vv') for integer v, c = v'v: an integer matrix with spectrum c^2 * D
fn conjugate_householder(d: usize, mat: &[i64], v: &[i64]) -> Vec<i64> {
    let c: i64 = v.iter().map(|a| a * a).sum();
    let mut h = vec![0i64; d * d];
    for i in 0..d {
        for j in 0..d {
            h[i * d + j] = (if i == j { c } else { 0 }) - 2 * v[i] * v[j];
        }
    }
    let mul = |a: &[i64], b: &[i64]| -> Vec<i64> {
        let mut r = vec![0i64; d * d];
        for i in 0..d {
            for j in 0..d {
                let mut s = 0i64;
                for k in 0..d {
                    s += a[i * d + k] * b[k * d + j];
                }
                r[i * d + j] = s;
            }
        }
        r
    };
    mul(&mul(&h, mat), &h)
}

fn gen_quad(r: &mut StdRng, idx: usize) -> QuadCase {
    let d = 1 + (idx % 12);
    // spectrum: integers in [1, cond], log-uniform, both ends attained
    let cond: i64 = match r.gen_range(0..6) {
        0 => 1,
        1 => r.gen_range(2..=10),
        2 => r.gen_range(11..=100),
        3 => r.gen_range(101..=1000),
        4 => r.gen_range(1001..=10000),
        _ => 10000,
    };
    let mut eig: Vec<i64> = (0..d)
        .map(|_| {
            let u: f64 = r.gen::<f64>() * (cond as f64).ln();
            (u.exp().round() as i64).max(1).min(cond)
        })
        .collect();
    eig[0] = 1;
    if d > 1 {
        eig[d - 1] = cond;
    }
    let cond = *eig.iter().max().unwrap();
    let mut m = vec![0i64; d * d];
    for i in 0..d {
        m[i * d + i] = eig[i];
    }
    // zero, one or two integer Householder conjugations (exact integer arithmetic)
    let family;
    let nrot = if d == 1 { 0 } else { r.gen_range(0..3) };
    for _ in 0..nrot {
        let mut v: Vec<i64> = (0..d).map(|_| r.gen_range(-2..=2)).collect();
        if v.iter().all(|a| *a == 0) {
            v[0] = 1;
        }
        m = conjugate_householder(d, &m, &v);
    }
    family = match nrot {
        0 => "diag",
        1 => "house1",
        _ => "house2",
    };
    let fscale = match r.gen_range(0..4) {
        0 => r.gen_range(-30..=-1),
        1 => r.gen_range(1..=30),
        _ => 0,
    };
    let bs = r.gen_range(0..3);
    let b: Vec<f64> = (0..d)
        .map(|_| match bs {
            0 => 0.0,
            1 => r.gen_range(-50..=50) as f64,
            _ => r.gen_range(-50..=50) as f64 * 1024.0,
        })
        .collect();
    let xe = match r.gen_range(0..4) {
        0 => r.gen_range(-10..=0),
        1 => r.gen_range(1..=20),
        _ => 0,
    };
    let mut x0: Vec<f64> = (0..d)
        .map(|_| r.gen_range(-100..=100) as f64 * (2.0f64).powi(xe))
        .collect();
    if r.gen_range(0..20) == 0 {
        x0 = vec![0.0; d];
    }
    let (max_iter, atol_kind, atol_e) = match r.gen_range(0..10) {
        0 => (r.gen_range(1..=4), 0, 0),
        1 | 2 => (1000, -1, 0),
        3 | 4 => (1000, 1, 0),
        _ => (1000, 0, 0),
    };
    let hist = match r.gen_range(0..5) {
        0 => 1,
        1 => 3,
        2 => 20,
        _ => 10,
    };
    QuadCase {
        d,
        m,
        eig,
        cond,
        fscale,
        b,
        x0,
        max_iter,
        atol_kind,
        atol_e,
        hist,
        third: r.gen_bool(0.5),
        family,
    }
}

struct CallLog {
    /// gradient calls: (point, f at the point, |g|_inf)
    g: Vec<(Vec<f64>, f64, f64)>,
    /// number of objective evaluations seen before the i-th gradient call
    nf_at: Vec<usize>,
    nf: usize,
}

struct QuadOutcome {
    status: &'static str,
    log: CallLog,
    ret: Option<(Vec<f64>, f64, usize)>,
}

fn run_quad(c: &QuadCase) -> QuadOutcome {
    let d = c.d;
    let s = (2.0f64).powi(c.fscale);
    let mf: Vec<f64> = c.m.iter().map(|v| *v as f64 * s).collect();
    let bf: Vec<f64> = c.b.iter().map(|v| *v * s).collect();
    let fval = |x: &[f64]| -> f64 {
        let mut q = 0.0;
        for i in 0..d {
            let mut row = 0.0;
            for j in 0..d {
                row += mf[i * d + j] * x[j];
            }
            q += x[i] * (0.5 * row - bf[i]);
        }
        q
    };
    let gval = |x: &[f64]| -> Vec<f64> {
        (0..d)
            .map(|i| {
                let mut row = 0.0;
                for j in 0..d {
                    row += mf[i * d + j] * x[j];
                }
                row - bf[i]
            })
            .collect()
    };
    let log = RefCell::new(CallLog {
        g: vec![],
        nf_at: vec![],
        nf: 0,
    });
    let pt = |x: &DenseMatrix<f64>| -> Vec<f64> { (0..d).map(|j| x.get(0, j)).collect() };
    let f = |x: &DenseMatrix<f64>| -> f64 {
        log.borrow_mut().nf += 1;
        fval(&pt(x))
    };
    let df = |g: &mut DenseMatrix<f64>, x: &DenseMatrix<f64>| {
        let p = pt(x);
        let gv = gval(&p);
        let mut ninf = 0.0f64;
        let mut bad = false;
        for (j, v) in gv.iter().enumerate() {
            g.set(0, j, *v);
            if !v.is_finite() {
                bad = true;
            }
            ninf = ninf.max(v.abs());
        }
        if bad {
            ninf = f64::NAN;
        }
        let mut l = log.borrow_mut();
        let nf = l.nf;
        l.nf_at.push(nf);
        let fv = fval(&p);
        l.g.push((p, fv, ninf));
    };
    let mut opt: LBFGS<f64> = Default::default();
    opt.max_iter = c.max_iter;
    opt.m = c.hist;
    // the tolerance is fixed before the run from the gradient at the start (exact scaling)
    let g0 = gval(&c.x0).iter().fold(0.0f64, |a, v| a.max(v.abs()));
    match c.atol_kind {
        -1 => opt.g_atol = 0.0,
        1 => opt.g_atol = g0 * (2.0f64).powi(-44),
        _ => {}
    }
    let ls: Backtracking<f64> = Backtracking {
        order: if c.third {
            FunctionOrder::THIRD
        } else {
            FunctionOrder::SECOND
        },
        ..Default::default()
    };
    let x0 = DenseMatrix::row_vector_from_array(&c.x0);
    let r = guard(|| opt.optimize(&f, &df, &x0, &ls));
    let (status, ret) = match r {
        Ok(res) => ("ok", Some((pt(&res.x), res.f_x, res.iterations))),
        Err(_) => ("panic", None),
    };
    let _ = c.atol_e;
    let mut l = log.into_inner();
    // value of the objective and the gradient at the returned point, by the same call-backs
    if let Some((x, _, _)) = &ret {
        let gv = gval(x);
        let mut ninf = gv.iter().fold(0.0f64, |a, v| a.max(v.abs()));
        if gv.iter().any(|v| !v.is_finite()) {
            ninf = f64::NAN;
        }
        l.g.push((x.clone(), fval(x), ninf));
    }
    QuadOutcome {
        status,
        log: l,
        ret,
    }
}

fn atol_of(c: &QuadCase, g0: f64) -> f64 {
    match c.atol_kind {
        -1 => 0.0,
        1 => g0 * (2.0f64).powi(-44),
        _ => 1e-8,
    }
}

/// events of one run.  Iterates = points of the gradient calls with consecutive repetitions
/// of the same point merged (the optimiser re-evaluates the gradient at the current point
/// at the beginning of every iteration).
fn quad_events(run: i64, c: &QuadCase, o: &QuadOutcome) -> Vec<Value> {
    let mut ev = vec![];
    let has_ret = o.ret.is_some();
    let calls = &o.log.g;
    let ncalls = if has_ret { calls.len() - 1 } else { calls.len() };
    // merge consecutive duplicates
    let mut it: Vec<usize> = vec![];
    for i in 0..ncalls {
        if i == 0 || calls[i].0 != calls[it[it.len() - 1]].0 {
            it.push(i);
        }
    }
    // ranks over every finite objective value of the run (iterates, returned point, reported f_x)
    let mut vals: Vec<f64> = vec![];
    for &i in &it {
        if calls[i].1.is_finite() {
            vals.push(calls[i].1);
        }
    }
    if has_ret && calls[ncalls].1.is_finite() {
        vals.push(calls[ncalls].1);
    }
    if let Some((_, fx, _)) = &o.ret {
        if fx.is_finite() {
            vals.push(*fx);
        }
    }
    let ranks = dense_ranks(&vals);
    let rank_of = |v: f64| -> i64 {
        if !v.is_finite() {
            return 0;
        }
        let p = vals.iter().position(|w| *w == v).unwrap();
        ranks[p]
    };
    let gex = |v: f64| -> i64 {
        if v.is_nan() {
            2000
        } else {
            bin_exp(v)
        }
    };
    let g0 = if calls.is_empty() { 0.0 } else { calls[0].2 };
    let atol = atol_of(c, g0);
    let dbg = std::env::var("C09_DEBUG").is_ok();
    for (k, &i) in it.iter().enumerate() {
        let (_, fv, gn) = &calls[i];
        if k == 0 {
            let mut e = json!({"run": run, "ev": "Start", "dim": c.d, "cond": c.cond, "family": c.family,
                "maxIter": c.max_iter, "m": c.hist, "order": if c.third {"third"} else {"second"},
                "atolKind": c.atol_kind, "atolEx": if atol == 0.0 { -2000 } else { bin_exp(atol) },
                "fscale": c.fscale, "x0Ex": bin_exp(c.x0.iter().fold(0.0f64, |a, v| a.max(v.abs()))),
                "fFin": fv.is_finite(), "fRk": rank_of(*fv), "gEx": gex(*gn)});
            if dbg {
                e["dbg"] = json!(format!("f={:e} g={:e} eig={:?}", fv, gn, c.eig));
            }
            ev.push(e);
        } else {
            let prev = it[k - 1];
            let nf = o.log.nf_at[i] - o.log.nf_at[prev];
            let mut e = json!({"run": run, "ev": "Iter", "k": k, "fFin": fv.is_finite(), "fRk": rank_of(*fv),
                "gEx": gex(*gn), "nF": nf});
            if dbg {
                e["dbg"] = json!(format!("f={:e} g={:e}", fv, gn));
            }
            ev.push(e);
        }
    }
    match &o.ret {
        Some((x, fx, iters)) => {
            let (_, fr, gr) = &calls[ncalls];
            let last = it.last().map(|&i| &calls[i].0);
            ev.push(json!({"run": run, "ev": "Stop", "status": o.status, "iters": iters, "nIter": it.len() as i64 - 1,
                "gradCalls": ncalls, "fEvals": o.log.nf,
                "retFFin": fr.is_finite(), "retFRk": rank_of(*fr), "retGEx": gex(*gr),
                "retIsLast": last.map(|l| l == x).unwrap_or(false),
                "fxFin": fx.is_finite(), "fxRk": rank_of(*fx)}));
        }
        None => {
            ev.push(json!({"run": run, "ev": "Stop", "status": o.status, "iters": 0, "nIter": it.len() as i64 - 1,
                "gradCalls": ncalls, "fEvals": o.log.nf,
                "retFFin": false, "retFRk": 0, "retGEx": 2000, "retIsLast": false, "fxFin": false, "fxRk": 0}));
        }
    }
    ev
}

fn gen_lbfgs(path: &str) {
    let mut out = Out::create(path);
    let mut r = rng(9);
    let n = if thorough() { 6000 } else { 600 };
    let mut timeouts = 0;
    for idx in 0..n {
        let c = gen_quad(&mut r, idx);
        let c2 = c.clone();
        let o = watchdog(20, move || run_quad(&c2));
        let run = idx as i64 + 1;
        match o {
            Some(Ok(o)) => {
                for e in quad_events(run, &c, &o) {
                    out.emit(e);
                }
            }
            _ => {
                timeouts += 1;
                out.emit(json!({"run": run, "ev": "Start", "dim": c.d, "cond": c.cond, "family": c.family,
                    "maxIter": c.max_iter, "m": c.hist, "order": if c.third {"third"} else {"second"},
                    "atolKind": c.atol_kind, "atolEx": 0, "fscale": c.fscale, "x0Ex": 0,
                    "fFin": false, "fRk": 0, "gEx": 2000}));
                out.emit(json!({"run": run, "ev": "Stop", "status": "timeout", "iters": 0, "nIter": 0,
                    "gradCalls": 0, "fEvals": 0,
                    "retFFin": false, "retFRk": 0, "retGEx": 2000, "retIsLast": false, "fxFin": false, "fxRk": 0}));
            }
        }
    }
    let n = out.finish();
    println!("lbfgs: {} events, {} timeouts", n, timeouts);
}

fn main() {
    let args: Vec<String> = std::env::args().skip(1).collect();
    let args = &args[..];
    silence_panics();
    let mode = arg(args, 0);
    let path = arg(args, 1);
    match mode {
        "gen-lbfgs" => gen_lbfgs(path),
        _ => {
            eprintln!("unknown mode {}", mode);
            std::process::exit(2)
        }
    }
    let _ = (LogisticRegression::<f64, DenseMatrix<f64>>::fit, LogisticRegressionParameters::<f64>::default);
}
