//! The built-in back ends: DenseMatrix<f64> / Vec<f64> and DenseMatrix<f32> / Vec<f32>.
#![allow(dead_code)]
use crate::ops::Be;
use smartcore::linalg::naive::dense_matrix::DenseMatrix;

pub struct Dense64;
pub struct Dense32;

macro_rules! dense_be {
    ($name:ident, $t:ty, $be:expr, $ty:expr) => {
        impl Be for $name {
            type T = $t;
            type M = DenseMatrix<$t>;
            const NAME: &'static str = $be;
            const TY: &'static str = $ty;
            fn build(via: &str, r: usize, c: usize, data: &[$t]) -> DenseMatrix<$t> {
                match via {
                    "from_array" => DenseMatrix::from_array(r, c, data),
                    "from_vec" => DenseMatrix::from_vec(r, c, data),
                    "from_2d_array" => {
                        let rows: Vec<&[$t]> = data.chunks(c).collect();
                        DenseMatrix::from_2d_array(&rows)
                    }
                    "from_2d_vec" => {
                        let rows: Vec<Vec<$t>> = data.chunks(c).map(|x| x.to_vec()).collect();
                        DenseMatrix::from_2d_vec(&rows)
                    }
                    "new" => DenseMatrix::new(r, c, data.to_vec()),
                    "row_vector_from_array" => DenseMatrix::row_vector_from_array(data),
                    "row_vector_from_vec" => DenseMatrix::row_vector_from_vec(data.to_vec()),
                    "column_vector_from_array" => DenseMatrix::column_vector_from_array(data),
                    "column_vector_from_vec" => DenseMatrix::column_vector_from_vec(data.to_vec()),
                    // the native constructions of the other back ends have no DenseMatrix counterpart
                    v if v.starts_with("nat_") => DenseMatrix::from_array(r, c, data),
                    other => panic!("harness: unknown constructor {}", other),
                }
            }
            fn roundtrip(m: &DenseMatrix<$t>, fmt: &str) -> Option<Result<DenseMatrix<$t>, String>> {
                Some(if fmt == "serde_json" {
                    serde_json::to_string(m).map_err(|e| e.to_string()).and_then(|s| serde_json::from_str(&s).map_err(|e| e.to_string()))
                } else {
                    bincode::serialize(m).map_err(|e| e.to_string()).and_then(|b| bincode::deserialize(&b).map_err(|e| e.to_string()))
                })
            }
            fn iter_mode(m: &DenseMatrix<$t>, mode: &str, k: usize) -> Option<Vec<f64>> {
                let f = |x: $t| x as f64;
                Some(match mode {
                    "iter_nth" => m.iter().nth(k.saturating_sub(1)).map(f).into_iter().collect(),
                    "iter_skip" => m.iter().skip(k).map(f).collect(),
                    "iter_step" => m.iter().step_by(k.max(1)).map(f).collect(),
                    "iter_count" => vec![m.iter().count() as f64],
                    "iter_last" => m.iter().last().map(f).into_iter().collect(),
                    _ => {
                        let mut it = m.iter();
                        for _ in 0..k {
                            it.next();
                        }
                        let (lo, hi) = it.size_hint();
                        vec![lo as f64, hi.map(|h| h as f64).unwrap_or(-1.0)]
                    }
                })
            }
            fn iter_flat(m: &DenseMatrix<$t>) -> Option<Vec<$t>> {
                Some(m.iter().collect())
            }
            fn veq(a: &Vec<$t>, b: &Vec<$t>) -> bool {
                a == b
            }
        }
    };
}
dense_be!(Dense64, f64, "dense", "f64");
dense_be!(Dense32, f32, "dense", "f32");

