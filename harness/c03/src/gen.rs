//! Random op-program generator (input generation only).  It looks at the *meta data* of the
//! registers (kind, shape, largest magnitude, all taken from the observations) to choose
//! calls whose exact results stay representable: every value below 2^24 (single precision)
//! and every intermediate of the specification below 2^31 (TLC integers).  With a fixed
//! probability it deliberately pairs operands of incompatible shape.
#![allow(dead_code)]
use crate::ops::{Codec, Meta, OpCall, NREG};
use rand::rngs::StdRng;
use rand::Rng;

pub const SMALL: f64 = 300.0; // operands of products
pub const MED: f64 = 100_000.0; // operands of sums and differences
pub const ANY: f64 = 1.0e7;

pub struct Gen {
    pub rng: StdRng,
    /// calls already planned (operands are built first, the intended call follows)
    pending: std::collections::VecDeque<OpCall>,
    pub allow_iter: bool,
    pub maxdim: usize,
    /// vector-heavy run: most calls go to BaseVector methods
    pub vec_bias: bool,
    /// also build operands through the native API of the back ends (nat_* constructors; C20)
    pub allow_native: bool,
    /// the number codec of the current run: restricts the vocabulary to what is exact under it
    pub mode: Codec,
    /// size-ladder run: operands whose element count sits at 63/64/65 ... 1023/1024/1025 or a few thousand
    pub ladder: bool,
}

fn oc(op: &str, a: usize, b: usize, dst: usize, ia: Vec<i64>) -> OpCall {
    OpCall::new(op, a, b, dst, ia, vec![], vec![])
}

impl Gen {
    pub fn new(rng: StdRng, allow_iter: bool, maxdim: usize) -> Gen {
        Gen { rng, pending: std::collections::VecDeque::new(), allow_iter, maxdim, vec_bias: false, allow_native: false, mode: Codec::Plain, ladder: false }
    }

    pub fn reset(&mut self) {
        self.pending.clear();
    }

    fn p(&mut self, x: f64) -> bool {
        self.rng.gen_bool(x)
    }

    fn ri(&mut self, lo: i64, hi: i64) -> i64 {
        self.rng.gen_range(lo..=hi)
    }

    fn ru(&mut self, lo: usize, hi: usize) -> usize {
        self.rng.gen_range(lo..=hi)
    }

    fn pick<T: Copy>(&mut self, xs: &[T]) -> T {
        xs[self.rng.gen_range(0..xs.len())]
    }

    pub fn data(&mut self, n: usize) -> Vec<i64> {
        let mut class = self.ru(0, 9);
        if self.ladder && (class == 6 || class == 8) {
            class = 0; // thousands of entries: keep them small so that sums stay exact in single precision
        }
        let eq = self.ri(-9, 9);
        (0..n)
            .map(|_| match class {
                0 | 1 | 2 => self.ri(-9, 9),
                3 => self.ri(-9, -1),
                4 => self.ri(1, 9),
                5 => eq,
                6 => self.ri(-300, 300),
                7 => {
                    if self.p(0.6) {
                        0
                    } else {
                        self.ri(-3, 3)
                    }
                }
                8 => self.ri(-300, -100),
                _ => self.ri(-2, 2),
            })
            .collect()
    }

    /// a shape whose number of entries crosses a power-of-two block size
    fn ladder_shape(&mut self) -> (usize, usize) {
        let n = self.pick(&[
            63usize, 64, 65, 127, 128, 129, 255, 256, 257, 511, 512, 513, 1023, 1024, 1025, 1025, 1026, 1056, 1100, 2047, 2048, 2049,
            2050, 3000, 4100, 1025, 1057, 2049,
        ]);
        let x = self.rng.gen_range(0.0..1.0);
        if x < 0.3 {
            return (1, n);
        }
        if x < 0.5 {
            return (n, 1);
        }
        let divs: Vec<usize> = (2..n).filter(|d| n % d == 0).collect();
        if divs.is_empty() {
            return (1, n);
        }
        let r = self.pick(&divs);
        (r, n / r)
    }

    pub fn shape(&mut self) -> (usize, usize) {
        if self.ladder {
            return self.ladder_shape();
        }
        let big = if self.p(0.1) { self.maxdim } else { 6.min(self.maxdim) };
        let x = self.rng.gen_range(0.0..1.0);
        if x < 0.08 {
            (1, 1)
        } else if x < 0.22 {
            (1, self.ru(1, big))
        } else if x < 0.36 {
            (self.ru(1, big), 1)
        } else {
            (self.ru(1, big), self.ru(1, big))
        }
    }

    fn slot_except(&mut self, ex: &[usize]) -> usize {
        loop {
            let s = self.ru(1, NREG);
            if !ex.contains(&s) {
                return s;
            }
        }
    }

    fn any_slot(&mut self) -> usize {
        self.ru(1, NREG)
    }

    fn mats(&self, meta: &[Meta], bound: f64) -> Vec<usize> {
        (1..=NREG).filter(|&i| meta[i].kind == 1 && meta[i].r >= 1 && meta[i].c >= 1 && meta[i].maxabs <= bound).collect()
    }

    fn vecs(&self, meta: &[Meta], bound: f64) -> Vec<usize> {
        (1..=NREG).filter(|&i| meta[i].kind == 2 && meta[i].c >= 1 && meta[i].maxabs <= bound).collect()
    }

    pub fn build_call(&mut self, dst: usize, r: usize, c: usize) -> OpCall {
        let n = r * c;
        let mut d = self.data(n);
        if self.allow_native && self.p(0.3) {
            let via = self.pick(&[
                "nat_row_offset", "nat_col_offset", "nat_inplace", "nat_strided", "nat_reversed", "nat_t_owned",
                "nat_broadcast", "nat_remove_row", "nat_resize", "nat_row_offset",
            ]);
            if via == "nat_broadcast" {
                // a broadcast row: all rows equal
                for i in 1..r {
                    for j in 0..c {
                        d[i * c + j] = d[j];
                    }
                }
            }
            return OpCall::new(via, 0, 0, dst, vec![r as i64, c as i64], d, vec![]);
        }
        if r == 1 && self.p(0.5) {
            let via = self.pick(&["row_vector_from_array", "row_vector_from_vec"]);
            return OpCall::new(via, 0, 0, dst, vec![], d, vec![]);
        }
        if c == 1 && self.p(0.5) {
            let via = self.pick(&["column_vector_from_array", "column_vector_from_vec"]);
            return OpCall::new(via, 0, 0, dst, vec![], d, vec![]);
        }
        let via = self.pick(&["from_array", "from_vec", "from_2d_array", "from_2d_vec", "new", "from_array", "from_2d_array"]);
        OpCall::new(via, 0, 0, dst, vec![r as i64, c as i64], d, vec![])
    }

    fn build_any(&mut self) -> OpCall {
        let dst = self.any_slot();
        let x = self.rng.gen_range(0.0..1.0);
        if x < 0.06 {
            return oc("eye", 0, 0, dst, vec![self.ri(1, 6)]);
        }
        if x < 0.14 {
            let (r, c) = self.shape();
            let op = self.pick(&["zeros", "ones", "fill"]);
            let mut ia = vec![r as i64, c as i64];
            if op == "fill" {
                ia.push(self.ri(-9, 9));
            }
            return oc(op, 0, 0, dst, ia);
        }
        if x < 0.30 {
            return self.build_vec(dst, None);
        }
        let (r, c) = self.shape();
        self.build_call(dst, r, c)
    }

    fn build_vec(&mut self, dst: usize, len: Option<usize>) -> OpCall {
        let n = len.unwrap_or_else(|| if self.ladder { self.ladder_shape().0.max(self.ladder_shape().1) } else { self.ru(1, 8) });
        if self.allow_native && self.p(0.3) {
            let via = self.pick(&["v_nat_reversed", "v_nat_strided", "v_nat_offset", "v_nat_reversed"]);
            let d = self.data(n);
            return OpCall::new(via, 0, 0, dst, vec![], d, vec![]);
        }
        let x = self.rng.gen_range(0.0..1.0);
        if x < 0.7 {
            let d = self.data(n);
            OpCall::new("v_from_array", 0, 0, dst, vec![], d, vec![])
        } else if x < 0.8 {
            oc("v_zeros", 0, 0, dst, vec![n as i64])
        } else if x < 0.9 {
            oc("v_ones", 0, 0, dst, vec![n as i64])
        } else {
            oc("v_fill", 0, 0, dst, vec![n as i64, self.ri(-9, 9)])
        }
    }

    /// second matrix operand of shape (r, c): an existing register or a fresh one (then the
    /// intended call is postponed by one step)
    fn with_b(&mut self, meta: &[Meta], mut call: OpCall, r: usize, c: usize, bound: f64) -> OpCall {
        let cands: Vec<usize> = self.mats(meta, bound).into_iter().filter(|&i| meta[i].r == r && meta[i].c == c).collect();
        if !cands.is_empty() && self.p(0.6) {
            call.b = self.pick(&cands);
            return call;
        }
        let s = self.slot_except(&[call.a]);
        call.b = s;
        if self.p(0.3) {
            // the second operand arrives through a transpose: same logical shape, but a memory layout
            // that differs from the first operand's on back ends where transpose only swaps the strides
            self.pending.push_back(oc("transpose", s, 0, s, vec![]));
            self.pending.push_back(call);
            return self.build_call(s, c, r);
        }
        self.pending.push_back(call);
        self.build_call(s, r, c)
    }

    fn with_vb(&mut self, meta: &[Meta], mut call: OpCall, len: usize, bound: f64) -> OpCall {
        let cands: Vec<usize> = self.vecs(meta, bound).into_iter().filter(|&i| meta[i].c == len).collect();
        if !cands.is_empty() && self.p(0.6) {
            call.b = self.pick(&cands);
            return call;
        }
        let s = self.slot_except(&[call.a]);
        call.b = s;
        self.pending.push_back(call);
        self.build_vec(s, Some(len))
    }

    fn other_dim(&mut self, d: usize) -> usize {
        loop {
            let x = self.ru(1, 6.max(d + 2));
            if x != d {
                return x;
            }
        }
    }

    /// a size next to d: one or two more, or one or two less
    fn off_size(&mut self, d: usize) -> usize {
        let k = self.ru(1, 2);
        if d > k && self.p(0.5) {
            d - k
        } else {
            d + k
        }
    }

    /// An incompatible call of every binary operation with a VECTOR-SHAPED second operand (1xq or qx1) that
    /// is over- or under-sized; all four flag combinations of `ab`.
    fn reject_vec(&mut self, meta: &[Meta]) -> Option<OpCall> {
        let op = self.pick(&[
            "add", "sub", "mul", "div", "add_mut", "sub_mut", "mul_mut", "div_mut", "copy_from", "matmul", "matmul", "ab", "ab",
            "ab", "ab", "h_stack", "v_stack", "approximate_eq", "eq",
        ]);
        let bound = if op.starts_with("mul") || op == "matmul" || op == "ab" { SMALL } else { MED };
        let a = self.pick_m(meta, bound)?;
        let (r, c) = (meta[a].r, meta[a].c);
        let dst = self.any_slot();
        let row = self.p(0.5); // B is 1 x q, otherwise q x 1
        let (ia, need): (Vec<i64>, usize) = match op {
            "matmul" => (vec![], c),
            "ab" => {
                let ta = self.p(0.5);
                let tb = self.p(0.5);
                (vec![ta as i64, tb as i64], if ta { r } else { c })
            }
            "h_stack" => (vec![], r),
            "v_stack" => (vec![], c),
            "approximate_eq" => (vec![self.ri(0, 3)], 0),
            _ => (vec![], 0),
        };
        let q = if need == 0 { self.ru(1, 7) } else { self.off_size(need) };
        // which dimension of B takes part in the contract
        let (br, bc) = match op {
            "matmul" => {
                if row && c != 1 { (1, q) } else { (q, 1) }          // rows of B must equal c
            }
            "ab" => {
                let tb = ia[1] == 1;
                // rows of op(B) must equal `need`: op(B) = B^T when tb
                if tb {
                    if row || need == 1 { (1, q) } else { (q, 1) }   // B = 1 x q: B^T has q rows
                } else if !row || need == 1 {
                    (q, 1)
                } else {
                    (1, q)                                           // 1 row, need != 1
                }
            }
            "h_stack" => {
                if row && r != 1 { (1, q) } else { (q, 1) }
            }
            "v_stack" => {
                if !row && c != 1 { (q, 1) } else { (1, q) }
            }
            _ => {
                // element-wise, copy, equality: any vector shape different from A's shape
                let (x, y) = if row { (1, q) } else { (q, 1) };
                if (x, y) == (r, c) { (x + 1, y) } else { (x, y) }
            }
        };
        Some(self.with_b(meta, oc(op, a, 0, dst, ia), br, bc, bound))
    }

    /// operations whose definition is exact under the codec of the run
    fn allowed(&self, c: &OpCall) -> bool {
        const SCALE: &[&str] = &[
            "from_array", "from_vec", "from_2d_array", "from_2d_vec", "new", "row_vector_from_array", "row_vector_from_vec",
            "column_vector_from_array", "column_vector_from_vec", "zeros", "fill", "v_from_array", "v_zeros", "v_fill",
            "nat_row_offset", "nat_col_offset", "nat_inplace", "nat_strided", "nat_reversed", "nat_t_owned", "nat_broadcast",
            "nat_remove_row", "nat_resize", "v_nat_reversed", "v_nat_strided", "v_nat_offset",
            "clone", "transpose", "slice", "reshape", "take", "h_stack", "v_stack", "get_row", "to_row_vector", "from_row_vector",
            "copy_from", "set", "v_clone", "v_take", "v_set", "v_copy_from",
            "shape", "get", "get_row_as_vec", "get_col_as_vec", "copy_row_as_vec", "copy_col_as_vec", "iter", "min", "max", "argmax",
            "unique", "v_unique", "v_len", "v_get", "v_to_vec", "eq", "v_eq",
            // additionally exact under a power-of-two rescaling (linear in the data)
            "negative", "negative_mut", "abs", "abs_mut", "add", "sub", "add_mut", "sub_mut", "add_scalar", "sub_scalar",
            "add_scalar_mut", "sub_scalar_mut", "mul_scalar", "mul_scalar_mut", "add_element_mut", "sub_element_mut",
            "mul_element_mut", "v_add", "v_sub", "v_add_mut", "v_sub_mut", "v_add_scalar", "v_sub_scalar", "v_add_scalar_mut",
            "v_sub_scalar_mut", "v_mul_scalar", "v_mul_scalar_mut", "v_add_element_mut", "v_sub_element_mut",
            "v_mul_element_mut", "sum", "norm1", "norm_inf", "norm_ninf", "max_diff", "approximate_eq", "v_approximate_eq",
            "column_mean", "mean", "div_scalar", "div_scalar_mut", "v_sum", "v_norm1", "v_norm_inf", "v_norm_ninf", "v_mean",
            "v_div_scalar", "v_div_scalar_mut",
        ];
        const LADDER: &[&str] = &[
            "from_array", "from_vec", "from_2d_array", "new", "row_vector_from_array", "column_vector_from_vec", "v_from_array",
            "nat_row_offset", "nat_col_offset", "nat_strided", "nat_reversed", "nat_t_owned", "v_nat_reversed", "v_nat_strided",
            "v_nat_offset", "clone", "transpose", "reshape", "to_row_vector", "get_row", "from_row_vector", "negative", "abs",
            "add_scalar", "mul_scalar", "add", "sub", "add_mut", "sub_mut", "copy_from", "shape", "sum", "min", "max", "norm1",
            "norm_inf", "norm2sq", "mean", "column_mean", "argmax", "unique", "dot", "max_diff", "eq", "approximate_eq", "iter",
            "iter_nth", "iter_skip", "iter_step", "iter_count", "iter_last", "iter_size_hint", "get_row_as_vec",
            "get_col_as_vec", "v_sum", "v_mean", "v_dot", "v_norm1", "v_norm2sq", "v_to_vec", "v_unique", "v_add", "v_sub",
            "v_clone", "v_len", "v_eq",
        ];
        if self.ladder {
            return LADDER.contains(&c.op.as_str());
        }
        match self.mode {
            Codec::Plain => true,
            Codec::Scale(_) => SCALE.contains(&c.op.as_str()),
            Codec::Ulp => {
                let i = SCALE.iter().position(|&x| x == "negative").unwrap();
                SCALE[..i].contains(&c.op.as_str()) && !matches!(c.op.as_str(), "zeros" | "v_zeros")
            }
        }
    }

    /// single-precision exactness of sums over many entries: every partial sum must stay below 2^24
    /// (the magnitude bounds of the individual operations assume at most 144 entries)
    fn exact_ok(&self, c: &OpCall, meta: &[Meta]) -> bool {
        let m = |i: usize| if i >= 1 && i <= NREG { meta[i] } else { meta[0] };
        let (a, b) = (m(c.a), m(c.b));
        let n = (a.r * a.c) as f64;
        let lim = 1.2e7;
        match c.op.as_str() {
            "sum" | "norm1" | "mean" | "column_mean" | "v_sum" | "v_norm1" | "v_mean" => a.maxabs * n <= lim,
            "norm2sq" | "v_norm2sq" => a.maxabs * a.maxabs * n <= lim,
            "dot" | "v_dot" => a.maxabs * b.maxabs.max(1.0) * n <= lim,
            _ => true,
        }
    }

    pub fn step(&mut self, meta: &[Meta]) -> OpCall {
        if self.mode == Codec::Plain && !self.ladder {
            loop {
                let c = self.step_any(meta);
                if self.exact_ok(&c, meta) {
                    return c;
                }
                self.pending.clear();
            }
        }
        // rejection sampling: a plan (the returned call and everything it queued) must be exact under the codec
        loop {
            let was_pending = !self.pending.is_empty();
            let c = self.step_any(meta);
            if was_pending && self.exact_ok(&c, meta) {
                return c; // part of a plan that was accepted as a whole
            }
            if was_pending {
                self.pending.clear();
                continue;
            }
            if self.allowed(&c) && self.exact_ok(&c, meta) && self.pending.iter().all(|p| self.allowed(p)) {
                return c;
            }
            self.pending.clear();
        }
    }

    fn step_any(&mut self, meta: &[Meta]) -> OpCall {
        if let Some(p) = self.pending.pop_front() {
            return p;
        }
        if self.mats(meta, ANY).is_empty() {
            let (r, c) = self.shape();
            let dst = self.any_slot();
            return self.build_call(dst, r, c);
        }
        loop {
            let mut cat = self.ru(0, 99);
            if self.ladder && self.p(0.5) {
                cat = self.ru(70, 82); // reductions and statistics: where block-wise code paths live
            }
            if self.vec_bias && self.p(0.6) {
                cat = 99;
            }
            let r = match cat {
                0..=7 => Some(self.build_any()),
                8..=9 | 98 | 99 if !self.vec_bias || cat < 10 => self.layout_pair(meta),
                36..=38 => self.reject_vec(meta),
                39..=41 => self.accessor(meta),
                10..=24 => self.structural(meta),
                25..=35 => self.unary_arith(meta),
                36..=46 => self.binary_elem(meta),
                47..=58 => self.product(meta),
                59..=64 => self.stack(meta),
                65..=69 => self.element(meta),
                70..=76 => self.reduce(meta),
                77..=82 => self.stats(meta),
                83..=87 => self.equality(meta),
                _ => self.vector(meta),
            };
            if let Some(c) = r {
                return c;
            }
        }
    }

    fn pick_m(&mut self, meta: &[Meta], bound: f64) -> Option<usize> {
        let m = self.mats(meta, bound);
        if m.is_empty() {
            None
        } else {
            Some(self.pick(&m))
        }
    }

    fn pick_v(&mut self, meta: &[Meta], bound: f64) -> Option<usize> {
        let m = self.vecs(meta, bound);
        if m.is_empty() {
            None
        } else {
            Some(self.pick(&m))
        }
    }

    fn structural(&mut self, meta: &[Meta]) -> Option<OpCall> {
        let a = self.pick_m(meta, ANY)?;
        let (r, c) = (meta[a].r, meta[a].c);
        let dst = self.any_slot();
        let k = self.ru(0, 9);
        if self.allow_iter && self.mode == Codec::Plain && self.p(0.08) {
            return Some(oc(self.pick(&["serde_json", "serde_bincode"]), a, 0, dst, vec![]));
        }
        Some(match k {
            0 | 1 | 2 => oc("transpose", a, 0, dst, vec![]),
            3 => oc("clone", a, 0, dst, vec![]),
            4 | 5 => {
                let r0 = self.ru(1, r);
                let r1 = self.ru(r0, r);
                let c0 = self.ru(1, c);
                let c1 = self.ru(c0, c);
                oc("slice", a, 0, dst, vec![r0 as i64, r1 as i64, c0 as i64, c1 as i64])
            }
            6 | 7 => {
                let n = r * c;
                if self.p(0.8) {
                    let divs: Vec<usize> = (1..=n).filter(|d| n % d == 0).collect();
                    let nr = self.pick(&divs);
                    oc("reshape", a, 0, dst, vec![nr as i64, (n / nr) as i64])
                } else {
                    loop {
                        let nr = self.ru(1, 7);
                        let nc = self.ru(1, 7);
                        if nr * nc != n {
                            break oc("reshape", a, 0, dst, vec![nr as i64, nc as i64]);
                        }
                    }
                }
            }
            _ => {
                let axis = self.ri(0, 1);
                let lim = if axis == 0 { r } else { c };
                let len = self.ru(1, 6);
                let iv: Vec<i64> = (0..len).map(|_| self.ru(1, lim) as i64).collect();
                OpCall::new("take", a, 0, dst, vec![axis], iv, vec![])
            }
        })
    }

    fn unary_arith(&mut self, meta: &[Meta]) -> Option<OpCall> {
        let k = self.ru(0, 6);
        let mutv = self.p(0.5);
        let dst = self.any_slot();
        let nm = |base: &str, m: bool| -> String {
            if m {
                format!("{}_mut", base)
            } else {
                base.to_string()
            }
        };
        Some(match k {
            0 => oc(&nm("negative", mutv), self.pick_m(meta, ANY)?, 0, dst, vec![]),
            1 => oc(&nm("abs", mutv), self.pick_m(meta, ANY)?, 0, dst, vec![]),
            2 => oc(&nm("add_scalar", mutv), self.pick_m(meta, MED)?, 0, dst, vec![self.ri(-20, 20)]),
            3 => oc(&nm("sub_scalar", mutv), self.pick_m(meta, MED)?, 0, dst, vec![self.ri(-20, 20)]),
            4 => oc(&nm("mul_scalar", mutv), self.pick_m(meta, 10_000.0)?, 0, dst, vec![self.ri(-9, 9)]),
            5 => oc(&nm("pow", mutv), self.pick_m(meta, 100.0)?, 0, dst, vec![self.ri(0, 3)]),
            _ => oc(&nm("binarize", mutv), self.pick_m(meta, ANY)?, 0, dst, vec![self.ri(-3, 3)]),
        })
    }

    fn binary_elem(&mut self, meta: &[Meta]) -> Option<OpCall> {
        let op = self.pick(&["add", "sub", "mul", "div", "add_mut", "sub_mut", "mul_mut", "div_mut", "copy_from"]);
        let bound = if op.starts_with("mul") { SMALL } else { MED };
        let a = self.pick_m(meta, bound)?;
        let (r, c) = (meta[a].r, meta[a].c);
        let dst = self.any_slot();
        let call = oc(op, a, 0, dst, vec![]);
        if self.p(0.8) {
            Some(self.with_b(meta, call, r, c, bound))
        } else {
            // incompatible shape: transposed (when not square), or one dimension changed
            let (br, bc) = if r != c && self.p(0.4) {
                (c, r)
            } else if self.p(0.5) {
                (self.other_dim(r), c)
            } else {
                (r, self.other_dim(c))
            };
            Some(self.with_b(meta, call, br, bc, bound))
        }
    }

    fn product(&mut self, meta: &[Meta]) -> Option<OpCall> {
        let k = self.ru(0, 9);
        let dst = self.any_slot();
        let compat = self.p(0.8);
        if k <= 3 {
            let a = self.pick_m(meta, SMALL)?;
            let inner = if compat { meta[a].c } else { self.other_dim(meta[a].c) };
            let bc = self.ru(1, 6);
            return Some(self.with_b(meta, oc("matmul", a, 0, dst, vec![]), inner, bc, SMALL));
        }
        if k <= 7 {
            let a = self.pick_m(meta, SMALL)?;
            let ta = self.p(0.5);
            let tb = self.p(0.5);
            let inner_a = if ta { meta[a].r } else { meta[a].c };
            let inner = if compat { inner_a } else { self.other_dim(inner_a) };
            let other = self.ru(1, 6);
            let (br, bc) = if tb { (other, inner) } else { (inner, other) };
            return Some(self.with_b(meta, oc("ab", a, 0, dst, vec![ta as i64, tb as i64]), br, bc, SMALL));
        }
        // dot: vector-shaped operands of the same orientation
        let cands: Vec<usize> = self.mats(meta, SMALL).into_iter().filter(|&i| meta[i].r == 1 || meta[i].c == 1).collect();
        if cands.is_empty() {
            let n = self.ru(1, 8);
            let s = self.any_slot();
            return Some(if self.p(0.5) { self.build_call(s, 1, n) } else { self.build_call(s, n, 1) });
        }
        let a = self.pick(&cands);
        let (r, c) = (meta[a].r, meta[a].c);
        let (br, bc) = if compat {
            // the same length, in the same or in the other orientation (a dot product does not depend on it)
            if self.p(0.35) { (c, r) } else { (r, c) }
        } else if self.p(0.3) {
            // different length, other orientation
            let n = self.other_dim(r * c);
            if r == 1 { (n, 1) } else { (1, n) }
        } else if r == 1 && (c > 1 || self.p(0.5)) {
            (1, self.other_dim(c))
        } else {
            (self.other_dim(r), 1)
        };
        Some(self.with_b(meta, oc("dot", a, 0, 0, vec![]), br, bc, SMALL))
    }

    fn stack(&mut self, meta: &[Meta]) -> Option<OpCall> {
        let a = self.pick_m(meta, ANY)?;
        let dst = self.any_slot();
        let compat = self.p(0.8);
        if self.p(0.5) {
            let br = if compat { meta[a].r } else { self.other_dim(meta[a].r) };
            let bc = self.ru(1, 5);
            Some(self.with_b(meta, oc("h_stack", a, 0, dst, vec![]), br, bc, ANY))
        } else {
            let bc = if compat { meta[a].c } else { self.other_dim(meta[a].c) };
            let br = self.ru(1, 5);
            Some(self.with_b(meta, oc("v_stack", a, 0, dst, vec![]), br, bc, ANY))
        }
    }

    fn element(&mut self, meta: &[Meta]) -> Option<OpCall> {
        let op = self.pick(&["set", "add_element_mut", "sub_element_mut", "mul_element_mut", "get"]);
        let a = self.pick_m(meta, if op == "mul_element_mut" { 10_000.0 } else { MED })?;
        let i = self.ru(1, meta[a].r) as i64;
        let j = self.ru(1, meta[a].c) as i64;
        if op == "get" {
            return Some(oc("get", a, 0, 0, vec![i, j]));
        }
        Some(oc(op, a, 0, 0, vec![i, j, self.ri(-9, 9)]))
    }

    fn reduce(&mut self, meta: &[Meta]) -> Option<OpCall> {
        let mut ops = vec![
            "shape", "get_row_as_vec", "get_col_as_vec", "copy_row_as_vec", "copy_col_as_vec", "sum", "min", "max", "norm1",
            "norm_inf", "norm_ninf", "norm2sq", "normp", "argmax", "unique", "max_diff", "max_diff", "min", "max", "argmax",
            "norm_half", "norm_neg", "norm_neg", "copy_row_into", "copy_col_into",
        ];
        if self.allow_iter {
            ops.extend_from_slice(&["iter", "iter_nth", "iter_skip", "iter_step", "iter_count", "iter_last", "iter_size_hint"]);
        }
        let op = self.pick(&ops);
        if op.starts_with("iter_") {
            let a = self.pick_m(meta, ANY)?;
            let n = meta[a].r * meta[a].c;
            let k = match op {
                "iter_step" => self.ru(1, 4.min(n.max(1))),
                "iter_nth" => self.ru(1, n + 1),
                _ => self.ru(0, n + 1),
            };
            return Some(oc(op, a, 0, 0, vec![k as i64]));
        }
        let bound = match op {
            "sum" | "norm1" | "max_diff" => MED,
            "norm2sq" => SMALL,
            "normp" => 20.0,
            _ => ANY,
        };
        if op == "norm_neg" {
            // a fresh operand of at most four non-zero entries (|x| <= 20), often of equal magnitude
            let n = self.ru(1, 4);
            let c = self.ri(1, 20);
            let equal = self.p(0.4);
            let d: Vec<i64> = (0..n)
                .map(|_| {
                    let m = if equal { c } else { self.pick(&[1i64, 2, 4, 8, 16, 3, 5, 7, 10, 20]) };
                    if self.p(0.5) { -m } else { m }
                })
                .collect();
            let s = self.any_slot();
            let p2 = self.pick(&[1i64, 2, 2, 4]);
            self.pending.push_back(oc(op, s, 0, 0, vec![p2]));
            let (r, cc) = if n == 4 && self.p(0.3) { (2, 2) } else if self.p(0.5) { (1, n) } else { (n, 1) };
            return Some(OpCall::new("from_array", 0, 0, s, vec![r as i64, cc as i64], d, vec![]));
        }
        if op == "copy_row_into" || op == "copy_col_into" {
            let a = self.pick_m(meta, ANY)?;
            let (r, cc) = (meta[a].r, meta[a].c);
            let (lim, len) = if op == "copy_row_into" { (r, cc) } else { (cc, r) };
            let buf = match self.ru(0, 3) {
                0 => len,
                1 => len + 3,
                2 => r.max(cc),
                _ => len + 1,
            };
            return Some(oc(op, a, 0, 0, vec![self.ru(1, lim) as i64, buf as i64, -77]));
        }
        if op == "norm_half" {
            // small operands only: (sum sqrt|x|)^2 must stay far below the fixed-point range
            let c: Vec<usize> = self.mats(meta, 20.0).into_iter().filter(|&i| meta[i].r * meta[i].c <= 16).collect();
            if c.is_empty() {
                return None;
            }
            let a = self.pick(&c);
            let p2 = self.pick(&[1i64, 3, 5]);
            if self.p(0.6) {
                // followed by the same norm of the negated / absolute operand (norms do not depend on signs)
                let s = self.slot_except(&[a]);
                let flip = self.pick(&["negative", "abs"]);
                self.pending.push_back(oc(flip, a, 0, s, vec![]));
                self.pending.push_back(oc(op, s, 0, 0, vec![p2]));
            }
            return Some(oc(op, a, 0, 0, vec![p2]));
        }
        let a = self.pick_m(meta, bound)?;
        Some(match op {
            "get_row_as_vec" | "copy_row_as_vec" => oc(op, a, 0, 0, vec![self.ru(1, meta[a].r) as i64]),
            "get_col_as_vec" | "copy_col_as_vec" => oc(op, a, 0, 0, vec![self.ru(1, meta[a].c) as i64]),
            "normp" => oc(op, a, 0, 0, vec![self.ri(2, 3)]),
            "max_diff" => {
                let (r, c) = (meta[a].r, meta[a].c);
                self.with_b(meta, oc(op, a, 0, 0, vec![]), r, c, MED)
            }
            _ => oc(op, a, 0, 0, vec![]),
        })
    }

    fn stats(&mut self, meta: &[Meta]) -> Option<OpCall> {
        let op = self.pick(&["column_mean", "mean", "var", "std", "cov", "div_scalar", "div_scalar_mut", "scale_mut", "softmax_mut", "var", "std"]);
        match op {
            "column_mean" => Some(oc(op, self.pick_m(meta, MED)?, 0, 0, vec![])),
            "mean" => Some(oc(op, self.pick_m(meta, MED)?, 0, 0, vec![self.ri(0, 1)])),
            "var" | "std" => {
                let axis = self.ri(0, 1);
                let c: Vec<usize> = self
                    .mats(meta, SMALL)
                    .into_iter()
                    .filter(|&i| (if axis == 0 { meta[i].r } else { meta[i].c }) <= 16)
                    .collect();
                if c.is_empty() {
                    return None;
                }
                Some(oc(op, self.pick(&c), 0, 0, vec![axis]))
            }
            "cov" => {
                let c: Vec<usize> = self.mats(meta, 100.0).into_iter().filter(|&i| meta[i].r >= 2 && meta[i].r <= 24 && meta[i].c <= 12).collect();
                if c.is_empty() {
                    return None;
                }
                Some(oc(op, self.pick(&c), 0, 0, vec![]))
            }
            "div_scalar" | "div_scalar_mut" => {
                let mut s = self.ri(-9, 9);
                if s == 0 {
                    s = 7;
                }
                Some(oc(op, self.pick_m(meta, MED)?, 0, 0, vec![s]))
            }
            "scale_mut" => {
                let a = self.pick_m(meta, MED)?;
                let axis = self.ri(0, 1);
                let n = if axis == 0 { meta[a].c } else { meta[a].r };
                let iv: Vec<i64> = (0..n).map(|_| self.ri(-9, 9)).collect();
                let iw: Vec<i64> = (0..n)
                    .map(|_| {
                        let s = self.ri(1, 5);
                        if self.p(0.3) {
                            -s
                        } else {
                            s
                        }
                    })
                    .collect();
                Some(OpCall::new(op, a, 0, 0, vec![axis], iv, iw))
            }
            _ if self.mode == Codec::Plain && self.p(0.4) => {
                // softmax of a freshly built vector with large arguments: all strongly negative, strongly
                // positive, or mixed (exp must neither underflow for every entry nor overflow)
                let n = self.ru(1, 6);
                let class = self.ru(0, 3);
                let d: Vec<i64> = (0..n)
                    .map(|_| match class {
                        0 => self.ri(-1000, -400),
                        1 => self.ri(400, 1000),
                        2 => self.ri(-1000, 1000),
                        _ => self.ri(-120, -50),
                    })
                    .collect();
                let s = self.any_slot();
                self.pending.push_back(oc(op, s, 0, 0, vec![]));
                let (r, c) = if self.p(0.5) { (1, n) } else { (n, 1) };
                Some(OpCall::new("from_array", 0, 0, s, vec![r as i64, c as i64], d, vec![]))
            }
            _ => {
                // softmax: a vector-shaped register if there is one (the statement speaks of vectors)
                let c: Vec<usize> = self.mats(meta, MED).into_iter().filter(|&i| meta[i].r == 1 || meta[i].c == 1).collect();
                if !c.is_empty() && self.p(0.85) {
                    return Some(oc(op, self.pick(&c), 0, 0, vec![]));
                }
                Some(oc(op, self.pick_m(meta, MED)?, 0, 0, vec![]))
            }
        }
    }

    /// An equality test on two matrices of DIFFERENT shape but EQUAL size whose storage buffers coincide
    /// (in column-major and / or row-major order): the answer must be false although a comparison of the
    /// buffers alone would say true.
    fn equality_same_size(&mut self, meta: &[Meta]) -> Option<OpCall> {
        let op = self.pick(&["eq", "approximate_eq", "eq"]);
        let ia = if op == "eq" { vec![] } else { vec![self.ri(0, 3)] };
        let k = self.ru(0, 4);
        let s1 = self.any_slot();
        let s2 = self.slot_except(&[s1]);
        match k {
            0 => {
                // a vector-shaped matrix against its transpose (1xN vs Nx1: the same buffer in every layout)
                let c: Vec<usize> = self.mats(meta, MED).into_iter().filter(|&i| (meta[i].r == 1) != (meta[i].c == 1)).collect();
                if c.is_empty() {
                    let n = self.ru(2, 8);
                    return Some(if self.p(0.5) { self.build_call(s1, 1, n) } else { self.build_call(s1, n, 1) });
                }
                let a = self.pick(&c);
                let s = self.slot_except(&[a]);
                let swap = self.p(0.5);
                self.pending.push_back(if swap { oc(op, s, a, 0, ia) } else { oc(op, a, s, 0, ia) });
                Some(oc("transpose", a, 0, s, vec![]))
            }
            1 => {
                // a matrix against a reshape of itself (the same row-major data)
                let c: Vec<usize> = self.mats(meta, MED).into_iter().filter(|&i| meta[i].r * meta[i].c >= 2).collect();
                if c.is_empty() {
                    return None;
                }
                let a = self.pick(&c);
                let n = meta[a].r * meta[a].c;
                let divs: Vec<usize> = (1..=n).filter(|d| n % d == 0 && *d != meta[a].r).collect();
                let nr = self.pick(&divs);
                let s = self.slot_except(&[a]);
                self.pending.push_back(oc(op, a, s, 0, ia));
                Some(oc("reshape", a, 0, s, vec![nr as i64, (n / nr) as i64]))
            }
            2 => {
                // constant matrices of equal size: fill(r1, c1, x) against fill(r2, c2, x)
                let (r1, c1, r2, c2) = self.two_shapes();
                let x = self.ri(-9, 9);
                self.pending.push_back(oc("fill", 0, 0, s2, vec![r2 as i64, c2 as i64, x]));
                self.pending.push_back(oc(op, s1, s2, 0, ia));
                Some(oc("fill", 0, 0, s1, vec![r1 as i64, c1 as i64, x]))
            }
            _ => {
                // the same data handed to the same constructor with two shapes: `new` (column-major data:
                // identical column-major buffers) or `from_array` (identical row-major buffers)
                let (r1, c1, r2, c2) = self.two_shapes();
                let via = self.pick(&["new", "new", "from_array", "from_vec"]);
                let d = self.data(r1 * c1);
                self.pending.push_back(OpCall::new(via, 0, 0, s2, vec![r2 as i64, c2 as i64], d.clone(), vec![]));
                self.pending.push_back(oc(op, s1, s2, 0, ia));
                Some(OpCall::new(via, 0, 0, s1, vec![r1 as i64, c1 as i64], d, vec![]))
            }
        }
    }

    /// two different shapes with the same number of entries
    fn two_shapes(&mut self) -> (usize, usize, usize, usize) {
        loop {
            let n = self.pick(&[2usize, 3, 4, 4, 6, 6, 6, 8, 8, 9, 10, 12, 12, 12]);
            let divs: Vec<usize> = (1..=n).filter(|d| n % d == 0).collect();
            let r1 = self.pick(&divs);
            let r2 = self.pick(&divs);
            if r1 != r2 {
                return (r1, n / r1, r2, n / r2);
            }
        }
    }

    /// A binary call whose operands have the same logical shape but (on back ends where transpose only
    /// swaps strides) different memory layouts: A as it is, B built with the transposed shape and then
    /// transposed.  Results must not depend on how either operand is stored.
    fn layout_pair(&mut self, meta: &[Meta]) -> Option<OpCall> {
        let mut op = self.pick(&["max_diff", "max_diff", "max_diff", "approximate_eq", "eq", "add", "sub", "mul", "copy_from", "div", "add_mut", "mul_mut"]);
        if op == "eq" && self.mode != Codec::Plain {
            op = "max_diff";
        }
        let bound = if op.starts_with("mul") { SMALL } else { MED };
        let c: Vec<usize> = self.mats(meta, bound).into_iter().filter(|&i| meta[i].r >= 2 && meta[i].c >= 2).collect();
        if c.is_empty() {
            let dst = self.any_slot();
            let (r, cc) = (self.ru(2, 5), self.ru(2, 5));
            return Some(self.build_call(dst, r, cc));
        }
        // prefer a first operand that is not itself derived from a transpose
        let plain: Vec<usize> = c.iter().copied().filter(|&i| !meta[i].tr).collect();
        let a = if !plain.is_empty() && self.p(0.8) { self.pick(&plain) } else { self.pick(&c) };
        let s = self.slot_except(&[a]);
        let dst = self.any_slot();
        let ia = if op == "approximate_eq" { vec![self.ri(0, 3)] } else { vec![] };
        self.pending.push_back(oc("transpose", s, 0, s, vec![]));
        self.pending.push_back(oc(op, a, s, dst, ia));
        Some(self.build_call(s, meta[a].c, meta[a].r))
    }

    /// Accessors, flattening, reductions and conversions applied to a register whose memory layout is (possibly)
    /// not the standard one: derived from transpose / column-major / native constructions.
    fn accessor(&mut self, meta: &[Meta]) -> Option<OpCall> {
        let dst = self.any_slot();
        if self.p(0.3) {
            // vectors taken out of such matrices, or built natively: to_vec, from_row_vector, get, reductions
            let c: Vec<usize> = self.vecs(meta, MED).into_iter().filter(|&i| meta[i].nat || meta[i].tr).collect();
            if !c.is_empty() {
                let a = self.pick(&c);
                let op = self.pick(&["v_to_vec", "v_to_vec", "from_row_vector", "from_row_vector", "v_get", "v_sum", "v_clone", "v_unique", "v_take", "v_norm1"]);
                return Some(match op {
                    "v_get" => oc(op, a, 0, 0, vec![self.ru(1, meta[a].c) as i64]),
                    "from_row_vector" | "v_clone" => oc(op, a, 0, dst, vec![]),
                    "v_take" => {
                        let len = self.ru(1, 5);
                        let iv: Vec<i64> = (0..len).map(|_| self.ru(1, meta[a].c) as i64).collect();
                        OpCall::new(op, a, 0, dst, vec![], iv, vec![])
                    }
                    _ => oc(op, a, 0, 0, vec![]),
                });
            }
        }
        let c: Vec<usize> = self.mats(meta, MED).into_iter().filter(|&i| meta[i].nat || meta[i].tr).collect();
        if c.is_empty() {
            let a = self.pick_m(meta, ANY)?;
            return Some(oc("transpose", a, 0, dst, vec![]));
        }
        let a = self.pick(&c);
        let (r, cc) = (meta[a].r, meta[a].c);
        let op = self.pick(&[
            "get_row_as_vec", "get_col_as_vec", "copy_row_as_vec", "copy_col_as_vec", "get_row", "to_row_vector", "reshape",
            "column_mean", "cov", "unique", "sum", "argmax", "get", "clone", "iter", "mean", "take", "slice",
        ]);
        Some(match op {
            "get_row_as_vec" | "copy_row_as_vec" => oc(op, a, 0, 0, vec![self.ru(1, r) as i64]),
            "get_col_as_vec" | "copy_col_as_vec" => oc(op, a, 0, 0, vec![self.ru(1, cc) as i64]),
            "get_row" => oc(op, a, 0, dst, vec![self.ru(1, r) as i64]),
            "to_row_vector" | "clone" => oc(op, a, 0, dst, vec![]),
            "reshape" => {
                let n = r * cc;
                let divs: Vec<usize> = (1..=n).filter(|d| n % d == 0).collect();
                let nr = self.pick(&divs);
                oc(op, a, 0, dst, vec![nr as i64, (n / nr) as i64])
            }
            "cov" => {
                if r < 2 || r > 24 || cc > 12 || meta[a].maxabs > 100.0 {
                    return None;
                }
                oc(op, a, 0, 0, vec![])
            }
            "iter" => {
                if !self.allow_iter {
                    return None;
                }
                oc(op, a, 0, 0, vec![])
            }
            "get" => oc(op, a, 0, 0, vec![self.ru(1, r) as i64, self.ru(1, cc) as i64]),
            "mean" => oc(op, a, 0, 0, vec![self.ri(0, 1)]),
            "take" => {
                let axis = self.ri(0, 1);
                let lim = if axis == 0 { r } else { cc };
                let len = self.ru(1, 5);
                let iv: Vec<i64> = (0..len).map(|_| self.ru(1, lim) as i64).collect();
                OpCall::new(op, a, 0, dst, vec![axis], iv, vec![])
            }
            "slice" => {
                let r0 = self.ru(1, r);
                let r1 = self.ru(r0, r);
                let c0 = self.ru(1, cc);
                let c1 = self.ru(c0, cc);
                oc(op, a, 0, dst, vec![r0 as i64, r1 as i64, c0 as i64, c1 as i64])
            }
            _ => oc(op, a, 0, 0, vec![]),
        })
    }

    /// Exact equality of two same-shaped matrices whose entries are LARGE (2^23 .. 2^24: neighbouring
    /// single-precision floats are 1 apart there) and differ by exactly 1 in one position: the answer is
    /// false, whatever tolerance relative to the magnitude of the entries would say (seeded C03-u1); the
    /// same pair without the change must compare equal.
    fn equality_large(&mut self) -> OpCall {
        let (r, c) = (self.ru(1, 3), self.ru(1, 3));
        let sign = if self.p(0.3) { -1 } else { 1 };
        let d: Vec<i64> = (0..r * c).map(|_| sign * self.ri(8_388_608, 9_999_000)).collect();
        let mut d2 = d.clone();
        let same = self.p(0.25);
        if !same {
            let k = self.ru(0, r * c - 1);
            d2[k] += if self.p(0.5) { 1 } else { -1 };
        }
        let s1 = self.any_slot();
        let s2 = self.slot_except(&[s1]);
        self.pending.push_back(OpCall::new("from_array", 0, 0, s2, vec![r as i64, c as i64], d2, vec![]));
        self.pending.push_back(oc("eq", s1, s2, 0, vec![]));
        OpCall::new("from_array", 0, 0, s1, vec![r as i64, c as i64], d, vec![])
    }

    fn equality(&mut self, meta: &[Meta]) -> Option<OpCall> {
        if self.mode == Codec::Plain && !self.ladder && self.p(0.15) {
            return Some(self.equality_large());
        }
        if self.p(0.35) {
            return self.equality_same_size(meta);
        }
        let a = self.pick_m(meta, MED)?;
        let (r, c) = (meta[a].r, meta[a].c);
        let op = self.pick(&["eq", "approximate_eq"]);
        let ia = if op == "eq" { vec![] } else { vec![self.ri(0, 3)] };
        let x = self.rng.gen_range(0.0..1.0);
        if x < 0.35 {
            // an equal operand: clone first, compare next
            let s = self.slot_except(&[a]);
            self.pending.push_back(oc(op, a, s, 0, ia));
            return Some(oc("clone", a, 0, s, vec![]));
        }
        if x < 0.65 && (self.mode == Codec::Plain || op == "approximate_eq") {
            return Some(self.with_b(meta, oc(op, a, 0, 0, ia), r, c, MED));
        }
        let (br, bc) = if r != c && self.p(0.5) { (c, r) } else if self.p(0.5) { (self.other_dim(r), c) } else { (r, self.other_dim(c)) };
        Some(self.with_b(meta, oc(op, a, 0, 0, ia), br, bc, MED))
    }

    fn vector(&mut self, meta: &[Meta]) -> Option<OpCall> {
        let mut k = self.ru(0, 19);
        let dst = self.any_slot();
        if self.vecs(meta, ANY).is_empty() {
            k = self.ru(0, 4); // no vector register yet: make one
            if k == 3 {
                k = 4;
            }
        }
        match k {
            0 => {
                let a = self.pick_m(meta, ANY)?;
                Some(oc("get_row", a, 0, dst, vec![self.ru(1, meta[a].r) as i64]))
            }
            1 | 2 => Some(oc("to_row_vector", self.pick_m(meta, ANY)?, 0, dst, vec![])),
            3 => Some(oc("from_row_vector", self.pick_v(meta, ANY)?, 0, dst, vec![])),
            4 => Some(self.build_vec(dst, None)),
            5..=9 => {
                let op = self.pick(&["v_add", "v_sub", "v_mul", "v_div", "v_add_mut", "v_sub_mut", "v_mul_mut", "v_div_mut", "v_copy_from", "v_dot"]);
                let bound = if op.starts_with("v_mul") || op == "v_dot" { SMALL } else { MED };
                let a = self.pick_v(meta, bound)?;
                let len = if self.p(0.6) { meta[a].c } else { self.other_dim(meta[a].c) };
                Some(self.with_vb(meta, oc(op, a, 0, dst, vec![]), len, bound))
            }
            10 | 11 => {
                let op = self.pick(&[
                    "v_add_scalar", "v_sub_scalar", "v_mul_scalar", "v_add_scalar_mut", "v_sub_scalar_mut", "v_mul_scalar_mut",
                    "v_div_scalar", "v_div_scalar_mut",
                ]);
                let a = self.pick_v(meta, 10_000.0)?;
                let mut s = self.ri(-9, 9);
                if s == 0 && op.starts_with("v_div") {
                    s = 3;
                }
                Some(oc(op, a, 0, dst, vec![s]))
            }
            12 => {
                let a = self.pick_v(meta, ANY)?;
                let len = self.ru(1, 6);
                let iv: Vec<i64> = (0..len).map(|_| self.ru(1, meta[a].c) as i64).collect();
                Some(OpCall::new("v_take", a, 0, dst, vec![], iv, vec![]))
            }
            13 => {
                let op = self.pick(&["v_set", "v_add_element_mut", "v_sub_element_mut", "v_mul_element_mut", "v_get"]);
                let a = self.pick_v(meta, 10_000.0)?;
                let i = self.ru(1, meta[a].c) as i64;
                if op == "v_get" {
                    Some(oc(op, a, 0, 0, vec![i]))
                } else {
                    Some(oc(op, a, 0, 0, vec![i, self.ri(-9, 9)]))
                }
            }
            14..=16 => {
                let op = self.pick(&[
                    "v_len", "v_to_vec", "v_sum", "v_norm1", "v_norm_inf", "v_norm_ninf", "v_norm2sq", "v_normp", "v_unique", "v_mean",
                    "v_var", "v_std", "v_clone", "v_norm_half", "v_norm_neg",
                ]);
                if op == "v_norm_neg" {
                    let n = self.ru(1, 4);
                    let c = self.ri(1, 20);
                    let equal = self.p(0.4);
                    let d: Vec<i64> = (0..n)
                        .map(|_| {
                            let m = if equal { c } else { self.pick(&[1i64, 2, 4, 8, 16, 3, 5, 7, 10, 20]) };
                            if self.p(0.5) { -m } else { m }
                        })
                        .collect();
                    let s = self.any_slot();
                    let p2 = self.pick(&[1i64, 2, 2, 4]);
                    self.pending.push_back(oc(op, s, 0, 0, vec![p2]));
                    return Some(OpCall::new("v_from_array", 0, 0, s, vec![], d, vec![]));
                }
                let bound = match op {
                    "v_sum" | "v_norm1" | "v_mean" => MED,
                    "v_norm2sq" | "v_var" | "v_std" => SMALL,
                    "v_normp" | "v_norm_half" => 20.0,
                    _ => ANY,
                };
                let mut c = self.vecs(meta, bound);
                if op == "v_var" || op == "v_std" || op == "v_norm_half" {
                    c.retain(|&i| meta[i].c <= 16);
                }
                if c.is_empty() {
                    return None;
                }
                let a = self.pick(&c);
                Some(match op {
                    "v_normp" => oc(op, a, 0, 0, vec![self.ri(2, 3)]),
                    "v_norm_half" => {
                        let p2 = self.pick(&[1i64, 3, 5]);
                        if self.p(0.6) {
                            let s = self.slot_except(&[a]);
                            self.pending.push_back(oc("v_mul_scalar", a, 0, s, vec![-1]));
                            self.pending.push_back(oc(op, s, 0, 0, vec![p2]));
                        }
                        oc(op, a, 0, 0, vec![p2])
                    }
                    "v_clone" => oc(op, a, 0, dst, vec![]),
                    _ => oc(op, a, 0, 0, vec![]),
                })
            }
            _ => {
                let a = self.pick_v(meta, MED)?;
                let op = self.pick(&["v_eq", "v_approximate_eq"]);
                let ia = if op == "v_eq" { vec![] } else { vec![self.ri(0, 3)] };
                let x = self.rng.gen_range(0.0..1.0);
                if x < 0.35 {
                    let s = self.slot_except(&[a]);
                    self.pending.push_back(oc(op, a, s, 0, ia));
                    return Some(oc("v_clone", a, 0, s, vec![]));
                }
                let len = if x < 0.65 { meta[a].c } else { self.other_dim(meta[a].c) };
                Some(self.with_vb(meta, oc(op, a, 0, 0, ia), len, MED))
            }
        }
    }
}
