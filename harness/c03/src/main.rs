//! C03 — dense matrix and vector operations obey matrix algebra and shape contracts.
//! Drives DenseMatrix<f64>, DenseMatrix<f32> and Vec<T> through random op-programs
//! (`gen-prog`), self-contained statistics / softmax queries with large offsets (`gen-stat`)
//! and programs produced by TLC from the MatrixADT state machine (`replay-spec`), and records
//! one event per call.  The events are judged by spec/linalg/MatrixTrace.tla.
mod dense;
mod gen;
mod ops;

use dense::*;
use gen::Gen;
use ops::*;
use rand::Rng;
use vutil::*;

/// one random program on back end B
fn gen_run<B: Be>(g: &mut Gen, run: i64, nops: usize, out: &mut Out) {
    let mut file: File<B> = File::new();
    g.reset();
    g.vec_bias = run % 3 == 0;
    // every fifth run rescales all its numbers by a power of two far below / above machine epsilon, every
    // fifth run uses the floats next to 0.1 ("neighbouring floats"): see ops::Codec
    let f32ty = B::TY == "f32";
    let codec = match if g.ladder { 0 } else { (run / 2) % 5 } {
        3 => Codec::Scale(if (run / 10) % 2 == 0 { if f32ty { -30 } else { -60 } } else if f32ty { 20 } else { 40 }),
        4 => Codec::Ulp,
        _ => Codec::Plain,
    };
    file.codec = codec;
    g.mode = codec;
    out.emit(reset_event_mode::<B>(run, codec));
    let mut done = 0;
    let mut guardn = 0;
    while done < nops && guardn < 10 * nops {
        guardn += 1;
        let call = g.step(&file.meta);
        if let Some(e) = file.exec(run, &call) {
            out.emit(e);
            done += 1;
        }
    }
}

fn replay_run<B: Be>(run: i64, calls: &[OpCall], out: &mut Out) -> usize {
    let mut file: File<B> = File::new();
    out.emit(reset_event::<B>(run));
    for c in calls {
        if let Some(e) = file.exec(run, c) {
            out.emit(e);
        }
    }
    file.skipped
}

/// re-execute recorded events (Reset / Op / Stat) of one back end: the calls are taken from the
/// events, the observations are made afresh
fn replay_events<B: Be>(evs: &[serde_json::Value], out: &mut Out) {
    let mut file: File<B> = File::new();
    for e in evs {
        let run = e["run"].as_i64().unwrap_or(0);
        match e["ev"].as_str().unwrap_or("") {
            "Reset" => {
                file = File::new();
                file.codec = match e["mode"].as_str().unwrap_or("plain") {
                    "scale" => Codec::Scale(e["se"].as_i64().unwrap_or(0) as i32),
                    "ulp" => Codec::Ulp,
                    _ => Codec::Plain,
                };
                out.emit(reset_event_mode::<B>(run, file.codec));
            }
            "Op" => {
                if let Some(x) = file.exec(run, &OpCall::from_json(e)) {
                    out.emit(x);
                }
            }
            "Stat" => {
                let d: Vec<i64> = e["id"].as_array().unwrap().iter().map(|x| x.as_i64().unwrap()).collect();
                let (r, c) = (e["ir"].as_u64().unwrap() as usize, e["ic"].as_u64().unwrap() as usize);
                if let Some(x) = file.exec_stat(run, &OpCall::from_json(e), e["ik"].as_str().unwrap(), r, c, &d) {
                    out.emit(x);
                }
            }
            _ => {}
        }
    }
}

fn stat_events<B: Be>(g: &mut Gen, run: &mut i64, n: usize, out: &mut Out) {
    let f32ty = B::TY == "f32";
    let offsets: Vec<i64> = if f32ty {
        vec![0, 0, 100, -100, 1000, -1000, 4096, -4096, 100_000, -100_000, 8_000_000, -8_000_000]
    } else {
        vec![0, 0, 1000, -1000, 100_000, -100_000, 1_000_000, 10_000_000, -10_000_000, 100_000_000, -100_000_000]
    };
    let spreads: [i64; 7] = [0, 1, 2, 3, 5, 20, 100];
    let mut file: File<B> = File::new();
    out.emit(reset_event::<B>(*run));
    for _ in 0..n {
        *run += 1;
        let x = g.rng.gen_range(0.0..1.0);
        if x < 0.2 {
            // sample covariance of columns that each carry a large common offset (small-integer structure on top)
            let (r, c) = (g.rng.gen_range(2..=8usize), g.rng.gen_range(1..=4usize));
            let cov_offsets: Vec<i64> = if f32ty { vec![0, 100, -100, 1000, -1000] } else { vec![0, 100_000, -10_000_000, 100_000_000, -100_000_000, 134_217_728] };
            let offs: Vec<i64> = (0..c).map(|_| cov_offsets[g.rng.gen_range(0..cov_offsets.len())]).collect();
            let sp = spreads[g.rng.gen_range(1..spreads.len())];
            let d: Vec<i64> = (0..r * c).map(|k| offs[k % c] + g.rng.gen_range(0..=sp)).collect();
            let call = OpCall::new("cov", 0, 0, 0, vec![], vec![], vec![]);
            if let Some(e) = file.exec_stat(*run, &call, "m", r, c, &d) {
                out.emit(e);
            }
        } else if x < 0.6 {
            // variance / standard deviation of data sharing a common offset
            let off = offsets[g.rng.gen_range(0..offsets.len())];
            let sp = spreads[g.rng.gen_range(0..spreads.len())];
            let op = ["var", "std", "v_var", "v_std"][g.rng.gen_range(0..4)];
            if op.starts_with("v_") {
                let len = g.rng.gen_range(1..=12usize);
                let d: Vec<i64> = (0..len).map(|_| off + g.rng.gen_range(0..=sp)).collect();
                let call = OpCall::new(op, 0, 0, 0, vec![], vec![], vec![]);
                if let Some(e) = file.exec_stat(*run, &call, "v", 1, len, &d) {
                    out.emit(e);
                }
            } else {
                let (r, c) = (g.rng.gen_range(1..=8usize), g.rng.gen_range(1..=8usize));
                let d: Vec<i64> = (0..r * c).map(|_| off + g.rng.gen_range(0..=sp)).collect();
                let call = OpCall::new(op, 0, 0, 0, vec![g.rng.gen_range(0..=1)], vec![], vec![]);
                if let Some(e) = file.exec_stat(*run, &call, "m", r, c, &d) {
                    out.emit(e);
                }
            }
        } else {
            // softmax of finite vectors: small, all-negative, large magnitude, mixed
            let len = g.rng.gen_range(1..=8usize);
            let class = g.rng.gen_range(0..8);
            let d: Vec<i64> = (0..len)
                .map(|_| match class {
                    0 => g.rng.gen_range(-5..=5),
                    1 => g.rng.gen_range(-20..=-1),
                    2 => g.rng.gen_range(-1000..=-400),
                    3 => g.rng.gen_range(400..=1000),
                    4 => g.rng.gen_range(-1000..=1000),
                    5 => g.rng.gen_range(-100..=-60),
                    6 => g.rng.gen_range(-100_000..=100_000),
                    _ => g.rng.gen_range(-40..=40),
                })
                .collect();
            let call = OpCall::new("softmax_mut", 0, 0, 0, vec![], vec![], vec![]);
            let (r, c) = if g.rng.gen_bool(0.5) { (1, len) } else { (len, 1) };
            if let Some(e) = file.exec_stat(*run, &call, "m", r, c, &d) {
                out.emit(e);
            }
        }
    }
}

fn main() {
    let args: Vec<String> = std::env::args().skip(1).collect();
    let args = &args[..];
    silence_panics();
    let mode = arg(args, 0);
    let th = thorough();
    match mode {
        "gen-prog" => {
            let mut out = Out::create(arg(args, 1));
            let runs: usize = args.get(2).and_then(|s| s.parse().ok()).unwrap_or(if th { 20000 } else { 2400 });
            let nops = 12;
            let mut g = Gen::new(rng(3), true, 12);
            let mut run = 0i64;
            for i in 0..runs {
                run += 1;
                if i % 2 == 0 {
                    gen_run::<Dense64>(&mut g, run, nops, &mut out);
                } else {
                    gen_run::<Dense32>(&mut g, run, nops, &mut out);
                }
            }
            // the size ladder: a handful of runs on operands with 63 .. 3000 entries
            g.ladder = true;
            for i in 0..(if th { 80 } else { 20 }) {
                run += 1;
                if i % 2 == 0 {
                    gen_run::<Dense64>(&mut g, run, 8, &mut out);
                } else {
                    gen_run::<Dense32>(&mut g, run, 8, &mut out);
                }
            }
            g.ladder = false;
            let n = out.finish();
            println!("events={} runs={}", n, run);
        }
        "gen-stat" => {
            let mut out = Out::create(arg(args, 1));
            let n: usize = args.get(2).and_then(|s| s.parse().ok()).unwrap_or(if th { 6000 } else { 1500 });
            let mut g = Gen::new(rng(4), true, 12);
            let mut run = 1_000_000i64;
            stat_events::<Dense64>(&mut g, &mut run, n, &mut out);
            stat_events::<Dense32>(&mut g, &mut run, n, &mut out);
            let n = out.finish();
            println!("events={}", n);
        }
        "replay-spec" => {
            // input: one JSON line per program {"prog": [call, ...]} printed by TLC
            let progs = read_ndjson(arg(args, 1));
            let mut out = Out::create(arg(args, 2));
            let mut run = 2_000_000i64;
            let mut skipped = 0;
            for p in progs.iter() {
                let calls: Vec<OpCall> = p["prog"].as_array().expect("prog").iter().map(OpCall::from_json).collect();
                run += 1;
                skipped += replay_run::<Dense64>(run, &calls, &mut out);
                run += 1;
                skipped += replay_run::<Dense32>(run, &calls, &mut out);
            }
            let n = out.finish();
            println!("events={} programs={} skipped={}", n, progs.len(), skipped);
        }
        "replay-events" => {
            let evs = read_ndjson(arg(args, 1));
            let mut out = Out::create(arg(args, 2));
            // split into runs (a run starts at a Reset event)
            let mut i = 0;
            while i < evs.len() {
                let mut j = i + 1;
                while j < evs.len() && evs[j]["ev"] != "Reset" {
                    j += 1;
                }
                let ty = evs[i]["ty"].as_str().unwrap_or("f64").to_string();
                if ty == "f32" {
                    replay_events::<Dense32>(&evs[i..j], &mut out);
                } else {
                    replay_events::<Dense64>(&evs[i..j], &mut out);
                }
                i = j;
            }
            let n = out.finish();
            println!("events={}", n);
        }
        _ => {
            eprintln!("unknown c03 mode {}", mode);
            std::process::exit(2);
        }
    }
}
