//! C03 — dense matrix and vector operations obey matrix algebra and shape contracts.
//! Drives DenseMatrix<f64>, DenseMatrix<f32> and Vec<T> through random op-programs
//! (`gen-prog`), self-contained statistics / softmax queries with large offsets (`gen-stat`)
//! and programs produced by TLC from the MatrixADT state machine (`replay-spec`), and records
//! one event per call.  The events are judged by spec/linalg/MatrixTrace.tla.
mod gen;
mod ops;

use gen::Gen;
use ops::*;
use rand::Rng;
use smartcore::linalg::naive::dense_matrix::DenseMatrix;
use vutil::*;

pub struct Dense64;
pub struct Dense32;

macro_rules! dense_be {
    ($name:ident, $t:ty, $be:expr, $ty:expr) => {
        impl Be for $name {
            type T = $t;
            type M = DenseMatrix<$t>;
            const NAME: &'static str = $be;
            const TY: &'static str = $ty;
            fn build(via: &str, r: usize, c: usize, data: &[$t]) -> DenseMatrix<$t> {
                match via {
                    "from_array" => DenseMatrix::from_array(r, c, data),
                    "from_vec" => DenseMatrix::from_vec(r, c, data),
                    "from_2d_array" => {
                        let rows: Vec<&[$t]> = data.chunks(c).collect();
                        DenseMatrix::from_2d_array(&rows)
                    }
                    "from_2d_vec" => {
                        let rows: Vec<Vec<$t>> = data.chunks(c).map(|x| x.to_vec()).collect();
                        DenseMatrix::from_2d_vec(&rows)
                    }
                    "new" => DenseMatrix::new(r, c, data.to_vec()),
                    "row_vector_from_array" => DenseMatrix::row_vector_from_array(data),
                    "row_vector_from_vec" => DenseMatrix::row_vector_from_vec(data.to_vec()),
                    "column_vector_from_array" => DenseMatrix::column_vector_from_array(data),
                    "column_vector_from_vec" => DenseMatrix::column_vector_from_vec(data.to_vec()),
                    other => panic!("harness: unknown constructor {}", other),
                }
            }
            fn iter_flat(m: &DenseMatrix<$t>) -> Option<Vec<$t>> {
                Some(m.iter().collect())
            }
            fn veq(a: &Vec<$t>, b: &Vec<$t>) -> bool {
                a == b
            }
        }
    };
}
dense_be!(Dense64, f64, "dense", "f64");
dense_be!(Dense32, f32, "dense", "f32");

/// one random program on back end B
fn gen_run<B: Be>(g: &mut Gen, run: i64, nops: usize, out: &mut Out) {
    let mut file: File<B> = File::new();
    g.reset();
    g.vec_bias = run % 3 == 0;
    out.emit(reset_event::<B>(run));
    let mut done = 0;
    let mut guardn = 0;
    while done < nops && guardn < 10 * nops {
        guardn += 1;
        let call = g.step(&file.meta);
        if let Some(e) = file.exec(run, &call) {
            out.emit(e);
            done += 1;
        }
    }
}

fn replay_run<B: Be>(run: i64, calls: &[OpCall], out: &mut Out) -> usize {
    let mut file: File<B> = File::new();
    out.emit(reset_event::<B>(run));
    for c in calls {
        if let Some(e) = file.exec(run, c) {
            out.emit(e);
        }
    }
    file.skipped
}

fn stat_events<B: Be>(g: &mut Gen, run: &mut i64, n: usize, out: &mut Out) {
    let f32ty = B::TY == "f32";
    let offsets: Vec<i64> = if f32ty {
        vec![0, 0, 100, -100, 1000, -1000, 4096, -4096, 100_000, -100_000, 8_000_000, -8_000_000]
    } else {
        vec![0, 0, 1000, -1000, 100_000, -100_000, 1_000_000, 10_000_000, -10_000_000, 100_000_000, -100_000_000]
    };
    let spreads: [i64; 7] = [0, 1, 2, 3, 5, 20, 100];
    let mut file: File<B> = File::new();
    out.emit(reset_event::<B>(*run));
    for _ in 0..n {
        *run += 1;
        let x = g.rng.gen_range(0.0..1.0);
        if x < 0.6 {
            // variance / standard deviation of data sharing a common offset
            let off = offsets[g.rng.gen_range(0..offsets.len())];
            let sp = spreads[g.rng.gen_range(0..spreads.len())];
            let op = ["var", "std", "v_var", "v_std"][g.rng.gen_range(0..4)];
            if op.starts_with("v_") {
                let len = g.rng.gen_range(1..=12usize);
                let d: Vec<i64> = (0..len).map(|_| off + g.rng.gen_range(0..=sp)).collect();
                let call = OpCall::new(op, 0, 0, 0, vec![], vec![], vec![]);
                if let Some(e) = file.exec_stat(*run, &call, "v", 1, len, &d) {
                    out.emit(e);
                }
            } else {
                let (r, c) = (g.rng.gen_range(1..=8usize), g.rng.gen_range(1..=8usize));
                let d: Vec<i64> = (0..r * c).map(|_| off + g.rng.gen_range(0..=sp)).collect();
                let call = OpCall::new(op, 0, 0, 0, vec![g.rng.gen_range(0..=1)], vec![], vec![]);
                if let Some(e) = file.exec_stat(*run, &call, "m", r, c, &d) {
                    out.emit(e);
                }
            }
        } else {
            // softmax of finite vectors: small, all-negative, large magnitude, mixed
            let len = g.rng.gen_range(1..=8usize);
            let class = g.rng.gen_range(0..8);
            let d: Vec<i64> = (0..len)
                .map(|_| match class {
                    0 => g.rng.gen_range(-5..=5),
                    1 => g.rng.gen_range(-20..=-1),
                    2 => g.rng.gen_range(-1000..=-400),
                    3 => g.rng.gen_range(400..=1000),
                    4 => g.rng.gen_range(-1000..=1000),
                    5 => g.rng.gen_range(-100..=-60),
                    6 => g.rng.gen_range(-100_000..=100_000),
                    _ => g.rng.gen_range(-40..=40),
                })
                .collect();
            let call = OpCall::new("softmax_mut", 0, 0, 0, vec![], vec![], vec![]);
            let (r, c) = if g.rng.gen_bool(0.5) { (1, len) } else { (len, 1) };
            if let Some(e) = file.exec_stat(*run, &call, "m", r, c, &d) {
                out.emit(e);
            }
        }
    }
}

fn main() {
    let args: Vec<String> = std::env::args().skip(1).collect();
    let args = &args[..];
    silence_panics();
    let mode = arg(args, 0);
    let th = thorough();
    match mode {
        "gen-prog" => {
            let mut out = Out::create(arg(args, 1));
            let runs: usize = args.get(2).and_then(|s| s.parse().ok()).unwrap_or(if th { 4000 } else { 600 });
            let nops = 12;
            let mut g = Gen::new(rng(3), true, 12);
            let mut run = 0i64;
            for i in 0..runs {
                run += 1;
                if i % 2 == 0 {
                    gen_run::<Dense64>(&mut g, run, nops, &mut out);
                } else {
                    gen_run::<Dense32>(&mut g, run, nops, &mut out);
                }
            }
            let n = out.finish();
            println!("events={} runs={}", n, run);
        }
        "gen-stat" => {
            let mut out = Out::create(arg(args, 1));
            let n: usize = args.get(2).and_then(|s| s.parse().ok()).unwrap_or(if th { 6000 } else { 1500 });
            let mut g = Gen::new(rng(4), true, 12);
            let mut run = 1_000_000i64;
            stat_events::<Dense64>(&mut g, &mut run, n, &mut out);
            stat_events::<Dense32>(&mut g, &mut run, n, &mut out);
            let n = out.finish();
            println!("events={}", n);
        }
        "replay-spec" => {
            // input: one JSON line per program {"prog": [call, ...]} printed by TLC
            let progs = read_ndjson(arg(args, 1));
            let mut out = Out::create(arg(args, 2));
            let mut run = 2_000_000i64;
            let mut skipped = 0;
            for p in progs.iter() {
                let calls: Vec<OpCall> = p["prog"].as_array().expect("prog").iter().map(OpCall::from_json).collect();
                run += 1;
                skipped += replay_run::<Dense64>(run, &calls, &mut out);
                run += 1;
                skipped += replay_run::<Dense32>(run, &calls, &mut out);
            }
            let n = out.finish();
            println!("events={} programs={} skipped={}", n, progs.len(), skipped);
        }
        _ => {
            eprintln!("unknown c03 mode {}", mode);
            std::process::exit(2);
        }
    }
}
