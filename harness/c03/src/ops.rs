//! Op-program interpreter for the matrix ADT (shared by the C03 and C20 harnesses).
//!
//! An `OpCall` names one method of BaseMatrix / BaseVector / MatrixStats /
//! MatrixPreprocessing / HighOrderOperations (or a constructor) together with register
//! numbers and integer arguments.  `exec` performs the call on a register file of real
//! matrices / vectors of back end `B` and reports, as one JSON event, what it reads back:
//! shape + row-major content of the written register obtained with `get(i, j)` only, or the
//! returned scalar / vector / boolean, or "panic".  There is no expectation in here: the
//! events are judged by spec/linalg/MatrixTrace.tla.
//!
//! Projections used (DESIGN §2.5): exact integers (flag=false when a value is not an
//! integer), fixed point round(v*2^10) (2^20 for softmax), round(d^p) for p-norms.
#![allow(dead_code)]
use serde_json::{json, Value};
use smartcore::linalg::high_order::HighOrderOperations;
use smartcore::linalg::stats::{MatrixPreprocessing, MatrixStats};
use smartcore::linalg::{BaseMatrix, BaseVector, Matrix};
use smartcore::math::num::RealNumber;
use vutil::guard;

pub const NREG: usize = 4;
pub const NONFIN: i64 = 1_999_999_999;

pub type V<B> = <<B as Be>::M as BaseMatrix<<B as Be>::T>>::RowVector;

/// One matrix back end.
pub trait Be: 'static {
    type T: RealNumber + FromI64 + Inf;
    type M: Matrix<Self::T>;
    const NAME: &'static str;
    const TY: &'static str;
    /// constructors that are not part of the traits: `via` is one of from_array, from_vec,
    /// from_2d_array, from_2d_vec (row-major data), new (column-major data),
    /// row_vector_from_{array,vec}, column_vector_from_{array,vec}
    fn build(via: &str, r: usize, c: usize, data: &[Self::T]) -> Self::M;
    /// vectors built through the back end's own API (v_nat_reversed: negative stride, v_nat_strided: stepped
    /// slice of a longer vector, v_nat_offset: tail of a longer vector); default: a plain vector
    fn vbuild(_via: &str, data: &[Self::T]) -> V<Self> {
        <V<Self> as BaseVector<Self::T>>::from_array(data)
    }
    /// Deserialize(Serialize(m)) through serde_json ("serde_json") or bincode ("serde_bincode"); None when the
    /// back end is not exercised through serde here
    fn roundtrip(_m: &Self::M, _fmt: &str) -> Option<Result<Self::M, String>> {
        None
    }
    /// `DenseMatrix::iter()` consumed through nth / skip / step_by / count / last / size_hint (after k calls of
    /// next); None for back ends without `iter`
    fn iter_mode(_m: &Self::M, _mode: &str, _k: usize) -> Option<Vec<f64>> {
        None
    }
    /// `DenseMatrix::iter()`; None for back ends without it
    fn iter_flat(m: &Self::M) -> Option<Vec<Self::T>>;
    fn veq(a: &V<Self>, b: &V<Self>) -> bool;
}

#[derive(Clone, Debug)]
pub struct OpCall {
    pub op: String,
    pub a: usize,
    pub b: usize,
    pub dst: usize,
    pub ia: Vec<i64>,
    pub iv: Vec<i64>,
    pub iw: Vec<i64>,
}

impl OpCall {
    pub fn new(op: &str, a: usize, b: usize, dst: usize, ia: Vec<i64>, iv: Vec<i64>, iw: Vec<i64>) -> OpCall {
        OpCall { op: op.to_string(), a, b, dst, ia, iv, iw }
    }
    pub fn to_json(&self) -> Value {
        json!({"op": self.op, "a": self.a, "b": self.b, "dst": self.dst, "ia": self.ia, "iv": self.iv, "iw": self.iw})
    }
    pub fn from_json(v: &Value) -> OpCall {
        let li = |k: &str| -> Vec<i64> {
            v[k].as_array().map(|a| a.iter().map(|x| x.as_i64().unwrap()).collect()).unwrap_or_default()
        };
        OpCall {
            op: v["op"].as_str().unwrap().to_string(),
            a: v["a"].as_u64().unwrap_or(0) as usize,
            b: v["b"].as_u64().unwrap_or(0) as usize,
            dst: v["dst"].as_u64().unwrap_or(0) as usize,
            ia: li("ia"),
            iv: li("iv"),
            iw: li("iw"),
        }
    }
}

pub enum Reg<B: Be> {
    E,
    M(B::M),
    V(V<B>),
}

impl<B: Be> Clone for Reg<B> {
    fn clone(&self) -> Self {
        match self {
            Reg::E => Reg::E,
            Reg::M(m) => Reg::M(m.clone()),
            Reg::V(v) => Reg::V(v.clone()),
        }
    }
}

/// what the generator may know about a register (taken from the observation)
#[derive(Clone, Copy, Debug, PartialEq)]
pub struct Meta {
    pub kind: u8, // 0 empty, 1 matrix, 2 vector
    pub r: usize,
    pub c: usize,
    pub maxabs: f64,
    /// produced by `transpose`, a column-major constructor, h_stack or ab, or computed from such a
    /// register (memory layout possibly not row-major on some back ends)
    pub tr: bool,
    /// built through the native API of the back end (nat_* constructors) and not overwritten since
    pub nat: bool,
}

pub struct File<B: Be> {
    pub regs: Vec<Reg<B>>, // index 1..=NREG used
    pub meta: Vec<Meta>,
    pub skipped: usize,
    pub codec: Codec,
}

enum Res<B: Be> {
    M(B::M),
    Vv(V<B>),
    Ints(Vec<f64>),
    Fx(Vec<f64>),
    Soft(Vec<f64>),
    Bool(bool),
}

/// tiny shim so that the conversion does not depend on which num-traits version is visible
pub mod num_from {
    pub trait FromI64: Sized {
        fn from_i64x(x: i64) -> Self;
        fn to_f64x(self) -> f64;
        /// self * 2^e, exact (power-of-two rescaling)
        fn scale2(self, e: i32) -> Self;
        /// the float k units in the last place away from 0.1
        fn ulp_from(k: i64) -> Self;
        /// inverse of `ulp_from` (distance in ulps from 0.1, by bit pattern)
        fn ulp_to(self) -> f64;
    }
    impl FromI64 for f64 {
        fn from_i64x(x: i64) -> f64 {
            x as f64
        }
        fn to_f64x(self) -> f64 {
            self
        }
        fn scale2(self, e: i32) -> f64 {
            self * 2f64.powi(e)
        }
        fn ulp_from(k: i64) -> f64 {
            f64::from_bits((0.1f64.to_bits() as i64 + k) as u64)
        }
        fn ulp_to(self) -> f64 {
            (self.to_bits() as i64).wrapping_sub(0.1f64.to_bits() as i64) as f64
        }
    }
    impl FromI64 for f32 {
        fn from_i64x(x: i64) -> f32 {
            x as f32
        }
        fn to_f64x(self) -> f64 {
            self as f64
        }
        fn scale2(self, e: i32) -> f32 {
            self * 2f32.powi(e)
        }
        fn ulp_from(k: i64) -> f32 {
            f32::from_bits((0.1f32.to_bits() as i64 + k) as u32)
        }
        fn ulp_to(self) -> f64 {
            (self.to_bits() as i64 - 0.1f32.to_bits() as i64) as f64
        }
    }
}

/// How the integers of a program become floats and back (exact, order preserving maps; DESIGN §1):
/// Plain: x;  Scale(e): x * 2^e (every value of the run is rescaled by the same power of two, the
/// observations are divided by it again);  Ulp: the float x ulps away from 0.1 ("neighbouring floats",
/// read back through the bit pattern).  The last two make values that differ by far less than machine
/// epsilon in absolute terms; only operations whose definition is exact under the map are used then.
#[derive(Clone, Copy, Debug, PartialEq)]
pub enum Codec {
    Plain,
    Scale(i32),
    Ulp,
}

thread_local! {
    static CODEC: std::cell::Cell<Codec> = std::cell::Cell::new(Codec::Plain);
}

pub fn set_codec(c: Codec) {
    CODEC.with(|x| x.set(c));
}

fn enc<B: Be>(x: i64) -> B::T {
    match CODEC.with(|c| c.get()) {
        Codec::Plain => B::T::from_i64x(x),
        Codec::Scale(e) => B::T::from_i64x(x).scale2(e),
        Codec::Ulp => B::T::ulp_from(x),
    }
}

fn dec<B: Be>(v: B::T) -> f64 {
    match CODEC.with(|c| c.get()) {
        Codec::Plain => v.to_f64x(),
        Codec::Scale(e) => v.scale2(-e).to_f64x(),
        Codec::Ulp => v.ulp_to(),
    }
}
use num_from::FromI64;
use num_traits_inf::Inf;

fn f<B: Be>(x: B::T) -> f64 {
    dec::<B>(x)
}

pub fn fx(v: f64, scale: f64) -> i64 {
    if !v.is_finite() {
        return NONFIN;
    }
    let q = (v * scale).round();
    if q.abs() > 1.0e9 {
        return NONFIN;
    }
    q as i64
}

fn ints(v: &[f64]) -> Option<Vec<i64>> {
    v.iter()
        .map(|&x| if x.is_finite() && x.fract() == 0.0 && x.abs() < 2.0e9 { Some(x as i64) } else { None })
        .collect()
}

fn flat_m<B: Be>(m: &B::M) -> (usize, usize, Vec<f64>) {
    let (r, c) = m.shape();
    let mut d = Vec::with_capacity(r * c);
    for i in 0..r {
        for j in 0..c {
            d.push(f::<B>(m.get(i, j)));
        }
    }
    (r, c, d)
}

fn flat_v<B: Be>(v: &V<B>) -> Vec<f64> {
    (0..v.len()).map(|i| f::<B>(v.get(i))).collect()
}

fn tv<B: Be>(xs: &[i64]) -> Vec<B::T> {
    xs.iter().map(|&x| enc::<B>(x)).collect()
}

fn us(x: i64) -> usize {
    if x < 0 {
        panic!("HARNESS-MALFORMED negative index")
    }
    x as usize
}

const MALFORMED: &str = "HARNESS-MALFORMED";

fn as_m<B: Be>(r: &Reg<B>) -> &B::M {
    match r {
        Reg::M(m) => m,
        _ => panic!("{}", MALFORMED),
    }
}

fn as_v<B: Be>(r: &Reg<B>) -> &V<B> {
    match r {
        Reg::V(v) => v,
        _ => panic!("{}", MALFORMED),
    }
}

impl<B: Be> File<B> {
    pub fn new() -> File<B> {
        File {
            regs: (0..=NREG).map(|_| Reg::E).collect(),
            meta: vec![Meta { kind: 0, r: 0, c: 0, maxabs: 0.0, tr: false, nat: false }; NREG + 1],
            skipped: 0,
            codec: Codec::Plain,
        }
    }

    fn operand(&self, i: usize) -> Reg<B> {
        if i >= 1 && i <= NREG {
            self.regs[i].clone()
        } else {
            Reg::E
        }
    }

    /// Executes one call; returns None when an operand register is empty (the call is
    /// skipped and counted; this only happens when an earlier call of the run failed).
    pub fn exec(&mut self, run: i64, call: &OpCall) -> Option<Value> {
        if !self.in_range(call) {
            // only possible when a program generated on another back end is replayed after this back end
            // has already deviated from it (different shapes): the call is skipped and counted
            self.skipped += 1;
            return None;
        }
        let a = self.operand(call.a);
        let b = self.operand(call.b);
        let atr = call.a >= 1 && call.a <= NREG && self.meta[call.a].tr;
        let btr = call.b >= 1 && call.b <= NREG && self.meta[call.b].tr;
        let anat = call.a >= 1 && call.a <= NREG && self.meta[call.a].nat;
        let mut e = self.exec_on(run, "Op", call, a, b, None)?;
        e["atr"] = json!(atr);
        e["btr"] = json!(btr);
        e["anat"] = json!(anat);
        let target = if is_in_place(&call.op) { call.a } else { call.dst };
        if e["status"] == "ok" && (e["kind"] == "m" || e["kind"] == "v") && target >= 1 && target <= NREG && self.meta[target].kind != 0 {
            // provenance of the memory layout, over-approximated: a register is "tr" when it was made by
            // transpose or the column-major constructor, or computed from such a register
            let fresh = call.a == 0 && call.b == 0;
            let native = call.op.starts_with("nat_") || call.op.starts_with("v_nat_");
            // clone-based methods keep the (possibly oversized) buffer of their first operand: over-approximated
            self.meta[target].nat = native || (!fresh && anat);
            // (h_stack: ndarray's concatenate along axis 1 yields a column-major array; ab: the default
            // implementation transposes its result when both flags are set)
            let source = native || matches!(call.op.as_str(), "transpose" | "new" | "h_stack" | "ab");
            self.meta[target].tr = source || (!fresh && (atr || btr));
        }
        Some(e)
    }

    /// are the index arguments of the call inside the shapes of its operand registers?
    fn in_range(&self, call: &OpCall) -> bool {
        let ma = if call.a >= 1 && call.a <= NREG { self.meta[call.a] } else { Meta { kind: 0, r: 0, c: 0, maxabs: 0.0, tr: false, nat: false } };
        let mb = if call.b >= 1 && call.b <= NREG { self.meta[call.b] } else { Meta { kind: 0, r: 0, c: 0, maxabs: 0.0, tr: false, nat: false } };
        let ia = &call.ia;
        let ok = |x: i64, lim: usize| x >= 1 && (x as usize) <= lim;
        let vecshaped = |m: &Meta| m.kind == 1 && (m.r == 1 || m.c == 1) && m.r >= 1 && m.c >= 1;
        match call.op.as_str() {
            "get" | "set" | "add_element_mut" | "sub_element_mut" | "mul_element_mut" => ia.len() >= 2 && ok(ia[0], ma.r) && ok(ia[1], ma.c),
            "get_row" | "get_row_as_vec" | "copy_row_as_vec" => ia.len() >= 1 && ok(ia[0], ma.r),
            "get_col_as_vec" | "copy_col_as_vec" => ia.len() >= 1 && ok(ia[0], ma.c),
            "copy_row_into" => ia.len() >= 3 && ok(ia[0], ma.r) && ia[1] >= ma.c as i64,
            "copy_col_into" => ia.len() >= 3 && ok(ia[0], ma.c) && ia[1] >= ma.r as i64,
            "norm_neg" | "v_norm_neg" => ma.r * ma.c >= 1 && ma.r * ma.c <= 4 && ma.maxabs <= 20.0,
            "slice" => ia.len() >= 4 && ok(ia[0], ma.r) && ok(ia[1], ma.r) && ia[0] <= ia[1] && ok(ia[2], ma.c) && ok(ia[3], ma.c) && ia[2] <= ia[3],
            "take" => ia.len() >= 1 && call.iv.iter().all(|&x| ok(x, if ia[0] == 0 { ma.r } else { ma.c })),
            "v_get" | "v_set" | "v_add_element_mut" | "v_sub_element_mut" | "v_mul_element_mut" => ia.len() >= 1 && ok(ia[0], ma.c),
            "v_take" => call.iv.iter().all(|&x| ok(x, ma.c)),
            "scale_mut" => ia.len() >= 1 && call.iv.len() == (if ia[0] == 0 { ma.c } else { ma.r }) && call.iw.len() == call.iv.len(),
            "cov" => ma.r >= 2,
            // dot is specified on two vector-shaped matrices (any orientation; same length, or different: rejected)
            "dot" => vecshaped(&ma) && vecshaped(&mb),
            "max_diff" => ma.kind == 1 && mb.kind == 1 && ma.r == mb.r && ma.c == mb.c,
            "var" | "std" | "mean" | "column_mean" | "min" | "max" | "argmax" | "softmax_mut" | "norm_inf" | "norm_ninf" => ma.r >= 1 && ma.c >= 1,
            _ => true,
        }
    }

    /// Self-contained query on an operand given inline (not stored in a register).
    pub fn exec_stat(&mut self, run: i64, call: &OpCall, kind: &str, r: usize, c: usize, data: &[i64]) -> Option<Value> {
        let a: Reg<B> = if kind == "m" {
            Reg::M(B::build("from_array", r, c, &tv::<B>(data)))
        } else {
            Reg::V(<V<B> as BaseVector<B::T>>::from_array(&tv::<B>(data)))
        };
        let inl = json!({"ik": kind, "ir": r, "ic": c, "id": data});
        self.exec_on(run, "Stat", call, a, Reg::E, Some(inl))
    }

    fn exec_on(&mut self, run: i64, evname: &str, call: &OpCall, mut a: Reg<B>, b: Reg<B>, inl: Option<Value>) -> Option<Value> {
        set_codec(self.codec);
        let res = guard(|| Self::apply(call, &mut a, &b));
        if let Err(msg) = &res {
            if msg.starts_with(MALFORMED) {
                self.skipped += 1;
                return None;
            }
        }
        let in_place = is_in_place(&call.op);
        let target = if in_place { call.a } else { call.dst };
        // The operands as they are AFTER the call (read back like a result).  A copying method must leave
        // them alone; whatever it left is what the register holds from now on.
        let apost = if evname == "Op" && !in_place && call.a >= 1 && call.a <= NREG { Some(self.put_back(call.a, a)) } else { None };
        let bpost = if evname == "Op" && call.b >= 1 && call.b <= NREG && call.b != call.a { Some(self.put_back(call.b, b)) } else { None };
        let mut status = "ok";
        let mut kind = "n";
        let (mut r, mut c) = (0usize, 0usize);
        let mut d: Vec<i64> = vec![];
        let mut out: Vec<i64> = vec![];
        let mut flag = true;
        let mut bo = false;
        match res {
            Err(_) => status = "panic",
            // reading the result back goes through the library as well (shape, get): a result that cannot
            // be read (get panics on an inconsistent matrix) counts as a panic of the call
            Ok(Res::M(m)) => match guard(|| flat_m::<B>(&m)) {
                Ok((rr, cc, data)) => {
                    kind = "m";
                    r = rr;
                    c = cc;
                    self.store(target, Reg::M(m), 1, rr, cc, &data, &mut d, &mut flag);
                }
                Err(_) => status = "panic",
            },
            Ok(Res::Vv(v)) => match guard(|| flat_v::<B>(&v)) {
                Ok(data) => {
                    kind = "v";
                    r = 1;
                    c = data.len();
                    let n = data.len();
                    self.store(target, Reg::V(v), 2, 1, n, &data, &mut d, &mut flag);
                }
                Err(_) => status = "panic",
            },
            Ok(Res::Ints(v)) => {
                kind = "q";
                match ints(&v) {
                    Some(iv) => out = iv,
                    None => flag = false,
                }
            }
            Ok(Res::Fx(v)) => {
                kind = "q";
                out = v.iter().map(|&x| fx(x, 1024.0)).collect();
                flag = !out.contains(&NONFIN);
            }
            Ok(Res::Soft(v)) => {
                kind = "q";
                out = v.iter().map(|&x| fx(x, 1048576.0)).collect();
                flag = !out.contains(&NONFIN);
            }
            Ok(Res::Bool(x)) => {
                kind = "b";
                bo = x;
            }
        }
        let mut e = json!({"run": run, "ev": evname, "be": B::NAME, "ty": B::TY, "op": call.op,
            "a": call.a, "b": call.b, "dst": call.dst, "ia": call.ia, "iv": call.iv, "iw": call.iw,
            "status": status, "kind": kind, "r": r, "c": c, "d": d, "out": out, "flag": flag, "bool": bo});
        let none = (true, 0usize, 0usize, Vec::<i64>::new());
        let (aok, ar, ac, ad) = apost.unwrap_or_else(|| none.clone());
        let (bok, br, bc, bd) = bpost.unwrap_or(none);
        e["aok"] = json!(aok);
        e["ar"] = json!(ar);
        e["ac"] = json!(ac);
        e["ad"] = json!(ad);
        e["apost"] = json!(evname == "Op" && !in_place && call.a >= 1 && call.a <= NREG);
        e["bok"] = json!(bok);
        e["br"] = json!(br);
        e["bc"] = json!(bc);
        e["bd"] = json!(bd);
        e["bpost"] = json!(evname == "Op" && call.b >= 1 && call.b <= NREG && call.b != call.a);
        if let Some(Value::Object(extra)) = inl {
            for (k, v) in extra {
                e[k] = v;
            }
        }
        Some(e)
    }

    /// re-observe an operand after the call and keep it as the content of its register
    fn put_back(&mut self, idx: usize, reg: Reg<B>) -> (bool, usize, usize, Vec<i64>) {
        let obs = guard(|| match &reg {
            Reg::E => (0usize, 0usize, vec![]),
            Reg::M(m) => flat_m::<B>(m),
            Reg::V(v) => {
                let d = flat_v::<B>(v);
                (1, d.len(), d)
            }
        });
        match obs {
            Ok((r, c, data)) => match ints(&data) {
                Some(iv) => {
                    let maxabs = data.iter().fold(0.0f64, |m, x| m.max(x.abs()));
                    if !matches!(reg, Reg::E) {
                        self.meta[idx].r = r;
                        self.meta[idx].c = c;
                        self.meta[idx].maxabs = maxabs;
                    }
                    self.regs[idx] = reg;
                    (true, r, c, iv)
                }
                None => {
                    self.regs[idx] = Reg::E;
                    self.meta[idx] = Meta { kind: 0, r: 0, c: 0, maxabs: 0.0, tr: false, nat: false };
                    (false, r, c, vec![])
                }
            },
            Err(_) => {
                self.regs[idx] = Reg::E;
                self.meta[idx] = Meta { kind: 0, r: 0, c: 0, maxabs: 0.0, tr: false, nat: false };
                (false, 0, 0, vec![])
            }
        }
    }

    fn store(&mut self, target: usize, reg: Reg<B>, kind: u8, r: usize, c: usize, data: &[f64], d: &mut Vec<i64>, flag: &mut bool) {
        if target < 1 || target > NREG {
            // a call that was expected to be rejected (no destination planned) returned a value: the value
            // is reported, no register is written
            match ints(data) {
                Some(iv) => *d = iv,
                None => *flag = false,
            }
            return;
        }
        match ints(data) {
            Some(iv) => {
                let maxabs = data.iter().fold(0.0f64, |m, x| m.max(x.abs()));
                *d = iv;
                self.regs[target] = reg;
                self.meta[target] = Meta { kind, r, c, maxabs, tr: false, nat: false };
            }
            None => {
                // a register with a non-integer / non-finite entry is dropped on both sides
                *flag = false;
                self.regs[target] = Reg::E;
                self.meta[target] = Meta { kind: 0, r: 0, c: 0, maxabs: 0.0, tr: false, nat: false };
            }
        }
    }

    /// the call itself (may panic: a panic of the library is data)
    fn apply(call: &OpCall, a: &mut Reg<B>, b: &Reg<B>) -> Res<B> {
        // `pow` is the one copying method that takes `&mut self`: it is called on the operand itself
        if call.op == "pow" {
            let p = B::T::from_i64x(*call.ia.first().unwrap_or_else(|| panic!("{}", MALFORMED)));
            return match a {
                Reg::M(m) => Res::M(m.pow(p)),
                _ => panic!("{}", MALFORMED),
            };
        }
        let a: &Reg<B> = &*a;
        macro_rules! ma { () => { as_m::<B>(a) }; }
        macro_rules! mb { () => { as_m::<B>(b) }; }
        macro_rules! va { () => { as_v::<B>(a) }; }
        macro_rules! vb { () => { as_v::<B>(b) }; }
        let ia = |i: usize| -> i64 { *call.ia.get(i).unwrap_or_else(|| panic!("{}", MALFORMED)) };
        let sc = |i: usize| -> B::T { enc::<B>(ia(i)) }; // a value of the run (rescaled with it)
        let raw = |i: usize| -> B::T { B::T::from_i64x(ia(i)) }; // a pure number (factor, divisor, exponent)
        let idx = |i: usize| -> usize { us(ia(i) - 1) };
        let one = B::T::from_i64x(1);
        let fm = |m: &B::M| -> Vec<f64> { flat_m::<B>(m).2 };
        let fv = |v: &Vec<B::T>| -> Vec<f64> { v.iter().map(|&x| f::<B>(x)).collect() };
        match call.op.as_str() {
            // ---------------------------------------------------------------- construction
            "from_array" | "from_vec" | "from_2d_array" | "from_2d_vec" | "new" | "nat_row_offset" | "nat_col_offset"
            | "nat_inplace" | "nat_strided" | "nat_reversed" | "nat_t_owned" | "nat_broadcast" | "nat_remove_row"
            | "nat_resize" => {
                Res::M(B::build(&call.op, us(ia(0)), us(ia(1)), &tv::<B>(&call.iv)))
            }
            "row_vector_from_array" | "row_vector_from_vec" => Res::M(B::build(&call.op, 1, call.iv.len(), &tv::<B>(&call.iv))),
            "column_vector_from_array" | "column_vector_from_vec" => {
                Res::M(B::build(&call.op, call.iv.len(), 1, &tv::<B>(&call.iv)))
            }
            "eye" => Res::M(<B::M as BaseMatrix<B::T>>::eye(us(ia(0)))),
            "zeros" => Res::M(<B::M as BaseMatrix<B::T>>::zeros(us(ia(0)), us(ia(1)))),
            "ones" => Res::M(<B::M as BaseMatrix<B::T>>::ones(us(ia(0)), us(ia(1)))),
            "fill" => Res::M(<B::M as BaseMatrix<B::T>>::fill(us(ia(0)), us(ia(1)), sc(2))),
            "v_from_array" => Res::Vv(<V<B> as BaseVector<B::T>>::from_array(&tv::<B>(&call.iv))),
            "v_nat_reversed" | "v_nat_strided" | "v_nat_offset" => Res::Vv(B::vbuild(&call.op, &tv::<B>(&call.iv))),
            "v_zeros" => Res::Vv(<V<B> as BaseVector<B::T>>::zeros(us(ia(0)))),
            "v_ones" => Res::Vv(<V<B> as BaseVector<B::T>>::ones(us(ia(0)))),
            "v_fill" => Res::Vv(<V<B> as BaseVector<B::T>>::fill(us(ia(0)), sc(1))),
            // ---------------------------------------------------------------- conversions
            "from_row_vector" => Res::M(<B::M as BaseMatrix<B::T>>::from_row_vector(va!().clone())),
            "to_row_vector" => Res::Vv(ma!().clone().to_row_vector()),
            "get_row" => Res::Vv(ma!().get_row(idx(0))),
            // ---------------------------------------------------------------- unary
            "clone" => Res::M(ma!().clone()),
            "v_clone" => Res::Vv(va!().clone()),
            "transpose" => Res::M(ma!().transpose()),
            "negative" => Res::M(ma!().negative()),
            "negative_mut" => {
                let mut x = ma!().clone();
                x.negative_mut();
                Res::M(x)
            }
            "abs" => Res::M(ma!().abs()),
            "abs_mut" => {
                let mut x = ma!().clone();
                x.abs_mut();
                Res::M(x)
            }
            "add_scalar" => Res::M(ma!().add_scalar(sc(0))),
            "sub_scalar" => Res::M(ma!().sub_scalar(sc(0))),
            "mul_scalar" => Res::M(ma!().mul_scalar(raw(0))),
            "add_scalar_mut" => {
                let mut x = ma!().clone();
                x.add_scalar_mut(sc(0));
                Res::M(x)
            }
            "sub_scalar_mut" => {
                let mut x = ma!().clone();
                x.sub_scalar_mut(sc(0));
                Res::M(x)
            }
            "mul_scalar_mut" => {
                let mut x = ma!().clone();
                x.mul_scalar_mut(raw(0));
                Res::M(x)
            }
            "pow_mut" => {
                let mut x = ma!().clone();
                x.pow_mut(raw(0));
                Res::M(x)
            }
            "binarize" => Res::M(ma!().binarize(sc(0))),
            "binarize_mut" => {
                let mut x = ma!().clone();
                x.binarize_mut(sc(0));
                Res::M(x)
            }
            "slice" => Res::M(ma!().slice(idx(0)..us(ia(1)), idx(2)..us(ia(3)))),
            "reshape" => Res::M(ma!().reshape(us(ia(0)), us(ia(1)))),
            "take" => {
                let ix: Vec<usize> = call.iv.iter().map(|&x| us(x - 1)).collect();
                Res::M(ma!().take(&ix, ia(0) as u8))
            }
            // ---------------------------------------------------------------- binary
            "add" => Res::M(ma!().add(mb!())),
            "sub" => Res::M(ma!().sub(mb!())),
            "mul" => Res::M(ma!().mul(mb!())),
            "add_mut" => {
                let mut x = ma!().clone();
                x.add_mut(mb!());
                Res::M(x)
            }
            "sub_mut" => {
                let mut x = ma!().clone();
                x.sub_mut(mb!());
                Res::M(x)
            }
            "mul_mut" => {
                let mut x = ma!().clone();
                x.mul_mut(mb!());
                Res::M(x)
            }
            "copy_from" => {
                let mut x = ma!().clone();
                x.copy_from(mb!());
                Res::M(x)
            }
            "matmul" => Res::M(ma!().matmul(mb!())),
            "ab" => Res::M(ma!().ab(ia(0) == 1, mb!(), ia(1) == 1)),
            "h_stack" => Res::M(ma!().h_stack(mb!())),
            "v_stack" => Res::M(ma!().v_stack(mb!())),
            // ---------------------------------------------------------------- single elements
            "set" => {
                let mut x = ma!().clone();
                x.set(idx(0), idx(1), sc(2));
                Res::M(x)
            }
            "add_element_mut" => {
                let mut x = ma!().clone();
                x.add_element_mut(idx(0), idx(1), sc(2));
                Res::M(x)
            }
            "sub_element_mut" => {
                let mut x = ma!().clone();
                x.sub_element_mut(idx(0), idx(1), sc(2));
                Res::M(x)
            }
            "mul_element_mut" => {
                let mut x = ma!().clone();
                x.mul_element_mut(idx(0), idx(1), raw(2));
                Res::M(x)
            }
            // ---------------------------------------------------------------- vectors
            "v_add" => Res::Vv(va!().add(vb!())),
            "v_sub" => Res::Vv(va!().sub(vb!())),
            "v_mul" => Res::Vv(va!().mul(vb!())),
            "v_add_mut" => {
                let mut x = va!().clone();
                x.add_mut(vb!());
                Res::Vv(x)
            }
            "v_sub_mut" => {
                let mut x = va!().clone();
                x.sub_mut(vb!());
                Res::Vv(x)
            }
            "v_mul_mut" => {
                let mut x = va!().clone();
                x.mul_mut(vb!());
                Res::Vv(x)
            }
            "v_copy_from" => {
                let mut x = va!().clone();
                x.copy_from(vb!());
                Res::Vv(x)
            }
            "v_add_scalar" => Res::Vv(va!().add_scalar(sc(0))),
            "v_sub_scalar" => Res::Vv(va!().sub_scalar(sc(0))),
            "v_mul_scalar" => Res::Vv(va!().mul_scalar(raw(0))),
            "v_add_scalar_mut" => {
                let mut x = va!().clone();
                x.add_scalar_mut(sc(0));
                Res::Vv(x)
            }
            "v_sub_scalar_mut" => {
                let mut x = va!().clone();
                x.sub_scalar_mut(sc(0));
                Res::Vv(x)
            }
            "v_mul_scalar_mut" => {
                let mut x = va!().clone();
                x.mul_scalar_mut(raw(0));
                Res::Vv(x)
            }
            "v_take" => {
                let ix: Vec<usize> = call.iv.iter().map(|&x| us(x - 1)).collect();
                Res::Vv(va!().take(&ix))
            }
            "v_set" => {
                let mut x = va!().clone();
                x.set(idx(0), sc(1));
                Res::Vv(x)
            }
            "v_add_element_mut" => {
                let mut x = va!().clone();
                x.add_element_mut(idx(0), sc(1));
                Res::Vv(x)
            }
            "v_sub_element_mut" => {
                let mut x = va!().clone();
                x.sub_element_mut(idx(0), sc(1));
                Res::Vv(x)
            }
            "v_mul_element_mut" => {
                let mut x = va!().clone();
                x.mul_element_mut(idx(0), raw(1));
                Res::Vv(x)
            }
            // ---------------------------------------------------------------- integer queries
            "shape" => {
                let (r, c) = ma!().shape();
                Res::Ints(vec![r as f64, c as f64])
            }
            "get" => Res::Ints(vec![f::<B>(ma!().get(idx(0), idx(1)))]),
            "get_row_as_vec" => Res::Ints(fv(&ma!().get_row_as_vec(idx(0)))),
            "get_col_as_vec" => Res::Ints(fv(&ma!().get_col_as_vec(idx(0)))),
            "copy_row_as_vec" => {
                let mut buf = vec![B::T::from_i64x(-77); ma!().shape().1];
                ma!().copy_row_as_vec(idx(0), &mut buf);
                Res::Ints(fv(&buf))
            }
            "copy_col_as_vec" => {
                let mut buf = vec![B::T::from_i64x(-77); ma!().shape().0];
                ma!().copy_col_as_vec(idx(0), &mut buf);
                Res::Ints(fv(&buf))
            }
            "iter_nth" | "iter_skip" | "iter_step" | "iter_count" | "iter_last" | "iter_size_hint" => {
                let k = us(ia(0).max(0));
                match B::iter_mode(ma!(), &call.op, k) {
                    Some(v) => Res::Ints(v),
                    None => panic!("{}", MALFORMED),
                }
            }
            "iter" => match B::iter_flat(ma!()) {
                Some(v) => Res::Ints(fv(&v)),
                None => panic!("{}", MALFORMED),
            },
            "sum" => Res::Ints(vec![f::<B>(ma!().sum())]),
            "min" => Res::Ints(vec![f::<B>(ma!().min())]),
            "max" => Res::Ints(vec![f::<B>(ma!().max())]),
            "norm1" => Res::Ints(vec![f::<B>(ma!().norm(one))]),
            "norm_inf" => Res::Ints(vec![f::<B>(ma!().norm(<B::T as Inf>::pinf()))]),
            "norm_ninf" => Res::Ints(vec![f::<B>(ma!().norm(<B::T as Inf>::ninf()))]),
            "norm2sq" => {
                let d = f::<B>(ma!().norm2());
                Res::Ints(vec![(d * d).round()])
            }
            "normp" => {
                let d = f::<B>(ma!().norm(raw(0)));
                Res::Ints(vec![d.powi(ia(0) as i32).round()])
            }
            // p-norm of non-integer order ia[0] / 2
            // p-norm of negative order -ia[0] / 2
            "norm_neg" => Res::Fx(vec![f::<B>(ma!().norm(-raw(0) / B::T::from_i64x(2)))]),
            "v_norm_neg" => Res::Fx(vec![f::<B>(va!().norm(-raw(0) / B::T::from_i64x(2)))]),
            "serde_json" | "serde_bincode" => match B::roundtrip(ma!(), &call.op) {
                Some(Ok(m)) => Res::M(m),
                Some(Err(msg)) => panic!("serde round trip failed: {}", msg),
                None => panic!("{}", MALFORMED),
            },
            // copy_row_as_vec / copy_col_as_vec into a caller buffer of length ia[1] pre-filled with ia[2]
            "copy_row_into" => {
                let mut buf = vec![raw(2); us(ia(1))];
                ma!().copy_row_as_vec(idx(0), &mut buf);
                Res::Ints(fv(&buf))
            }
            "copy_col_into" => {
                let mut buf = vec![raw(2); us(ia(1))];
                ma!().copy_col_as_vec(idx(0), &mut buf);
                Res::Ints(fv(&buf))
            }
            "norm_half" => Res::Fx(vec![f::<B>(ma!().norm(raw(0) / B::T::from_i64x(2)))]),
            "v_norm_half" => Res::Fx(vec![f::<B>(va!().norm(raw(0) / B::T::from_i64x(2)))]),
            "max_diff" => Res::Ints(vec![f::<B>(ma!().max_diff(mb!()))]),
            "dot" => Res::Ints(vec![f::<B>(ma!().dot(mb!()))]),
            "argmax" => Res::Ints(ma!().argmax().iter().map(|&x| x as f64).collect()),
            "unique" => Res::Ints(fv(&ma!().unique())),
            "v_len" => Res::Ints(vec![va!().len() as f64]),
            "v_get" => Res::Ints(vec![f::<B>(va!().get(idx(0)))]),
            "v_to_vec" => Res::Ints(fv(&va!().to_vec())),
            "v_sum" => Res::Ints(vec![f::<B>(va!().sum())]),
            "v_norm1" => Res::Ints(vec![f::<B>(va!().norm(one))]),
            "v_norm_inf" => Res::Ints(vec![f::<B>(va!().norm(<B::T as Inf>::pinf()))]),
            "v_norm_ninf" => Res::Ints(vec![f::<B>(va!().norm(<B::T as Inf>::ninf()))]),
            "v_norm2sq" => {
                let d = f::<B>(va!().norm2());
                Res::Ints(vec![(d * d).round()])
            }
            "v_normp" => {
                let d = f::<B>(va!().norm(raw(0)));
                Res::Ints(vec![d.powi(ia(0) as i32).round()])
            }
            "v_dot" => Res::Ints(vec![f::<B>(va!().dot(vb!()))]),
            "v_unique" => Res::Ints(fv(&va!().unique())),
            // ---------------------------------------------------------------- equality tests
            "eq" => Res::Bool(ma!() == mb!()),
            "approximate_eq" => Res::Bool(ma!().approximate_eq(mb!(), sc(0))),
            "v_eq" => Res::Bool(B::veq(va!(), vb!())),
            "v_approximate_eq" => Res::Bool(va!().approximate_eq(vb!(), sc(0))),
            // ---------------------------------------------------------------- rational results
            "column_mean" => Res::Fx(fv(&ma!().column_mean())),
            "mean" => Res::Fx(fv(&MatrixStats::mean(ma!(), ia(0) as u8))),
            "var" => Res::Fx(fv(&MatrixStats::var(ma!(), ia(0) as u8))),
            "std" => Res::Fx(fv(&MatrixStats::std(ma!(), ia(0) as u8))),
            "cov" => Res::Fx(fm(&ma!().cov())),
            "div" => Res::Fx(fm(&ma!().div(mb!()))),
            "div_mut" => {
                let mut x = ma!().clone();
                x.div_mut(mb!());
                Res::Fx(fm(&x))
            }
            "div_scalar" => Res::Fx(fm(&ma!().div_scalar(raw(0)))),
            "div_scalar_mut" => {
                let mut x = ma!().clone();
                x.div_scalar_mut(raw(0));
                Res::Fx(fm(&x))
            }
            "scale_mut" => {
                let mut x = ma!().clone();
                let mean = tv::<B>(&call.iv);
                let std = tv::<B>(&call.iw);
                x.scale_mut(&mean, &std, ia(0) as u8);
                Res::Fx(fm(&x))
            }
            "softmax_mut" => {
                let mut x = ma!().clone();
                x.softmax_mut();
                Res::Soft(fm(&x))
            }
            "v_mean" => Res::Fx(vec![f::<B>(va!().mean())]),
            "v_var" => Res::Fx(vec![f::<B>(va!().var())]),
            "v_std" => Res::Fx(vec![f::<B>(va!().std())]),
            "v_div" => Res::Fx(flat_v::<B>(&va!().div(vb!()))),
            "v_div_mut" => {
                let mut x = va!().clone();
                x.div_mut(vb!());
                Res::Fx(flat_v::<B>(&x))
            }
            "v_div_scalar" => Res::Fx(flat_v::<B>(&va!().div_scalar(raw(0)))),
            "v_div_scalar_mut" => {
                let mut x = va!().clone();
                x.div_scalar_mut(raw(0));
                Res::Fx(flat_v::<B>(&x))
            }
            other => panic!("harness: unknown op {}", other),
        }
    }
}

pub mod num_traits_inf {
    pub trait Inf {
        fn pinf() -> Self;
        fn ninf() -> Self;
    }
    impl Inf for f64 {
        fn pinf() -> f64 {
            f64::INFINITY
        }
        fn ninf() -> f64 {
            f64::NEG_INFINITY
        }
    }
    impl Inf for f32 {
        fn pinf() -> f32 {
            f32::INFINITY
        }
        fn ninf() -> f32 {
            f32::NEG_INFINITY
        }
    }
}

pub fn is_in_place(op: &str) -> bool {
    matches!(
        op,
        "negative_mut" | "abs_mut" | "add_scalar_mut" | "sub_scalar_mut" | "mul_scalar_mut" | "pow_mut" | "binarize_mut"
            | "add_mut" | "sub_mut" | "mul_mut" | "copy_from" | "set" | "add_element_mut" | "sub_element_mut"
            | "mul_element_mut" | "v_add_mut" | "v_sub_mut" | "v_mul_mut" | "v_add_scalar_mut" | "v_sub_scalar_mut"
            | "v_mul_scalar_mut" | "v_copy_from" | "v_set" | "v_add_element_mut" | "v_sub_element_mut" | "v_mul_element_mut"
    )
}

pub fn reset_event<B: Be>(run: i64) -> Value {
    reset_event_mode::<B>(run, Codec::Plain)
}

pub fn reset_event_mode<B: Be>(run: i64, codec: Codec) -> Value {
    let (mode, se) = match codec {
        Codec::Plain => ("plain", 0),
        Codec::Scale(e) => ("scale", e),
        Codec::Ulp => ("ulp", 0),
    };
    json!({"run": run, "ev": "Reset", "be": B::NAME, "ty": B::TY, "mode": mode, "se": se})
}
