//! C04 — nearest-neighbour search (LinearKNNSearch, CoverTree), the bounded selection heap and
//! the k-NN estimators.  This program only *generates inputs, calls the library and projects
//! the results to integers*; whether a result is right is decided by the TLA+ predicates of
//! /verif/spec/neighbour (IsKnn, IsRadius, the heap contract, PredClassOK, PredRegOK) that TLC
//! evaluates on the events written here.
//!
//! Projections used (DESIGN §2.5):
//!  * lattice data: coordinates are integers in units of 1/u (u = 1 or 2); a distance d is
//!    logged as the integer `key` = u*d (Manhattan), (u*d)^2 (Euclid), (u*d)^p (Minkowski p),
//!    d*len (Hamming) — the integer the metric's closed form gives on the lattice.  A value
//!    that is not within 1e-6 of an integer is logged as -2, a non-finite one as -1 (no
//!    predicate accepts a negative key).
//!  * continuous data: distances are replaced by their dense ranks among the distances the
//!    library's own metric returns from the query to all n points (rank -1: equal to none).
//!  * estimator outputs: exact integers (classes) or fixed point 2^-10 (regression).
use rand::rngs::StdRng;
use rand::seq::SliceRandom;
use rand::Rng;
use serde_json::{json, Value};
use smartcore::algorithm::neighbour::cover_tree::CoverTree;
use smartcore::algorithm::neighbour::linear_search::LinearKNNSearch;
use smartcore::algorithm::neighbour::KNNAlgorithmName;
use smartcore::api::{Predictor, SupervisedEstimator};
use smartcore::error::Failed;
use smartcore::linalg::naive::dense_matrix::DenseMatrix;
use smartcore::math::distance::{Distance, Distances};
use smartcore::neighbors::knn_classifier::{KNNClassifier, KNNClassifierParameters};
use smartcore::neighbors::knn_regressor::{KNNRegressor, KNNRegressorParameters};
use smartcore::neighbors::KNNWeightFunction;
use smartcore::verif::HeapHandle;
use vutil::*;

type P = Vec<f64>;
type Hit<'a> = (usize, f64, &'a P);

// ------------------------------------------------------------------------------------------
// metrics and projections
// ------------------------------------------------------------------------------------------
#[derive(Clone, Copy, Debug, PartialEq)]
enum Metric {
    Man,
    Euc,
    Mink(u16),
    Ham,
}

impl Metric {
    fn name(&self) -> &'static str {
        match self {
            Metric::Man => "man",
            Metric::Euc => "euc",
            Metric::Mink(_) => "mink",
            Metric::Ham => "ham",
        }
    }
    fn p(&self) -> i64 {
        match self {
            Metric::Man => 1,
            Metric::Euc => 2,
            Metric::Mink(p) => *p as i64,
            Metric::Ham => 0,
        }
    }
    /// integer key of a distance on lattice data (see module comment)
    fn key(&self, u: i64, len: usize, d: f64) -> i64 {
        if !d.is_finite() {
            return -1;
        }
        let s = u as f64 * d;
        let v = match self {
            Metric::Man => s,
            Metric::Euc => s * s,
            Metric::Mink(p) => s.powi(*p as i32),
            Metric::Ham => d * len as f64,
        };
        let r = v.round();
        if r.abs() > 1.0e9 {
            return -1;
        }
        if (v - r).abs() > 1.0e-6 * (1.0 + r.abs()) {
            return -2;
        }
        r as i64
    }
}

/// run `$body` with `$d` bound to the library's distance object for metric `$m`
macro_rules! with_metric {
    ($m:expr, $d:ident, $body:expr) => {
        match $m {
            Metric::Man => {
                let $d = Distances::manhattan();
                $body
            }
            Metric::Euc => {
                let $d = Distances::euclidian();
                $body
            }
            Metric::Mink(p) => {
                let $d = Distances::minkowski(p);
                $body
            }
            Metric::Ham => {
                let $d = Distances::hamming();
                $body
            }
        }
    };
}

fn to_f(p: &[i64], u: i64) -> P {
    p.iter().map(|&x| x as f64 / u as f64).collect()
}

/// coordinates back to integers in units of 1/u; -999999 for a value that is not on the lattice
fn to_i(p: &[f64], u: i64) -> Vec<i64> {
    p.iter()
        .map(|&x| {
            let v = x * u as f64;
            if v.is_finite() && v.fract() == 0.0 && v.abs() < 1.0e9 {
                v as i64
            } else {
                -999_999
            }
        })
        .collect()
}

// ------------------------------------------------------------------------------------------
// the two search structures behind one face
// ------------------------------------------------------------------------------------------
enum Srch<D: Distance<P, f64>> {
    Lin(LinearKNNSearch<P, f64, D>),
    Cov(CoverTree<P, f64, D>),
}

impl<D: Distance<P, f64>> Srch<D> {
    fn new(backend: &str, data: Vec<P>, d: D) -> Result<Srch<D>, Failed> {
        if backend == "linear" {
            LinearKNNSearch::new(data, d).map(Srch::Lin)
        } else {
            CoverTree::new(data, d).map(Srch::Cov)
        }
    }
    fn find(&self, q: &P, k: usize) -> Result<Vec<Hit<'_>>, Failed> {
        match self {
            Srch::Lin(s) => s.find(q, k),
            Srch::Cov(s) => s.find(q, k),
        }
    }
    fn find_radius(&self, q: &P, r: f64) -> Result<Vec<Hit<'_>>, Failed> {
        match self {
            Srch::Lin(s) => s.find_radius(q, r),
            Srch::Cov(s) => s.find_radius(q, r),
        }
    }
}

/// radius requests, expressed relative to the sorted distinct distances ds[0] < ds[1] < ...
/// from the query to the data (computed with the library's own metric)
#[derive(Clone, Copy, Debug)]
enum RSpec {
    At(usize),  // r = ds[j] exactly (boundary: distance <= r must include it)
    Mid(usize), // r = (ds[j] + ds[j+1]) / 2
    Below,      // r = ds[0] / 2          (only when ds[0] > 0)
    Above,      // r = ds[last] + 1
    Zero,       // r = 0    -> error
    Neg,        // r = -1   -> error
    Abs(f64),   // r given directly (skipped when it is within 1e-9 of a data distance)
    Inf,        // r = +infinity: a valid radius (r > 0); every point
    Max,        // r = f64::MAX
}

struct Case<'a> {
    run: i64,
    src: &'a str,     // "lat" (lattice, keys recomputed by the spec) | "cont" (ranks)
    metric: Metric,
    backend: &'a str, // "linear" | "cover"
    u: i64,
    data: &'a [P],
    q: &'a P,
    ks: &'a [usize],
    rs: &'a [RSpec],
}

/// One Sweep event: build the structure over `data`, run every requested find / find_radius
/// for the query and log what came back.
fn sweep<D: Distance<P, f64>>(dist: D, c: &Case) -> Value {
    let n = c.data.len();
    let len = c.q.len();
    let lat = c.src == "lat";
    // distances from the query to every point, by the library's own metric (used for the
    // choice of radii and, for continuous data, for the rank projection)
    let all: Vec<f64> = c.data.iter().map(|x| dist.distance(c.q, x)).collect();
    let mut ds = all.clone();
    ds.sort_by(|a, b| a.partial_cmp(b).unwrap());
    ds.dedup();
    let rank_of = |d: f64| -> i64 {
        match ds.binary_search_by(|p| p.partial_cmp(&d).unwrap_or(std::cmp::Ordering::Less)) {
            Ok(i) => i as i64 + 1,
            Err(_) => -1,
        }
    };
    let proj = |d: f64| -> i64 {
        if lat {
            c.metric.key(c.u, len, d)
        } else if d.is_finite() {
            rank_of(d)
        } else {
            -1
        }
    };
    let entry = |h: &Hit| -> Value {
        let inr = h.0 < n;
        if lat {
            json!({"i": h.0, "key": proj(h.1), "pt": to_i(h.2, c.u)})
        } else {
            json!({"i": h.0, "key": proj(h.1), "ptEq": inr && *h.2 == c.data[h.0]})
        }
    };
    let mut ev = json!({"run": c.run, "ev": "Sweep", "src": c.src, "metric": c.metric.name(),
        "p": c.metric.p(), "backend": c.backend, "u": c.u, "n": n,
        "ident": c.data.iter().all(|x| *x == c.data[0])});
    if lat {
        ev["D"] = json!(c.data.iter().map(|x| to_i(x, c.u)).collect::<Vec<_>>());
        ev["q"] = json!(to_i(c.q, c.u));
    } else {
        ev["allKey"] = json!(all.iter().map(|&d| rank_of(d)).collect::<Vec<_>>());
    }
    let built = guard(|| Srch::new(c.backend, c.data.to_vec(), dist.clone()));
    let s = match built {
        Ok(Ok(s)) => s,
        Ok(Err(_)) | Err(_) => {
            ev["build"] = json!(if built.is_err() { "panic" } else { "err" });
            ev["finds"] = json!([]);
            ev["radii"] = json!([]);
            return ev;
        }
    };
    ev["build"] = json!("ok");
    let mut finds = Vec::new();
    for &k in c.ks {
        let r = guard(|| s.find(c.q, k).map(|v| v.iter().map(|h| entry(h)).collect::<Vec<_>>()));
        finds.push(match r {
            Ok(Ok(res)) => json!({"k": k, "status": "ok", "res": res}),
            Ok(Err(_)) => json!({"k": k, "status": "err"}),
            Err(_) => json!({"k": k, "status": "panic"}),
        });
    }
    ev["finds"] = json!(finds);
    let mut radii = Vec::new();
    let m = ds.len();
    for &rs in c.rs {
        // (radius, positive?, rkey) with {points : key <= rkey} = {points : distance <= radius}
        let (r, rkey) = match rs {
            RSpec::At(j) if j < m => (ds[j], proj(ds[j])),
            RSpec::Mid(j) if j + 1 < m => ((ds[j] + ds[j + 1]) / 2.0, proj(ds[j])),
            RSpec::Below if ds[0] > 0.0 => (ds[0] / 2.0, proj(ds[0]) - 1),
            RSpec::Above => (ds[m - 1] + 1.0, proj(ds[m - 1])),
            RSpec::Zero => (0.0, 0),
            RSpec::Neg => (-1.0, 0),
            RSpec::Inf => (f64::INFINITY, proj(ds[m - 1])),
            RSpec::Max => (f64::MAX, proj(ds[m - 1])),
            RSpec::Abs(r) if r > 0.0 && ds.iter().all(|&d| (d - r).abs() > 1.0e-9 * (1.0 + r)) => {
                // key of the largest data distance below r
                match ds.iter().rposition(|&d| d < r) {
                    Some(j) => (r, proj(ds[j])),
                    None => (r, proj(ds[0]) - 1),
                }
            }
            _ => continue,
        };
        if r.is_nan() {
            continue; // NaN is outside the domain of the statement (neither r > 0 nor r <= 0)
        }
        // a midpoint that rounds onto one of its ends would blur the boundary: skip it
        if let RSpec::Mid(j) = rs {
            if !(r > ds[j] && r < ds[j + 1]) {
                continue;
            }
        }
        let kind = match rs {
            RSpec::At(_) => "at",
            RSpec::Mid(_) => "mid",
            RSpec::Below => "below",
            RSpec::Above => "above",
            RSpec::Zero => "zero",
            RSpec::Neg => "neg",
            RSpec::Abs(_) => "abs",
            RSpec::Inf => "inf",
            RSpec::Max => "max",
        };
        let res = guard(|| {
            s.find_radius(c.q, r)
                .map(|v| v.iter().map(|h| entry(h)).collect::<Vec<_>>())
        });
        radii.push(match res {
            Ok(Ok(res)) => json!({"kind": kind, "rpos": r > 0.0, "rkey": rkey, "status": "ok", "res": res}),
            Ok(Err(_)) => json!({"kind": kind, "rpos": r > 0.0, "rkey": rkey, "status": "err"}),
            Err(_) => json!({"kind": kind, "rpos": r > 0.0, "rkey": rkey, "status": "panic"}),
        });
    }
    ev["radii"] = json!(radii);
    ev
}

fn all_rspecs(max_distinct: usize) -> Vec<RSpec> {
    let mut v = vec![RSpec::Zero, RSpec::Neg, RSpec::Below, RSpec::Above, RSpec::Inf];
    for j in 0..max_distinct {
        v.push(RSpec::At(j));
        v.push(RSpec::Mid(j));
    }
    v
}

const METRICS4: [Metric; 4] = [Metric::Man, Metric::Euc, Metric::Mink(3), Metric::Ham];
const BACKENDS: [&str; 2] = ["linear", "cover"];

// ------------------------------------------------------------------------------------------
// gen-lattice: spec -> impl.  The inputs (all multisets of cells of the 3x3 lattice) are the
// REPLAY lines printed by TLC for spec/neighbour/KnnMC.tla; every multiset is run in its
// canonical order and two rotations, for 13 queries, 4 metrics, both structures, every
// k in 0..n+1 and every radius at / between / below / above the occurring distances.
// ------------------------------------------------------------------------------------------
fn gen_lattice(inp: &str, outp: &str) {
    let inputs = read_ndjson(inp);
    let mut out = Out::create(outp);
    // queries in half units: the 9 lattice points and 4 off-lattice ones
    let mut queries: Vec<Vec<i64>> = Vec::new();
    for y in 0..3 {
        for x in 0..3 {
            queries.push(vec![2 * x, 2 * y]);
        }
    }
    queries.extend(vec![vec![1, 1], vec![3, 1], vec![2, 1], vec![5, 3]]);
    let mut run = 0i64;
    let mut total = 0usize;
    for line in inputs.iter() {
        let cells: Vec<i64> = line["cells"].as_array().unwrap().iter().map(|c| c.as_i64().unwrap()).collect();
        let n = cells.len();
        let base: Vec<Vec<i64>> = cells.iter().map(|c| vec![2 * (c % 3), 2 * (c / 3)]).collect();
        let mut orders: Vec<Vec<Vec<i64>>> = vec![base.clone()];
        // six-point multisets (3003 of them) are run in their canonical order only
        // and five-point ones in the canonical order and one rotation
        for (ri, rot) in [1usize, (n + 1) / 2].iter().copied().enumerate() {
            if n >= 6 || (n == 5 && ri == 0) {
                continue;
            }
            let mut o = base.clone();
            o.rotate_left(rot % n);
            if !orders.contains(&o) {
                orders.push(o);
            }
        }
        let ks: Vec<usize> = (0..=n + 1).collect();
        // every boundary radius; for n >= 5 only every other in-between radius
        let rs: Vec<RSpec> = all_rspecs(n).into_iter()
            .filter(|r| match r { RSpec::Mid(j) => n < 5 || j % 2 == 0, _ => true }).collect();
        for o in &orders {
            let data: Vec<P> = o.iter().map(|p| to_f(p, 2)).collect();
            for qi in &queries {
                let q = to_f(qi, 2);
                for m in METRICS4 {
                    for b in BACKENDS {
                        run += 1;
                        let c = Case { run, src: "lat", metric: m, backend: b, u: 2, data: &data, q: &q, ks: &ks, rs: &rs };
                        let ev = with_metric!(m, d, sweep(d, &c));
                        out.emit(ev);
                        total += 1;
                    }
                }
            }
        }
    }
    out.finish();
    println!("{} sweep events from {} multisets", total, inputs.len());
}

// ------------------------------------------------------------------------------------------
// gen-edge: the boundary inputs the statement names explicitly — a single point, all points
// identical, duplicated points — for every metric and both structures (lattice, u = 1).
// ------------------------------------------------------------------------------------------
fn gen_edge(outp: &str) {
    let mut out = Out::create(outp);
    let mut run = 0i64;
    let mut sets: Vec<(Vec<Vec<i64>>, Vec<Vec<i64>>)> = Vec::new();
    // single point, 1..3 dimensions; queries: the point itself and another one
    for d in 1..=3usize {
        sets.push((vec![vec![1; d]], vec![vec![1; d], vec![0; d], vec![3; d]]));
    }
    // all points identical, n = 2..6
    for n in 2..=6usize {
        let d = 1 + n % 3;
        sets.push((vec![vec![2; d]; n], vec![vec![2; d], vec![0; d]]));
    }
    // duplicates of some points, first point duplicated / last point duplicated
    sets.push((vec![vec![0, 0], vec![0, 0], vec![1, 0], vec![2, 2]], vec![vec![0, 0], vec![1, 1], vec![2, 2]]));
    sets.push((vec![vec![3, 1], vec![0, 0], vec![1, 0], vec![1, 0], vec![1, 0]], vec![vec![1, 0], vec![0, 1], vec![3, 1]]));
    sets.push((vec![vec![0], vec![4], vec![4], vec![0], vec![2], vec![2]], vec![vec![2], vec![1], vec![4], vec![7]]));
    // collinear points on the diagonal: every distance is a multiple of sqrt 2, so that the
    // triangle inequality holds with equality and its floating-point evaluation may not
    sets.push((vec![vec![4, 4], vec![5, 5], vec![8, 8], vec![0, 0], vec![7, 7], vec![3, 3], vec![0, 0]],
               vec![vec![0, 0], vec![1, 1], vec![8, 8]]));
    // two points only
    sets.push((vec![vec![0, 0], vec![3, 4]], vec![vec![0, 0], vec![3, 4], vec![1, 1]]));
    for (di, qs) in &sets {
        let n = di.len();
        let data: Vec<P> = di.iter().map(|p| to_f(p, 1)).collect();
        let ks: Vec<usize> = (0..=n + 1).collect();
        let mut rs = all_rspecs(n);
        rs.push(RSpec::Max);
        for qi in qs {
            let q = to_f(qi, 1);
            for m in METRICS4 {
                for b in BACKENDS {
                    run += 1;
                    let c = Case { run, src: "lat", metric: m, backend: b, u: 1, data: &data, q: &q, ks: &ks, rs: &rs };
                    out.emit(with_metric!(m, d, sweep(d, &c)));
                }
            }
        }
    }
    println!("{} edge events", out.finish());
}

// ------------------------------------------------------------------------------------------
// gen-random: impl -> spec.  Seeded random data sets of 1..200 points in 1..6 dimensions:
// lattice-valued (small ranges: many exact ties and duplicates; collinear; few distinct
// points drawn with replacement; off-lattice half-integer queries) and continuous (uniform,
// clustered, 1-D), in-sample and out-of-sample queries.
// ------------------------------------------------------------------------------------------
fn pick_n(rng: &mut StdRng, big: bool) -> usize {
    let r: f64 = rng.gen();
    if big {
        if r < 0.3 { rng.gen_range(1..=12) } else if r < 0.7 { rng.gen_range(13..=60) } else { rng.gen_range(61..=200) }
    } else if r < 0.45 {
        rng.gen_range(1..=10)
    } else if r < 0.9 {
        rng.gen_range(11..=40)
    } else {
        rng.gen_range(41..=200)
    }
}

fn pick_ks(rng: &mut StdRng, n: usize, cnt: usize) -> Vec<usize> {
    let mut ks = vec![0, 1, n, n + 1, n + 3];
    if n >= 2 {
        ks.push(2);
        ks.push(n - 1);
    }
    for _ in 0..cnt {
        ks.push(rng.gen_range(1..=n));
    }
    ks.sort_unstable();
    ks.dedup();
    ks
}

fn pick_rs(rng: &mut StdRng, n: usize, cnt: usize) -> Vec<RSpec> {
    let mut rs = vec![RSpec::Zero, RSpec::Neg, RSpec::Below, RSpec::Above, if rng.gen_bool(0.5) { RSpec::Inf } else { RSpec::Max }];
    for _ in 0..cnt {
        let j = rng.gen_range(0..n);
        // index into the distinct distances; out-of-range requests are skipped by `sweep`
        let j = if rng.gen_bool(0.6) { j % 6 } else { j };
        rs.push(if rng.gen_bool(0.5) { RSpec::At(j) } else { RSpec::Mid(j) });
    }
    rs
}

fn gen_random(outp: &str) {
    let mut out = Out::create(outp);
    let mut rng = rng(0x0c04_0001);
    let big = thorough();
    let groups = if big { 700 } else { 160 };
    let mut run = 0i64;
    for g in 0..groups {
        let n = pick_n(&mut rng, big);
        let dims = rng.gen_range(1..=6usize);
        let mode = g % 8;
        // ---- data
        let (src, u, data): (&str, i64, Vec<P>) = match mode {
            0 | 1 => {
                // small lattice: many ties / duplicates
                let v = rng.gen_range(1..=3i64);
                ("lat", 2, (0..n).map(|_| (0..dims).map(|_| rng.gen_range(0..=v) as f64).collect()).collect())
            }
            2 => {
                // collinear lattice points t * dir
                let dir: Vec<i64> = (0..dims).map(|_| rng.gen_range(-2..=2i64)).collect();
                let dir = if dir.iter().all(|&x| x == 0) { vec![1; dims] } else { dir };
                ("lat", 2, (0..n).map(|_| { let t = rng.gen_range(0..=6i64); dir.iter().map(|&x| (t * x) as f64).collect() }).collect())
            }
            3 => {
                // few distinct points drawn with replacement (sometimes a single one: all identical)
                let distinct = if rng.gen_bool(0.25) { 1 } else { rng.gen_range(2..=4usize) };
                let pool: Vec<P> = (0..distinct).map(|_| (0..dims).map(|_| rng.gen_range(0..=9i64) as f64).collect()).collect();
                ("lat", 2, (0..n).map(|_| pool.choose(&mut rng).unwrap().clone()).collect())
            }
            4 => {
                // wider lattice
                ("lat", 2, (0..n).map(|_| (0..dims).map(|_| rng.gen_range(-8..=8i64) as f64).collect()).collect())
            }
            5 => ("cont", 1, (0..n).map(|_| (0..dims).map(|_| rng.gen_range(-1.0..1.0f64)).collect()).collect()),
            6 => {
                // clustered continuous, with exact duplicates of some rows
                let centres: Vec<P> = (0..3).map(|_| (0..dims).map(|_| rng.gen_range(-5.0..5.0f64)).collect()).collect();
                let mut d: Vec<P> = (0..n).map(|_| { let c = centres.choose(&mut rng).unwrap(); c.iter().map(|&x| x + rng.gen_range(-0.5..0.5f64)).collect() }).collect();
                for _ in 0..n / 5 {
                    let a = rng.gen_range(0..n);
                    let b = rng.gen_range(0..n);
                    d[a] = d[b].clone();
                }
                ("cont", 1, d)
            }
            _ => {
                // 1-D continuous (always collinear)
                ("cont", 1, (0..n).map(|_| vec![rng.gen_range(-100.0..100.0f64)]).collect())
            }
        };
        let dims = data[0].len();
        // ---- queries
        let nq = if big { 4 } else { 3 };
        let mut qs: Vec<P> = Vec::new();
        qs.push(data[rng.gen_range(0..n)].clone()); // in-sample
        for j in 1..nq {
            if src == "lat" {
                match j % 3 {
                    1 => {
                        // midpoint of two data points: half-integer coordinates, ties likely
                        let a = &data[rng.gen_range(0..n)];
                        let b = &data[rng.gen_range(0..n)];
                        qs.push(a.iter().zip(b.iter()).map(|(x, y)| (x + y) / 2.0).collect());
                    }
                    2 => qs.push((0..dims).map(|_| rng.gen_range(-2..=20i64) as f64 / 2.0).collect()),
                    _ => qs.push(data[rng.gen_range(0..n)].clone()),
                }
            } else if j % 3 == 0 {
                qs.push(data[rng.gen_range(0..n)].clone());
            } else {
                qs.push(data[rng.gen_range(0..n)].iter().map(|&x| x + rng.gen_range(-1.0..1.0f64)).collect());
            }
        }
        // ---- metrics: rotate so that every (mode, metric) pair occurs
        let metrics: Vec<Metric> = if src == "lat" {
            let mp = [1u16, 2, 3, 3, 4][rng.gen_range(0..5)];
            vec![[Metric::Man, Metric::Euc][(g / 8) % 2], [Metric::Mink(mp), Metric::Ham][(g / 16) % 2]]
        } else {
            vec![[Metric::Euc, Metric::Man, Metric::Mink(3), Metric::Ham][(g / 8) % 4]]
        };
        let ks = pick_ks(&mut rng, n, if n > 60 { 2 } else { 4 });
        let rs = pick_rs(&mut rng, n, 5);
        for q in &qs {
            for &m in &metrics {
                // magnitude guard for the spec's 32-bit arithmetic: |coordinate difference| in
                // units of 1/u is below 64 here, so key <= 6 * 64^4 ~ 1e8.
                for b in BACKENDS {
                    run += 1;
                    let c = Case { run, src, metric: m, backend: b, u, data: &data, q, ks: &ks, rs: &rs };
                    out.emit(with_metric!(m, d, sweep(d, &c)));
                }
            }
        }
    }
    // ---- continuous 2-D data with small absolute radii (the DBSCAN-like use of find_radius):
    // points uniform in a square, radius a fraction of the typical spacing, so that most
    // subtrees are out of reach and the pruning rules of find_radius decide the answer
    let groups2 = if big { 800 } else { 300 };
    for g in 0..groups2 {
        let n = rng.gen_range(3..=if g % 5 == 0 { 60 } else { 12 });
        let side = [10.0, 20.0, 40.0][g % 3];
        // half of the sets on a half-integer grid (exact ties), half fully continuous
        let data: Vec<P> = (0..n).map(|_| (0..2).map(|_| {
            let v: f64 = rng.gen_range(0.0..side);
            if g % 2 == 0 { (v * 2.0).round() / 2.0 } else { v }
        }).collect()).collect();
        let m = [Metric::Euc, Metric::Man, Metric::Mink(3)][(g / 2) % 3];
        let rs: Vec<RSpec> = vec![RSpec::Abs(rng.gen_range(0.3..1.5)), RSpec::Abs(rng.gen_range(1.5..4.0)),
            RSpec::Abs(rng.gen_range(4.0..side / 2.0)), RSpec::At(rng.gen_range(0..3)), RSpec::Mid(rng.gen_range(0..3)), RSpec::Zero];
        let ks = vec![1, 2.min(n), n];
        let mut qs: Vec<P> = vec![data[rng.gen_range(0..n)].clone(), data[rng.gen_range(0..n)].clone()];
        qs.push((0..2).map(|_| rng.gen_range(0.0..side)).collect());
        for q in &qs {
            run += 1;
            let c = Case { run, src: "cont", metric: m, backend: "cover", u: 1, data: &data, q, ks: &ks, rs: &rs };
            out.emit(with_metric!(m, d, sweep(d, &c)));
        }
    }
    println!("{} random sweep events", out.finish());
}

// ------------------------------------------------------------------------------------------
// gen-heap: the bounded selection heap driven through smartcore::verif::HeapHandle.
// Operation sequences come from (a) TLC (one behaviour per reachable state of HeapSelect.tla,
// file given as first argument), (b) exhaustive enumeration of short sequences, (c) seeded
// random longer ones.  After every prefix the array is read back (the handle's `get` consumes
// it, hence the prefix is re-executed on a fresh heap), together with `peek`.
// Values are small integers; INF (= 9 in the model) is f64::INFINITY in the real heap.
// ------------------------------------------------------------------------------------------
const INF: i64 = 9;
fn hv(v: i64) -> f64 {
    if v >= INF { f64::INFINITY } else { v as f64 }
}
fn hi(v: f64) -> i64 {
    if v == f64::INFINITY { INF } else { int_exact(v).unwrap_or(-1) }
}

/// ops: [op, arg]: op 1 = add(arg), 2 = set_root(arg), 3 = heapify
fn heap_run(k: usize, ops: &[(i64, i64)]) -> Result<(Vec<i64>, i64), String> {
    guard(|| {
        let mut h: HeapHandle<f64> = HeapHandle::with_capacity(k);
        for &(op, arg) in ops {
            match op {
                1 => h.add(hv(arg)),
                2 => h.set_root(hv(arg)),
                _ => h.heapify(),
            }
        }
        let pk = if ops.is_empty() { -1 } else { hi(h.peek()) };
        (h.get().iter().map(|&x| hi(x)).collect(), pk)
    })
}

fn heap_event(run: i64, src: &str, k: usize, ops: &[(i64, i64)], expect: Option<&Value>) -> Value {
    let mut snaps = Vec::new();
    let mut peeks = Vec::new();
    let mut status = "ok";
    for l in 1..=ops.len() {
        match heap_run(k, &ops[..l]) {
            Ok((a, p)) => {
                snaps.push(a);
                peeks.push(p);
            }
            Err(_) => {
                status = "panic";
                break;
            }
        }
    }
    let mut ev = json!({"run": run, "ev": "Heap", "src": src, "k": k, "status": status,
        "ops": ops.iter().map(|&(o, a)| json!([o, a])).collect::<Vec<_>>(), "snaps": snaps, "peeks": peeks});
    if let Some(e) = expect {
        ev["expect"] = e.clone();
    }
    ev
}

fn gen_heap(inp: &str, outp: &str) {
    let mut out = Out::create(outp);
    let mut run = 0i64;
    // (a) behaviours printed by TLC
    for line in read_ndjson(inp) {
        let k = line["k"].as_u64().unwrap() as usize;
        let ops: Vec<(i64, i64)> = line["ops"].as_array().unwrap().iter()
            .map(|o| (o[0].as_i64().unwrap(), o[1].as_i64().unwrap())).collect();
        if ops.is_empty() {
            continue;
        }
        run += 1;
        out.emit(heap_event(run, "tlc", k, &ops, Some(&line["heap"])));
    }
    let from_tlc = run;
    // (b) add-only sequences, exhaustive: k in 1..3, values {0,1,2,INF}, length <= 5 / 6
    let maxlen = if thorough() { 6 } else { 5 };
    let vals = [0i64, 1, 2, INF];
    for k in 1..=3usize {
        for len in 1..=maxlen {
            let mut idx = vec![0usize; len];
            loop {
                let ops: Vec<(i64, i64)> = idx.iter().map(|&i| (1, vals[i])).collect();
                run += 1;
                out.emit(heap_event(run, "adds", k, &ops, None));
                let mut j = 0;
                while j < len {
                    idx[j] += 1;
                    if idx[j] < vals.len() { break; }
                    idx[j] = 0;
                    j += 1;
                }
                if j == len { break; }
            }
        }
    }
    // (c) random: the two usage disciplines of the library with longer sequences
    let mut rng = rng(0x0c04_0002);
    let cnt = if thorough() { 3000 } else { 600 };
    for i in 0..cnt {
        let k = rng.gen_range(1..=7usize);
        let len = rng.gen_range(1..=24usize);
        let vmax = rng.gen_range(1..=8i64);
        let mut ops: Vec<(i64, i64)> = Vec::new();
        if i % 2 == 0 {
            // cover-tree discipline: add only (first a sentinel, as `find` does)
            ops.push((1, INF));
            for _ in 0..len { ops.push((1, rng.gen_range(0..=vmax))); }
        } else {
            // linear-search discipline: k sentinels, then replace-root-if-smaller + heapify.
            // The root is whatever the real heap holds at that moment.
            for _ in 0..k { ops.push((1, INF)); }
            for _ in 0..len {
                let v = rng.gen_range(0..=vmax);
                let root = heap_run(k, &ops).map(|(a, _)| a[0]).unwrap_or(-1);
                if v < root {
                    ops.push((2, v));
                    ops.push((3, 0));
                }
            }
        }
        run += 1;
        out.emit(heap_event(run, if i % 2 == 0 { "rand-adds" } else { "rand-linear" }, k, &ops, None));
    }
    println!("{} heap events ({} from TLC)", out.finish(), from_tlc);
}

// ------------------------------------------------------------------------------------------
// gen-est: KNNClassifier / KNNRegressor on lattice training sets (units: u = 1), both
// algorithms, both weightings, every k in 0..n+1; each query row is predicted by its own call
// of the public `predict`.
// ------------------------------------------------------------------------------------------
fn mat(rows: &[P]) -> DenseMatrix<f64> {
    let p = rows[0].len();
    let flat: Vec<f64> = rows.iter().flat_map(|r| r.iter().copied()).collect();
    DenseMatrix::from_array(rows.len(), p, &flat)
}

struct EstCase<'a> {
    run: i64,
    kind: &'a str, // "cls" | "reg"
    metric: Metric,
    backend: &'a str,
    weight: &'a str, // "uniform" | "distance"
    k: usize,
    x: &'a [P],
    y: &'a [f64],
    qs: &'a [P],
    /// how the parameter object is put together: a permutation of the builder calls
    /// k = with_k, w = with_weight, a = with_algorithm, d = with_distance (no `d`: the default
    /// metric is kept — Euclid only), or F = assignment of the public fields (before / after
    /// with_distance)
    order: &'a str,
    /// number of rows of the one-call batch predict (the query rows repeated cyclically);
    /// 0 = exactly the query rows
    batch_len: usize,
    /// "inherent": KNN*::fit / .predict;  "trait": SupervisedEstimator::fit / Predictor::predict
    api: &'a str,
}

type M = DenseMatrix<f64>;

fn alg_of(b: &str) -> KNNAlgorithmName {
    if b == "linear" { KNNAlgorithmName::LinearSearch } else { KNNAlgorithmName::CoverTree }
}
fn wf_of(w: &str) -> KNNWeightFunction {
    if w == "uniform" { KNNWeightFunction::Uniform } else { KNNWeightFunction::Distance }
}

/// builders of the two parameter types, applying the configuration calls in the recorded order
macro_rules! param_builders {
    ($ty:ident, $apply:ident, $fields:ident, $build:ident, $build_nod:ident) => {
        fn $apply<D: Distance<P, f64>>(p: $ty<f64, D>, ch: char, c: &EstCase) -> $ty<f64, D> {
            match ch {
                'k' => p.with_k(c.k),
                'w' => p.with_weight(wf_of(c.weight)),
                'a' => p.with_algorithm(alg_of(c.backend)),
                _ => p,
            }
        }
        fn $fields<D: Distance<P, f64>>(mut p: $ty<f64, D>, c: &EstCase) -> $ty<f64, D> {
            p.k = c.k;
            p.weight = wf_of(c.weight);
            p.algorithm = alg_of(c.backend);
            p
        }
        fn $build<D: Distance<P, f64>>(dist: D, c: &EstCase) -> $ty<f64, D> {
            let mut p0 = $ty::default();
            let mut it = c.order.chars();
            for ch in it.by_ref() {
                if ch == 'd' {
                    break;
                }
                p0 = if ch == 'F' { $fields(p0, c) } else { $apply(p0, ch, c) };
            }
            let mut p1 = p0.with_distance(dist);
            for ch in it {
                p1 = if ch == 'F' { $fields(p1, c) } else { $apply(p1, ch, c) };
            }
            p1
        }
        /// orders without `d`: the default (Euclidian) metric is kept
        fn $build_nod(c: &EstCase) -> $ty<f64, smartcore::math::distance::euclidian::Euclidian> {
            let mut p0 = $ty::default();
            for ch in c.order.chars() {
                p0 = if ch == 'F' { $fields(p0, c) } else { $apply(p0, ch, c) };
            }
            p0
        }
    };
}
param_builders!(KNNClassifierParameters, apply_cls, fields_cls, build_cls, build_cls_nod);
param_builders!(KNNRegressorParameters, apply_reg, fields_reg, build_reg, build_reg_nod);

const ORDERS_D: [&str; 26] = ["kwad", "kwda", "kawd", "kadw", "kdwa", "kdaw", "wkad", "wkda", "wakd", "wadk", "wdka", "wdak",
    "akwd", "akdw", "awkd", "awdk", "adkw", "adwk", "dkwa", "dkaw", "dwka", "dwak", "dakw", "dawk", "dF", "Fd"];
const ORDERS_NOD: [&str; 7] = ["kwa", "kaw", "wka", "wak", "akw", "awk", "F"];

fn est_event<D: Distance<P, f64>>(dist: D, c: &EstCase) -> Value {
    if c.order.contains('d') {
        est_event_with(c, || build_cls(dist.clone(), c), || build_reg(dist.clone(), c))
    } else {
        // only generated for the Euclidian metric
        est_event_with(c, || build_cls_nod(c), || build_reg_nod(c))
    }
}

fn est_event_with<D: Distance<P, f64>>(
    c: &EstCase,
    mk_cls: impl Fn() -> KNNClassifierParameters<f64, D>,
    mk_reg: impl Fn() -> KNNRegressorParameters<f64, D>,
) -> Value {
    let xm = mat(c.x);
    let yv: Vec<f64> = c.y.to_vec();
    let mut ev = json!({"run": c.run, "ev": "KnnPredict", "kind": c.kind, "metric": c.metric.name(), "p": c.metric.p(),
        "backend": c.backend, "weight": c.weight, "k": c.k, "n": c.x.len(), "order": c.order,
        "wBeforeD": match (c.order.find(|ch| ch == 'w' || ch == 'F'), c.order.find('d')) { (Some(a), Some(b)) => a < b, _ => false },
        "viaFields": c.order.contains('F'), "defaultMetric": !c.order.contains('d'),
        "signedZeroLabels": c.kind == "cls" && c.y.iter().any(|v| *v == 0.0 && v.is_sign_negative()) && c.y.iter().any(|v| *v == 0.0 && v.is_sign_positive()),
        "negZeroAt": c.y.iter().enumerate().filter(|(_, v)| **v == 0.0 && v.is_sign_negative()).map(|(i, _)| i).collect::<Vec<_>>(),
        "api": c.api, "batchLen": if c.batch_len == 0 { c.qs.len() } else { c.batch_len },
        "u": 2, "ident": c.x.iter().all(|r| *r == c.x[0]),
        "X": c.x.iter().map(|r| to_i(r, 2)).collect::<Vec<_>>(),
        // regression targets are small integers; class labels are arbitrary floats and are logged
        // as their dense ranks among the training labels (order- and equality-preserving; a
        // predicted value that is not one of the training labels gets rank -1)
        "y": if c.kind == "cls" { dense_ranks(c.y) } else { to_i(c.y, 1) },
        "nClasses": if c.kind == "cls" { dense_ranks(c.y).iter().copied().max().unwrap_or(0) } else { 0 }});
    let label_rank = |v: f64| -> Option<i64> {
        let mut l: Vec<f64> = c.y.to_vec();
        l.sort_by(|a, b| a.partial_cmp(b).unwrap());
        l.dedup();
        if v.is_nan() { None } else { Some(l.iter().position(|&x| x == v).map(|i| i as i64 + 1).unwrap_or(-1)) }
    };
    let mut preds: Vec<Value> = Vec::new();
    let q10 = Q::new(10);
    let via_trait = c.api == "trait";
    let blen = if c.batch_len == 0 { c.qs.len() } else { c.batch_len };
    let batch_rows: Vec<P> = (0..blen).map(|j| c.qs[j % c.qs.len()].clone()).collect();
    if c.kind == "cls" {
        let fit = guard(|| if via_trait {
            <KNNClassifier<f64, D> as SupervisedEstimator<M, Vec<f64>, KNNClassifierParameters<f64, D>>>::fit(&xm, &yv, mk_cls())
        } else {
            KNNClassifier::fit(&xm, &yv, mk_cls())
        });
        match fit {
            Ok(Ok(model)) => {
                ev["fit"] = json!("ok");
                for q in c.qs {
                    let qm = mat(&[q.clone()]);
                    let r = guard(|| if via_trait {
                        <KNNClassifier<f64, D> as Predictor<M, Vec<f64>>>::predict(&model, &qm)
                    } else {
                        model.predict(&qm)
                    });
                    preds.push(match r {
                        Ok(Ok(v)) => match (v.len(), label_rank(*v.get(0).unwrap_or(&f64::NAN))) {
                            (1, Some(o)) => json!({"q": to_i(q, 2), "status": "ok", "out": o}),
                            _ => json!({"q": to_i(q, 2), "status": "garbled"}),
                        },
                        Ok(Err(_)) => json!({"q": to_i(q, 2), "status": "err"}),
                        Err(_) => json!({"q": to_i(q, 2), "status": "panic"}),
                    });
                }
                // the same rows in one call of predict
                let qm = mat(&batch_rows);
                ev["batch"] = match guard(|| if via_trait {
                    <KNNClassifier<f64, D> as Predictor<M, Vec<f64>>>::predict(&model, &qm)
                } else {
                    model.predict(&qm)
                }) {
                    Ok(Ok(v)) => match v.iter().map(|&x| label_rank(x)).collect::<Option<Vec<i64>>>() {
                        Some(o) => json!({"status": "ok", "out": o}),
                        None => json!({"status": "garbled"}),
                    },
                    Ok(Err(_)) => json!({"status": "err"}),
                    Err(_) => json!({"status": "panic"}),
                };
            }
            Ok(Err(_)) => ev["fit"] = json!("err"),
            Err(_) => ev["fit"] = json!("panic"),
        }
    } else {
        let fit = guard(|| if via_trait {
            <KNNRegressor<f64, D> as SupervisedEstimator<M, Vec<f64>, KNNRegressorParameters<f64, D>>>::fit(&xm, &yv, mk_reg())
        } else {
            KNNRegressor::fit(&xm, &yv, mk_reg())
        });
        match fit {
            Ok(Ok(model)) => {
                ev["fit"] = json!("ok");
                for q in c.qs {
                    let qm = mat(&[q.clone()]);
                    let r = guard(|| if via_trait {
                        <KNNRegressor<f64, D> as Predictor<M, Vec<f64>>>::predict(&model, &qm)
                    } else {
                        model.predict(&qm)
                    });
                    preds.push(match r {
                        Ok(Ok(v)) => {
                            let o = q10.x(*v.get(0).unwrap_or(&f64::NAN));
                            if v.len() == 1 && q10.ok() {
                                json!({"q": to_i(q, 2), "status": "ok", "out": o})
                            } else {
                                q10.finite.set(true);
                                q10.inrange.set(true);
                                json!({"q": to_i(q, 2), "status": "garbled"})
                            }
                        }
                        Ok(Err(_)) => json!({"q": to_i(q, 2), "status": "err"}),
                        Err(_) => json!({"q": to_i(q, 2), "status": "panic"}),
                    });
                }
                let qm = mat(&batch_rows);
                ev["batch"] = match guard(|| if via_trait {
                    <KNNRegressor<f64, D> as Predictor<M, Vec<f64>>>::predict(&model, &qm)
                } else {
                    model.predict(&qm)
                }) {
                    Ok(Ok(v)) => {
                        let qb = Q::new(10);
                        let o = qb.v(&v);
                        if qb.ok() { json!({"status": "ok", "out": o}) } else { json!({"status": "garbled"}) }
                    }
                    Ok(Err(_)) => json!({"status": "err"}),
                    Err(_) => json!({"status": "panic"}),
                };
            }
            Ok(Err(_)) => ev["fit"] = json!("err"),
            Err(_) => ev["fit"] = json!("panic"),
        }
    }
    ev["preds"] = json!(preds);
    ev
}

fn gen_est(outp: &str) {
    let mut out = Out::create(outp);
    let mut rng = rng(0x0c04_0003);
    let groups = if thorough() { 160 } else { 28 };
    let mut run = 0i64;
    for g in 0..groups {
        // training set: n <= 12 rows on a small lattice (ties, duplicates); g = 0, 1 are the
        // boundary sets named by the statement (single row; all rows identical)
        let n = match g { 0 => 1, 1 => 3, _ => rng.gen_range(2..=12usize) };
        // even groups are small enough (<= 2 dimensions, coordinates 0..2) for the exact
        // rational weights of the specification under distance weighting
        let small = g % 2 == 0;
        let dims = if small { rng.gen_range(1..=2usize) } else { rng.gen_range(1..=3usize) };
        let v = if small { rng.gen_range(1..=2i64) } else { rng.gen_range(1..=3i64) };
        let x: Vec<P> = if g == 1 {
            vec![vec![1.0; dims]; n]
        } else {
            (0..n).map(|_| (0..dims).map(|_| rng.gen_range(0..=v) as f64).collect()).collect()
        };
        // every fourth group labels one class 0, written as +0.0 or -0.0 at random: the two are
        // the same label value (the event carries the integer 0 for both)
        let zero_labels = g % 4 == 3;
        // every fourth group draws its labels from a set with a special arithmetic shape:
        // non-integers between integers, labels that collide under truncation, labels closer
        // than machine epsilon, integers times 2^-60, the extreme finite values
        let special: [&[f64]; 6] = [&[0.0, 0.5, 2.0], &[0.25, 0.75], &[-0.5, 0.5, 0.0], &[0.0, 1.0e-17, 1.0],
            &[8.673617379884035e-19, 1.734723475976807e-18, 2.6020852139652106e-18], &[f64::MAX, -f64::MAX, 0.0]];
        let labels: Vec<f64> = if zero_labels { vec![0.0, 1.0, 5.0][..rng.gen_range(2..=3)].to_vec() }
            else if g % 4 == 1 { special[(g / 4) % 6].to_vec() }
            else { let mut l = vec![-3.0, 5.0, 10.0]; l.shuffle(&mut rng); l.truncate(rng.gen_range(2..=3)); l };
        let ycls: Vec<f64> = (0..n).map(|_| { let v = *labels.choose(&mut rng).unwrap(); if v == 0.0 && zero_labels && rng.gen_bool(0.5) { -0.0 } else { v } }).collect();
        let yreg: Vec<f64> = (0..n).map(|_| rng.gen_range(-8..=8i64) as f64).collect();
        // queries (half units on the spec side): training rows, lattice points, half-integer points
        let mut qs: Vec<P> = vec![x[rng.gen_range(0..n)].clone()];
        qs.push((0..dims).map(|_| rng.gen_range(0..=v) as f64).collect());
        qs.push((0..dims).map(|_| rng.gen_range(-1..=2 * v + 1) as f64 / 2.0).collect());
        if thorough() {
            qs.push((0..dims).map(|_| rng.gen_range(-1..=2 * v + 1) as f64 / 2.0).collect());
        }
        for (mi, m) in [Metric::Man, Metric::Ham, Metric::Euc, Metric::Mink(3)].iter().enumerate() {
            // distance weights need the distance itself as an exact rational: Manhattan and
            // Hamming only; Euclid / Minkowski are run with uniform weights
            let weights: &[&str] = if mi < 2 && small { &["uniform", "distance"] } else { &["uniform"] };
            if mi >= 2 && (g / 2) % 2 != mi % 2 { continue; }
            for &w in weights {
                for b in BACKENDS {
                    for k in 0..=n + 1 {
                        for kind in ["cls", "reg"] {
                            run += 1;
                            // construction order of the parameter object: any of the 24
                            // permutations of the four builder calls, field assignment, and (for
                            // the default metric) the orders that never call with_distance
                            let no = rng.gen_range(0..if *m == Metric::Euc { 33 } else { 26 });
                            let order = if no < 26 { ORDERS_D[no] } else { ORDERS_NOD[no - 26] };
                            let c = EstCase { run, kind, metric: *m, backend: b, weight: w, k, x: &x,
                                y: if kind == "cls" { &ycls } else { &yreg }, qs: &qs, order,
                                batch_len: 0, api: if rng.gen_bool(0.5) { "inherent" } else { "trait" } };
                            out.emit(with_metric!(*m, d, est_event(d, &c)));
                        }
                    }
                }
            }
        }
    }
    println!("{} estimator events", out.finish());
}

// ------------------------------------------------------------------------------------------
// gen-tree: binding of the cover-tree design model (spec/neighbour/CoverTree.tla).  Inputs are
// the REPLAY lines of CoverTreeMC (data sequence + the model's tree).  The real CoverTree is
// built over the same data with the Manhattan metric, its private structure is read through
// its serde serialisation, and find / find_radius are recorded in the order returned.
// ------------------------------------------------------------------------------------------
fn node_json(v: &Value) -> Value {
    let f = |x: &Value| int_exact(x.as_f64().unwrap_or(f64::NAN)).unwrap_or(-1);
    json!({"idx": v["idx"].as_i64().unwrap_or(-1), "maxDist": f(&v["max_dist"]), "parentDist": f(&v["parent_dist"]),
           "scale": v["_scale"].as_i64().unwrap_or(-1),
           "children": v["children"].as_array().map(|a| a.iter().map(node_json).collect::<Vec<_>>()).unwrap_or_default()})
}

fn gen_tree(inp: &str, outp: &str) {
    let mut out = Out::create(outp);
    let mut run = 0i64;
    for line in read_ndjson(inp) {
        run += 1;
        let di: Vec<Vec<i64>> = line["D"].as_array().unwrap().iter()
            .map(|p| p.as_array().unwrap().iter().map(|x| x.as_i64().unwrap()).collect()).collect();
        let data: Vec<P> = di.iter().map(|p| to_f(p, 1)).collect();
        let n = data.len();
        let dims = di[0].len();
        // queries: the lattice 0..side-1 plus a margin of one (no margin for 2-D data in the quick tier)
        let margin = if dims >= 2 && !thorough() { 0 } else { 1 };
        let lo = -margin;
        let hi = line["side"].as_i64().unwrap_or(di.iter().flatten().max().copied().unwrap_or(0) + 1) - 1 + margin;
        let mut ev = json!({"run": run, "ev": "Tree", "D": di, "u": 1, "n": n, "expect": line["tree"],
            "ident": data.iter().all(|x| *x == data[0])});
        let built = guard(|| CoverTree::new(data.clone(), Distances::manhattan()));
        let tree = match built {
            Ok(Ok(t)) => t,
            _ => {
                ev["build"] = json!("panic");
                ev["qs"] = json!([]);
                out.emit(ev);
                continue;
            }
        };
        ev["build"] = json!("ok");
        let dump = serde_json::to_value(&tree).unwrap_or(Value::Null);
        ev["tree"] = node_json(&dump["root"]);
        let mut qs: Vec<Vec<i64>> = vec![vec![]];
        for _ in 0..dims {
            qs = qs.iter().flat_map(|q| (lo..=hi).map(move |x| { let mut v = q.clone(); v.push(x); v })).collect();
        }
        let maxr = dims as i64 * (hi - lo);
        let mut qv = Vec::new();
        // large scopes (thorough tier): the structure of every tree is compared, its answers for
        // three of the queries (rotating with the line number)
        let nqs = qs.len();
        let pick = |j: usize| -> bool {
            !(thorough() && n >= 4) || (0..3).any(|t| (run as usize * 7 + t * (nqs / 3 + 1)) % nqs == j)
        };
        for (qj, qi) in qs.iter().enumerate() {
            if !pick(qj) {
                continue;
            }
            let q = to_f(qi, 1);
            let ent = |h: &Hit| json!({"i": h.0, "key": Metric::Man.key(1, dims, h.1), "pt": to_i(h.2, 1)});
            let mut finds = Vec::new();
            for k in 1..=n {
                let r = guard(|| tree.find(&q, k).map(|v| v.iter().map(|h| ent(h)).collect::<Vec<_>>()));
                finds.push(match r {
                    Ok(Ok(res)) => json!({"k": k, "status": "ok", "res": res}),
                    Ok(Err(_)) => json!({"k": k, "status": "err"}),
                    Err(_) => json!({"k": k, "status": "panic"}),
                });
            }
            let mut radii = Vec::new();
            for r in 1..=maxr {
                let res = guard(|| tree.find_radius(&q, r as f64).map(|v| v.iter().map(|h| ent(h)).collect::<Vec<_>>()));
                radii.push(match res {
                    Ok(Ok(res)) => json!({"kind": "at", "rpos": true, "rkey": r, "status": "ok", "res": res}),
                    Ok(Err(_)) => json!({"kind": "at", "rpos": true, "rkey": r, "status": "err"}),
                    Err(_) => json!({"kind": "at", "rpos": true, "rkey": r, "status": "panic"}),
                });
            }
            qv.push(json!({"q": qi, "finds": finds, "radii": radii}));
        }
        ev["qs"] = json!(qv);
        out.emit(ev);
    }
    println!("{} tree events", out.finish());
}

// ------------------------------------------------------------------------------------------
// gen-linfind: binding of the design model LinearFind.tla.  Every REPLAY line is a key vector,
// a k and the order in which the model returns the indices; the real LinearKNNSearch::find
// is run on 1-D data realising the key vector (point i at coordinate keys[i], query at 0,
// Manhattan metric) and its answer is logged in the order returned.
// ------------------------------------------------------------------------------------------
fn gen_linfind(inp: &str, outp: &str) {
    let mut out = Out::create(outp);
    let mut run = 0i64;
    for line in read_ndjson(inp) {
        run += 1;
        let keys: Vec<i64> = line["keys"].as_array().unwrap().iter().map(|x| x.as_i64().unwrap()).collect();
        let k = line["k"].as_u64().unwrap() as usize;
        let data: Vec<P> = keys.iter().map(|&x| vec![x as f64]).collect();
        let q: P = vec![0.0];
        let r = guard(|| {
            LinearKNNSearch::new(data.clone(), Distances::manhattan())
                .and_then(|s| s.find(&q, k).map(|v| v.iter().map(|h| json!({"i": h.0, "key": Metric::Man.key(1, 1, h.1)})).collect::<Vec<_>>()))
        });
        let mut ev = json!({"run": run, "ev": "LinFind", "keys": keys, "k": k, "expect": line["order"]});
        match r {
            Ok(Ok(res)) => {
                ev["status"] = json!("ok");
                ev["res"] = json!(res);
            }
            Ok(Err(_)) => ev["status"] = json!("err"),
            Err(_) => ev["status"] = json!("panic"),
        }
        out.emit(ev);
    }
    println!("{} linear-find events", out.finish());
}

// ------------------------------------------------------------------------------------------
// rerun: re-execute the events of a replay artefact against the current build of the library
// (lattice Sweep, Heap, KnnPredict and LinFind events carry their complete input; events on
// continuous data and Tree events are passed through unchanged for re-validation only).
// ------------------------------------------------------------------------------------------
fn ivec(v: &Value) -> Vec<i64> {
    v.as_array().map(|a| a.iter().map(|x| x.as_i64().unwrap_or(0)).collect()).unwrap_or_default()
}

fn rerun(inp: &str, outp: &str) {
    let mut out = Out::create(outp);
    let mut redone = 0;
    for e in read_ndjson(inp) {
        let evn = e["ev"].as_str().unwrap_or("");
        if evn == "Sweep" && e["src"] == "lat" {
            let u = e["u"].as_i64().unwrap_or(1);
            let data: Vec<P> = e["D"].as_array().unwrap().iter().map(|p| to_f(&ivec(p), u)).collect();
            let q = to_f(&ivec(&e["q"]), u);
            let m = match e["metric"].as_str().unwrap_or("") {
                "man" => Metric::Man,
                "euc" => Metric::Euc,
                "ham" => Metric::Ham,
                _ => Metric::Mink(e["p"].as_u64().unwrap_or(3) as u16),
            };
            let ks: Vec<usize> = e["finds"].as_array().map(|a| a.iter().map(|f| f["k"].as_u64().unwrap_or(0) as usize).collect()).unwrap_or_default();
            let ks = if ks.is_empty() { (0..=data.len() + 1).collect() } else { ks };
            // radii: recover the request from its kind and key
            let all: Vec<f64> = with_metric!(m, d, data.iter().map(|x| d.distance(&q, x)).collect());
            let mut ds = all.clone();
            ds.sort_by(|a, b| a.partial_cmp(b).unwrap());
            ds.dedup();
            let mut rs: Vec<RSpec> = Vec::new();
            match e["radii"].as_array() {
                Some(a) if !a.is_empty() => {
                    for r in a {
                        let rkey = r["rkey"].as_i64().unwrap_or(0);
                        let j = ds.iter().position(|&d| m.key(u, q.len(), d) == rkey);
                        match (r["kind"].as_str().unwrap_or(""), j) {
                            ("at", Some(j)) => rs.push(RSpec::At(j)),
                            ("mid", Some(j)) => rs.push(RSpec::Mid(j)),
                            ("below", _) => rs.push(RSpec::Below),
                            ("above", _) => rs.push(RSpec::Above),
                            ("inf", _) => rs.push(RSpec::Inf),
                            ("max", _) => rs.push(RSpec::Max),
                            ("zero", _) => rs.push(RSpec::Zero),
                            ("neg", _) => rs.push(RSpec::Neg),
                            _ => {}
                        }
                    }
                }
                _ => rs = all_rspecs(data.len()),
            }
            let backend = e["backend"].as_str().unwrap_or("cover").to_string();
            let c = Case { run: e["run"].as_i64().unwrap_or(0), src: "lat", metric: m, backend: &backend, u, data: &data, q: &q, ks: &ks, rs: &rs };
            out.emit(with_metric!(m, d, sweep(d, &c)));
            redone += 1;
        } else if evn == "Heap" {
            let ops: Vec<(i64, i64)> = e["ops"].as_array().unwrap().iter().map(|o| (o[0].as_i64().unwrap(), o[1].as_i64().unwrap())).collect();
            let src = e["src"].as_str().unwrap_or("replay").to_string();
            out.emit(heap_event(e["run"].as_i64().unwrap_or(0), &src, e["k"].as_u64().unwrap_or(1) as usize, &ops, e.get("expect")));
            redone += 1;
        } else if evn == "KnnPredict" {
            let x: Vec<P> = e["X"].as_array().unwrap().iter().map(|p| to_f(&ivec(p), 2)).collect();
            let mut y: Vec<f64> = ivec(&e["y"]).iter().map(|&v| v as f64).collect();
            for i in ivec(&e["negZeroAt"]) {
                y[i as usize] = -0.0;
            }
            let m = match e["metric"].as_str().unwrap_or("") {
                "man" => Metric::Man,
                "euc" => Metric::Euc,
                "ham" => Metric::Ham,
                _ => Metric::Mink(e["p"].as_u64().unwrap_or(3) as u16),
            };
            let qs: Vec<P> = match e["preds"].as_array() {
                Some(a) if !a.is_empty() => a.iter().map(|p| to_f(&ivec(&p["q"]), 2)).collect(),
                _ => vec![x[0].clone()],
            };
            let order = e["order"].as_str().unwrap_or("dawk").to_string();
            let api = e["api"].as_str().unwrap_or("inherent").to_string();
            let (kind, backend, weight) = (e["kind"].as_str().unwrap_or("cls").to_string(),
                e["backend"].as_str().unwrap_or("cover").to_string(), e["weight"].as_str().unwrap_or("uniform").to_string());
            let c = EstCase { run: e["run"].as_i64().unwrap_or(0), kind: &kind, metric: m, backend: &backend, weight: &weight,
                k: e["k"].as_u64().unwrap_or(0) as usize, x: &x, y: &y, qs: &qs, order: &order,
                batch_len: e["batchLen"].as_u64().unwrap_or(0) as usize, api: &api };
            out.emit(with_metric!(m, d, est_event(d, &c)));
            redone += 1;
        } else {
            out.emit(e);
        }
    }
    println!("{} events, {} re-executed", out.finish(), redone);
}

// ------------------------------------------------------------------------------------------
// gen-ladder: size ladder.  The statement speaks of every non-empty point set; sizes around the
// powers of two (where a blocked scan, a bounded stack or a capacity doubling would change
// behaviour) are run for both structures on lattice data: a 1-D chain (a random permutation
// of 0..n-1: all distances distinct, every index matters) or a small 2-D grid with many
// duplicates and ties.  Few k / radii per event keep the work of the specification O(n).
// ------------------------------------------------------------------------------------------
fn ladder_sizes() -> Vec<usize> {
    let mut v = vec![63, 64, 65, 127, 128, 129, 255, 256, 257, 300, 511, 512, 513, 1023, 1024, 1025];
    if thorough() {
        v.extend([2047, 2049, 3000]);
    }
    v
}

fn gen_ladder(outp: &str) {
    let mut out = Out::create(outp);
    let mut rng = rng(0x0c04_0004);
    let mut run = 0i64;
    for (si, &n) in ladder_sizes().iter().enumerate() {
        let chain = si % 3 != 2;
        let data: Vec<P> = if chain {
            let mut perm: Vec<usize> = (0..n).collect();
            perm.shuffle(&mut rng);
            perm.iter().map(|&v| vec![v as f64]).collect()
        } else {
            (0..n).map(|_| vec![rng.gen_range(0..12) as f64, rng.gen_range(0..12) as f64]).collect()
        };
        let dims = data[0].len();
        let metrics: Vec<Metric> = if chain { vec![[Metric::Man, Metric::Euc][si % 2]] } else { vec![[Metric::Euc, Metric::Ham, Metric::Mink(3), Metric::Man][si % 4]] };
        let qs: Vec<P> = vec![
            data[rng.gen_range(n / 2..n)].clone(),
            (0..dims).map(|_| rng.gen_range(0..if chain { 2 * n } else { 24 }) as f64 / 2.0).collect(),
        ];
        let ks = vec![0, 1, 2, n / 2, n - 1, n, n + 1];
        let rs = vec![RSpec::Zero, RSpec::Below, RSpec::Above, RSpec::Inf, RSpec::Max, RSpec::At(0), RSpec::At(1), RSpec::Mid(1), RSpec::At(5), RSpec::Mid(7),
            RSpec::Mid(if chain { n / 3 } else { 9 }), RSpec::At(if chain { n / 2 } else { 14 })];
        for q in &qs {
            for &m in &metrics {
                for b in BACKENDS {
                    run += 1;
                    let c = Case { run, src: "lat", metric: m, backend: b, u: 2, data: &data, q, ks: &ks, rs: &rs };
                    out.emit(with_metric!(m, d, sweep(d, &c)));
                }
            }
        }
    }
    println!("{} ladder events", out.finish());
}

// ------------------------------------------------------------------------------------------
// gen-deep: data with an extreme dynamic range, which make the cover tree very deep.
//  multi-scale: a few far-apart points plus a tight group of distinct points at a spacing of
//               2^-e of the extent (e = 20 .. 50), queried inside the group with radii of a few
//               spacings and k = size of the group;
//  geometric:   +-2^0, 2^1, ..., 2^m in 1-D (m up to 100) and doubling points in 2-D, stored
//               ascending, descending or shuffled.
// All coordinates are dyadic.  The keys are the dense ranks of the distances computed by the
// library's own metric (src = "cont"), which is all IsKnn / IsRadius need.
// ------------------------------------------------------------------------------------------
fn gen_deep(outp: &str) {
    let mut out = Out::create(outp);
    let mut rng = rng(0x0c04_0005);
    let mut run = 0i64;
    let mut emit = |out: &mut Out, data: &Vec<P>, qs: &Vec<P>, ks: &Vec<usize>, rs: &Vec<RSpec>, m: Metric| {
        for q in qs {
            for b in BACKENDS {
                run += 1;
                let c = Case { run, src: "cont", metric: m, backend: b, u: 1, data, q, ks, rs };
                out.emit(with_metric!(m, d, sweep(d, &c)));
            }
        }
    };
    // ---- multi-scale
    let reps = if thorough() { 6 } else { 2 };
    for rep in 0..reps {
        for &e in &[20i32, 40, 45, 50, 55, 60, 70] {
            for dims in 1..=2usize {
                let extent = [4.0, 16.0, 1.0][(rep + dims) % 3];
                let s = extent * 2f64.powi(-e);
                let g = rng.gen_range(3..=8usize);
                // spacings below the resolution of the doubles near 0.5 are only representable
                // around the origin: there the ABSOLUTE distances inside the group drop below
                // machine epsilon while the points stay distinct
                let at_origin = e >= 50 || (rep + dims) % 2 == 0;
                let centre: P = (0..dims).map(|_| if at_origin { 0.0 } else { extent * [0.5, 0.25, 0.75][rng.gen_range(0..3)] }).collect();
                let group: Vec<P> = (0..g).map(|j| centre.iter().enumerate()
                    .map(|(a, &c)| c + s * if a == 0 { j as f64 } else { ((j * j) % 3) as f64 }).collect()).collect();
                let far: Vec<P> = (0..rng.gen_range(2..=6)).map(|_| (0..dims).map(|_| (rng.gen_range(-2..=4) as f64) * extent / 4.0).collect())
                    .filter(|p: &P| p.iter().any(|&v| v != 0.0)).chain(std::iter::once(vec![extent; dims])).collect();
                let mut data: Vec<P> = match rep % 3 {
                    0 => far.iter().chain(group.iter()).cloned().collect(),
                    1 => group.iter().chain(far.iter()).cloned().collect(),
                    _ => { let mut d: Vec<P> = far.iter().chain(group.iter()).cloned().collect(); d.shuffle(&mut rng); d }
                };
                if rep % 2 == 1 { data.push(group[0].clone()); } // one exact duplicate as well
                let n = data.len();
                let qs: Vec<P> = vec![group[g / 2].clone(),
                    centre.iter().enumerate().map(|(a, &c)| c + if a == 0 { 1.5 * s } else { 0.0 }).collect(),
                    far[0].clone()];
                let ks = vec![1, 2, g, g + 1, n];
                let rs = vec![RSpec::Abs(2.5 * s), RSpec::Abs(1.25 * s), RSpec::Abs((g as f64 + 0.5) * s), RSpec::At(1), RSpec::Mid(1),
                    RSpec::At(g - 1), RSpec::Mid(g - 1), RSpec::Above, RSpec::Abs(extent / 3.0), RSpec::Inf];
                emit(&mut out, &data, &qs, &ks, &rs, [Metric::Euc, Metric::Man][(rep + e as usize) % 2]);
            }
        }
    }
    // ---- geometric
    for &m in &[30i32, 60, 100] {
        for ord in 0..3 {
            let mut pts: Vec<f64> = (0..=m).map(|j| 2f64.powi(j)).collect();
            if ord == 2 { pts.extend((0..=m).step_by(3).map(|j| -(2f64.powi(j)))); }
            match ord { 1 => pts.reverse(), 2 => pts.shuffle(&mut rng), _ => {} }
            let data: Vec<P> = pts.iter().map(|&v| vec![v]).collect();
            let n = data.len();
            let qs: Vec<P> = vec![vec![1.0], vec![3.0 * 2f64.powi(m / 2)], vec![0.0], vec![2f64.powi(m)]];
            let ks = vec![1, 2, 5, n / 2, n];
            let rs = vec![RSpec::At(1), RSpec::Mid(2), RSpec::At(4), RSpec::Mid(n / 2), RSpec::Above, RSpec::Abs(2.5), RSpec::Abs(100.0)];
            emit(&mut out, &data, &qs, &ks, &rs, [Metric::Man, Metric::Euc, Metric::Mink(3)][ord]);
        }
    }
    // doubling points in 2-D: (2^j, 0), (0, 2^j), (2^j, 2^j)
    for &m in &[40i32, 70] {
        let mut data: Vec<P> = Vec::new();
        for j in 0..=m {
            let v = 2f64.powi(j);
            data.push(match j % 3 { 0 => vec![v, 0.0], 1 => vec![0.0, v], _ => vec![v, v] });
        }
        if m == 70 { data.reverse(); }
        let n = data.len();
        let qs: Vec<P> = vec![vec![1.0, 0.0], vec![0.0, 0.0], vec![2f64.powi(m / 2), 1.0]];
        let ks = vec![1, 3, n / 2, n];
        let rs = vec![RSpec::At(1), RSpec::Mid(3), RSpec::Mid(n / 2), RSpec::Above, RSpec::Abs(3.0)];
        emit(&mut out, &data, &qs, &ks, &rs, if m == 40 { Metric::Euc } else { Metric::Man });
    }
    println!("{} deep-structure events", out.finish());
}

// ------------------------------------------------------------------------------------------
// gen-estbig: estimators beyond the small lattices — training sets of 300+ rows (a 1-D chain,
// so that at most two rows tie at any distance and the vote specification stays cheap), one
// batch predict of 257 .. 1025 rows (the few judged query rows repeated cyclically), inherent
// and trait entry points.
// ------------------------------------------------------------------------------------------
fn gen_estbig(outp: &str) {
    let mut out = Out::create(outp);
    let mut rng = rng(0x0c04_0006);
    let mut run = 0i64;
    let sizes: Vec<usize> = if thorough() { vec![12, 300, 520, 1030] } else { vec![12, 300, 520] };
    let blens = [257usize, 513, 600, 1025];
    for (si, &n) in sizes.iter().enumerate() {
        let mut perm: Vec<usize> = (0..n).collect();
        perm.shuffle(&mut rng);
        let x: Vec<P> = perm.iter().map(|&v| vec![v as f64]).collect();
        let labels = [-3.0, 5.0, 10.0];
        let ycls: Vec<f64> = perm.iter().map(|&v| labels[(v / 2 + v / 7) % 3]).collect();
        let yreg: Vec<f64> = perm.iter().map(|&v| ((v * 5) % 17) as f64 - 8.0).collect();
        let qs: Vec<P> = vec![x[rng.gen_range(0..n)].clone(), x[n - 1].clone(), vec![rng.gen_range(0..n) as f64 + 0.5],
            vec![-0.5], vec![n as f64 - 0.5]];
        for (ki, &k) in [1usize, 2, 3, 5].iter().enumerate() {
            for b in BACKENDS {
                for w in ["uniform", "distance"] {
                    for kind in ["cls", "reg"] {
                        if kind == "cls" && k == 1 { continue; }
                        run += 1;
                        // quick tier: a third of the combinations (rotating, so that every
                        // backend / weighting / kind occurs at every size)
                        if !thorough() && (run as usize + ki + si) % 3 != 0 { continue; }
                        let order = ORDERS_D[rng.gen_range(0..26)];
                        let c = EstCase { run, kind, metric: Metric::Man, backend: b, weight: w, k, x: &x,
                            y: if kind == "cls" { &ycls } else { &yreg }, qs: &qs, order,
                            batch_len: blens[(si + ki + run as usize) % 4], api: if run % 2 == 0 { "inherent" } else { "trait" } };
                        out.emit(est_event(Distances::manhattan(), &c));
                    }
                }
            }
        }
    }
    // ---- many classes: 257 .. 400 distinct labels, one or two rows per class on a 1-D chain
    // (class index grows with the position); queries next to rows of the highest classes
    for (ci, &nc) in [257usize, 300, 400].iter().enumerate() {
        for per in 1..=2usize {
            if !thorough() && (ci + per) % 2 == 1 && nc != 257 { continue; }
            let n = nc * per;
            let mut perm: Vec<usize> = (0..n).collect();
            perm.shuffle(&mut rng);
            let x: Vec<P> = perm.iter().map(|&v| vec![v as f64]).collect();
            let ycls: Vec<f64> = perm.iter().map(|&v| 1000.0 + 3.0 * (v / per) as f64 + if (v / per) % 2 == 0 { 0.5 } else { 0.0 }).collect();
            let qs: Vec<P> = vec![vec![(n - 1) as f64], vec![(n - 2) as f64 + 0.5], vec![(256 * per) as f64], vec![(256 * per) as f64 + 0.5 * per as f64],
                vec![(n / 2) as f64 + 0.5], vec![1.0]];
            for &k in &[2usize, 3] {
                for b in BACKENDS {
                    for w in ["uniform", "distance"] {
                        run += 1;
                        if !thorough() && run % 2 == 0 { continue; }
                        let c = EstCase { run, kind: "cls", metric: Metric::Man, backend: b, weight: w, k, x: &x, y: &ycls, qs: &qs,
                            order: ORDERS_D[rng.gen_range(0..26)], batch_len: 0, api: if run % 4 < 2 { "inherent" } else { "trait" } };
                        out.emit(est_event(Distances::manhattan(), &c));
                    }
                }
            }
        }
    }
    println!("{} large estimator events", out.finish());
}

fn main() {
    silence_panics();
    let args: Vec<String> = std::env::args().collect();
    match arg(&args, 1) {
        "gen-lattice" => gen_lattice(arg(&args, 2), arg(&args, 3)),
        "gen-edge" => gen_edge(arg(&args, 2)),
        "gen-random" => gen_random(arg(&args, 2)),
        "gen-heap" => gen_heap(arg(&args, 2), arg(&args, 3)),
        "gen-est" => gen_est(arg(&args, 2)),
        "gen-ladder" => gen_ladder(arg(&args, 2)),
        "gen-deep" => gen_deep(arg(&args, 2)),
        "gen-estbig" => gen_estbig(arg(&args, 2)),
        "gen-linfind" => gen_linfind(arg(&args, 2), arg(&args, 3)),
        "rerun" => rerun(arg(&args, 2), arg(&args, 3)),
        "gen-tree" => gen_tree(arg(&args, 2), arg(&args, 3)),
        other => {
            eprintln!("unknown sub-command {}", other);
            std::process::exit(2)
        }
    }
}
