//! C14 — PCA and truncated SVD.  Generates integer-valued data matrices (correlated columns
//! with different scales and large means, rank-deficient data, repeated eigenvalues, both
//! m > p and m <= p), fits the real `PCA` (covariance and correlation mode) and truncated `SVD`
//! for every admissible number of components, and records components and transforms as
//! fixed-point integers at several scales.  Offset family: PCA is invariant under a common
//! per-column offset (components, variances and the centred transform do not change), so a
//! share of the data sets is fed to the library as `X + off` with large exactly representable
//! offsets (2^20..2^30 times a small odd factor, |mean| / sd up to 1e9) while the event keeps
//! the small integers `X` and records `off` separately; the specification evaluates every
//! clause on the small integers.  Column-scale family: correlation-mode PCA is invariant
//! under rescaling any column by a positive factor (P_j is divided by that factor, the
//! transform is unchanged) and covariance-mode PCA under a common factor (components
//! unchanged, transform multiplied by it); another share of the data sets is fed with columns
//! multiplied by exact powers of two (2^-40, 2^-30, 2^30; per column in correlation mode, one
//! common exponent in covariance mode), the outputs are descaled exactly and the event again
//! carries the small integers plus the exponents `cexp`.  Graded family: in covariance mode
//! and for the truncated SVD some columns (p >= 3, at least two of them) are multiplied by
//! 2^-300 / 2^-600 while at least one stays at 2^0 (`gexp`); this is not an invariance, so
//! nothing is descaled -- the specification treats the graded columns as exactly zero, which
//! is correct to 2^-300 relative, far below the quantisation step.  No property logic: every verdict (including the
//! choice of the scale that is safe for 32-bit arithmetic) is taken by spec/decomp/Pca.tla.
use rand::rngs::StdRng;
use rand::Rng;
use serde_json::{json, Value};
use smartcore::api::{Transformer, UnsupervisedEstimator};
use smartcore::decomposition::pca::{PCAParameters, PCA};
use smartcore::decomposition::svd::{SVDParameters, SVD};
use smartcore::linalg::naive::dense_matrix::DenseMatrix;
use smartcore::linalg::svd::SVDDecomposableMatrix;
use smartcore::linalg::BaseMatrix;
use vutil::*;

const SCALES: [u32; 4] = [10, 8, 6, 4];

fn dm(x: &[Vec<i64>]) -> DenseMatrix<f64> {
    let rows: Vec<Vec<f64>> = x.iter().map(|r| r.iter().map(|&v| v as f64).collect()).collect();
    DenseMatrix::from_2d_vec(&rows)
}

fn rows_of(m: &DenseMatrix<f64>) -> Vec<Vec<f64>> {
    let (r, c) = m.shape();
    (0..r).map(|i| (0..c).map(|j| m.get(i, j)).collect()).collect()
}

fn all_finite(ms: &[&Vec<Vec<f64>>]) -> bool {
    ms.iter().all(|m| m.iter().all(|r| r.iter().all(|v| v.is_finite())))
}

struct PcaOut {
    p: Vec<Vec<f64>>,
    y: Vec<Vec<f64>>,
    yz: Vec<Vec<f64>>,
    yzs: Vec<Vec<f64>>,
}

/// fit with k components; transform the training matrix, the stacked query rows, and the two
/// halves of the query rows separately
/// `off`: per-column offsets added before fitting; `cexp`: per-column power-of-two factors;
/// `yexp`: the power of two by which the transform of the scaled problem differs from the
/// transform of the integer problem (0 in correlation mode, the common exponent in covariance
/// mode).  Outputs are mapped back exactly: P_j = P'_j 2^(cexp_j - yexp), Y = Y' 2^-yexp.
/// `api`: go through `api::UnsupervisedEstimator::fit` / `api::Transformer::transform` (fully
/// qualified) instead of the inherent methods.
fn pca_fit(x: &[Vec<i64>], z: &[Vec<i64>], off: &[i64], cexp: &[i32], yexp: i32, k: usize, corr: bool, api: bool) -> Result<Result<PcaOut, ()>, String> {
    pca_fit_opt(x, z, off, cexp, yexp, k, corr, api, true)
}

/// `descale_p = false` (graded family): the column factors are part of the problem, the
/// components are recorded as returned
fn pca_fit_opt(x: &[Vec<i64>], z: &[Vec<i64>], off: &[i64], cexp: &[i32], yexp: i32, k: usize, corr: bool, api: bool, descale_p: bool) -> Result<Result<PcaOut, ()>, String> {
    type Dm = DenseMatrix<f64>;
    let scale = |m: &[Vec<i64>]| -> DenseMatrix<f64> {
        let rows: Vec<Vec<f64>> = m
            .iter()
            .map(|r| r.iter().enumerate().map(|(j, &v)| (v + off[j]) as f64 * (2.0f64).powi(cexp[j])).collect())
            .collect();
        DenseMatrix::from_2d_vec(&rows)
    };
    let xm = scale(x);
    let zm = scale(z);
    let z1 = scale(&z[..z.len() / 2 + 1]);
    let z2 = scale(&z[z.len() / 2 + 1..]);
    let pback: Vec<f64> = cexp.iter().map(|&e| if descale_p { (2.0f64).powi(e - yexp) } else { 1.0 }).collect();
    let yback = (2.0f64).powi(-yexp);
    guard(move || {
        let par = PCAParameters::default().with_n_components(k).with_use_correlation_matrix(corr);
        let fitted = if api { <PCA<f64, Dm> as UnsupervisedEstimator<Dm, PCAParameters>>::fit(&xm, par) } else { PCA::fit(&xm, par) };
        let tr = |m: &PCA<f64, Dm>, a: &Dm| if api { <PCA<f64, Dm> as Transformer<Dm>>::transform(m, a) } else { m.transform(a) };
        let r = fitted.and_then(|m| {
            let y = tr(&m, &xm)?;
            let yz = tr(&m, &zm)?;
            let mut yzs = rows_of(&tr(&m, &z1)?);
            yzs.extend(rows_of(&tr(&m, &z2)?));
            let sc = |rows: Vec<Vec<f64>>| -> Vec<Vec<f64>> { rows.iter().map(|r| r.iter().map(|v| v * yback).collect()).collect() };
            let p: Vec<Vec<f64>> = rows_of(m.components()).iter().enumerate().map(|(j, r)| r.iter().map(|v| v * pback[j]).collect()).collect();
            Ok(PcaOut { p, y: sc(rows_of(&y)), yz: sc(rows_of(&yz)), yzs: sc(yzs) })
        });
        r.map_err(|_| ())
    })
}

struct TsvdOut {
    c: Vec<Vec<f64>>,
    y: Vec<Vec<f64>>,
    yz: Vec<Vec<f64>>,
    yzs: Vec<Vec<f64>>,
}

fn dmg(x: &[Vec<i64>], gexp: &[i32]) -> DenseMatrix<f64> {
    let rows: Vec<Vec<f64>> = x.iter().map(|r| r.iter().enumerate().map(|(j, &v)| v as f64 * (2.0f64).powi(gexp[j])).collect()).collect();
    DenseMatrix::from_2d_vec(&rows)
}

fn tsvd_fit(x: &[Vec<i64>], z: &[Vec<i64>], gexp: &[i32], k: usize, api: bool) -> Result<Result<TsvdOut, ()>, String> {
    type Dm = DenseMatrix<f64>;
    let xm = dmg(x, gexp);
    let zm = dmg(z, gexp);
    let z1 = dmg(&z[..z.len() / 2 + 1], gexp);
    let z2 = dmg(&z[z.len() / 2 + 1..], gexp);
    guard(move || {
        let par = SVDParameters::default().with_n_components(k);
        let fitted = if api { <SVD<f64, Dm> as UnsupervisedEstimator<Dm, SVDParameters>>::fit(&xm, par) } else { SVD::fit(&xm, par) };
        let tr = |m: &SVD<f64, Dm>, a: &Dm| if api { <SVD<f64, Dm> as Transformer<Dm>>::transform(m, a) } else { m.transform(a) };
        let r = fitted.and_then(|m| {
            let y = tr(&m, &xm)?;
            let yz = tr(&m, &zm)?;
            let mut yzs = rows_of(&tr(&m, &z1)?);
            yzs.extend(rows_of(&tr(&m, &z2)?));
            Ok(TsvdOut { c: rows_of(m.components()), y: rows_of(&y), yz: rows_of(&yz), yzs })
        });
        r.map_err(|_| ())
    })
}

fn status_of<T>(r: &Result<Result<T, ()>, String>) -> &'static str {
    match r {
        Ok(Ok(_)) => "ok",
        Ok(Err(_)) => "err",
        Err(_) => "panic",
    }
}

// ------------------------------------------------------------------ generators
fn gen_x(rng: &mut StdRng, m: usize, p: usize, fam: &str, small: bool) -> Vec<Vec<i64>> {
    let mut x = vec![vec![0i64; p]; m];
    let amp: i64 = if small { 2 } else { 5 };
    let mean = |rng: &mut StdRng| -> i64 { [0, 3, -20, 150, -1000][rng.gen_range(0..5)] };
    match fam {
        "latent" => {
            let t: Vec<i64> = (0..m).map(|_| rng.gen_range(-3..=3)).collect();
            let u: Vec<i64> = (0..m).map(|_| rng.gen_range(-2..=2)).collect();
            for j in 0..p {
                let c = mean(rng);
                let a: i64 = rng.gen_range(-amp / 2 - 1..=amp / 2 + 1);
                let b: i64 = rng.gen_range(-1..=1);
                for i in 0..m {
                    x[i][j] = c + a * t[i] + b * u[i] + rng.gen_range(-1..=1);
                }
            }
        }
        "tiny" => {
            // size-ladder data: three-valued, mutually correlated columns around their means
            let t: Vec<i64> = (0..m).map(|_| rng.gen_range(-1..=1)).collect();
            for j in 0..p {
                let c = mean(rng);
                for i in 0..m {
                    x[i][j] = c + if j == 0 || rng.gen_bool(0.6) { t[i] } else { rng.gen_range(-1..=1) };
                }
            }
        }
        "rankdef" => {
            for j in 0..p {
                let c = mean(rng);
                let a: i64 = rng.gen_range(1..=amp);
                for i in 0..m {
                    x[i][j] = c + rng.gen_range(-a..=a);
                }
            }
            if p >= 3 {
                for i in 0..m {
                    x[i][p - 1] = x[i][0] - x[i][1] + 7;
                }
            } else if p == 2 {
                for i in 0..m {
                    x[i][1] = 2 * x[i][0] - 5;
                }
            }
        }
        "repeat" => {
            // mutually orthogonal +-a patterns (Walsh functions of the row index): equal
            // variances when m is a multiple of 2^p, i.e. repeated eigenvalues
            let a: i64 = rng.gen_range(1..=amp);
            for j in 0..p {
                let c = mean(rng);
                for i in 0..m {
                    let bit = (i >> (j % 4)) & 1;
                    x[i][j] = c + if bit == 1 { a } else { -a };
                }
            }
        }
        _ => {
            for j in 0..p {
                let c = mean(rng);
                let a: i64 = rng.gen_range(1..=amp + 1);
                for i in 0..m {
                    x[i][j] = c + rng.gen_range(-a..=a);
                }
            }
        }
    }
    x
}

fn has_constant_column(x: &[Vec<i64>]) -> bool {
    (0..x[0].len()).any(|j| x.iter().all(|r| r[j] == x[0][j]))
}

fn gen_z(rng: &mut StdRng, x: &[Vec<i64>]) -> Vec<Vec<i64>> {
    let m = x.len();
    (0..3)
        .map(|_| {
            let r = &x[rng.gen_range(0..m)];
            r.iter().map(|&v| v + rng.gen_range(-2..=2)).collect()
        })
        .collect()
}

fn quantise(mats: &[(&str, &Vec<Vec<f64>>)], vecs: &[(&str, &Vec<f64>)]) -> Vec<Value> {
    let mut q = vec![];
    for &s in SCALES.iter() {
        let qz = Q::with_limit(s, 1.0e9);
        let mut o = serde_json::Map::new();
        o.insert("S".into(), json!(s));
        for (name, m) in mats {
            o.insert(name.to_string(), json!(qz.m(m)));
        }
        for (name, v) in vecs {
            o.insert(name.to_string(), json!(qz.v(v)));
        }
        if qz.ok() {
            q.push(Value::Object(o));
        }
    }
    q
}

const FAMS: [&str; 4] = ["latent", "dense", "rankdef", "repeat"];

fn gen(path: &str) {
    let mut out = Out::create(path);
    let mut rng = rng(14);
    let thorough = thorough();
    let n_data = if thorough { 3500 } else { 2500 };
    let mut run = 0i64;
    let mut counts = std::collections::BTreeMap::new();
    let mut bump = |k: String| *counts.entry(k).or_insert(0usize) += 1;
    // size ladder: row counts around internal block sizes, appended to the random data sets
    let ladder: &[usize] = if thorough { &[63, 64, 65, 127, 128, 129, 255, 256, 257, 511, 512, 513, 1023, 1024, 1025] } else { &[63, 64, 65, 255, 256, 257, 1023, 1024, 1025] };
    for d in 0..n_data + ladder.len() {
        let rung = if d >= n_data { Some(ladder[d - n_data]) } else { None };
        let big = thorough && d % 4 == 0 && rung.is_none();
        let graded = d % 16 == 8 && rung.is_none();
        let p: usize = if graded { rng.gen_range(3..=4) } else if rung.is_some() { 1 + d % 3 } else if big { rng.gen_range(3..=8) } else { rng.gen_range(1..=4) };
        let wide = d % 3 == 0 && rung.is_none();
        let m: usize = if let Some(r) = rung { r } else if wide { rng.gen_range(2..=p.max(2)) } else if big { rng.gen_range(p + 1..=40) } else { rng.gen_range(p + 1..=12) };
        let fam = if rung.is_some() { "tiny" } else { FAMS[rng.gen_range(0..FAMS.len())] };
        let api = d % 8 == 4;
        let x = gen_x(&mut rng, m, p, fam, big);
        let z = gen_z(&mut rng, &x);
        // offset family (every other data set, so that it meets both shapes and both modes)
        let off: Vec<i64> = if d % 2 == 1 {
            (0..p)
                .map(|_| {
                    let e: u32 = rng.gen_range(20..=30);
                    let f: i64 = [1, 3, 5, 7][rng.gen_range(0..4)];
                    (f << e) * if rng.gen_bool(0.5) { 1 } else { -1 }
                })
                .collect()
        } else {
            vec![0; p]
        };
        let scaled = d % 4 == 2;
        // graded family: one column at 2^0, at least two at 2^-300 / 2^-600
        let gexp: Vec<i32> = if graded {
            let keep = rng.gen_range(0..p);
            let mut g: Vec<i32> = (0..p).map(|j| if j == keep { 0 } else { [-300, -600, -600, 0][rng.gen_range(0..4)] }).collect();
            let mut neg = g.iter().filter(|&&e| e < 0).count();
            for j in 0..p {
                if neg < 2 && j != keep && g[j] == 0 {
                    g[j] = -600;
                    neg += 1;
                }
            }
            g
        } else {
            vec![0; p]
        };
        let famtag = format!("{}{}{}", if let Some(r) = rung { format!("ladder{}", r) } else { fam.to_string() }, if wide { "/wide" } else { "" }, if d % 2 == 1 { "/offset" } else if scaled { "/colscale" } else if graded { "/graded" } else { "" });
        // ---- PCA, both modes, every k
        for &corr in &[false, true] {
            if corr && (has_constant_column(&x) || graded) {
                continue; // standardisation undefined: outside the statement / graded: covariance only
            }
            // column-scale family: per-column exponents (correlation) / one common exponent (covariance)
            let (cexp, yexp): (Vec<i32>, i32) = if graded {
                (gexp.clone(), 0)
            } else if !scaled {
                (vec![0; p], 0)
            } else if corr {
                let mut c: Vec<i32> = (0..p).map(|_| [-40, -30, 0, 30][rng.gen_range(0..4)]).collect();
                if c.iter().all(|&e| e == 0) {
                    c[rng.gen_range(0..p)] = -40;
                }
                (c, 0)
            } else {
                let e = [-40, -30, 30][rng.gen_range(0..3)];
                (vec![e; p], e)
            };
            let full = pca_fit_opt(&x, &z, &off, &cexp, yexp, p, corr, api, !graded);
            let yf: Vec<Vec<f64>> = match &full {
                Ok(Ok(o)) => o.y.clone(),
                _ => vec![],
            };
            for k in 1..=p {
                run += 1;
                let r = pca_fit_opt(&x, &z, &off, &cexp, yexp, k, corr, api, !graded);
                let st = status_of(&r);
                bump(format!("pca-{}", st));
                let (fin, q) = match &r {
                    Ok(Ok(o)) => {
                        let fin = all_finite(&[&o.p, &o.y, &o.yz, &o.yzs, &yf]) && !yf.is_empty();
                        (fin, if fin { quantise(&[("P", &o.p), ("Y", &o.y), ("Yf", &yf), ("YZ", &o.yz), ("YZs", &o.yzs)], &[]) } else { vec![] })
                    }
                    _ => (false, vec![]),
                };
                out.emit(json!({"run": run, "ev": "Pca", "fam": famtag, "mode": if corr {"corr"} else {"cov"}, "m": m, "p": p, "k": k,
                    "X": x, "Z": z, "off": off, "cexp": if graded { vec![0; p] } else { cexp.clone() }, "gexp": gexp, "entry": if api { "api" } else { "inherent" }, "status": st, "fin": fin, "q": q}));
            }
        }
        // ---- truncated SVD, every k <= p (k = p must be rejected).  No centring here, so the
        // column means are made moderate (the magnitudes enter the squared norms directly)
        let x: Vec<Vec<i64>> = {
            let offs: Vec<i64> = (0..p).map(|_| [0, 2, -5, 9][rng.gen_range(0..4)]).collect();
            let mu: Vec<i64> = (0..p).map(|j| (x.iter().map(|r| r[j]).sum::<i64>() as f64 / m as f64).round() as i64).collect();
            x.iter().map(|r| (0..p).map(|j| r[j] - mu[j] + offs[j]).collect()).collect()
        };
        let z: Vec<Vec<i64>> = gen_z(&mut rng, &x);
        let sv = guard(|| dmg(&x, &gexp).svd().map_err(|_| ()));
        for k in 1..=p {
            run += 1;
            let r = tsvd_fit(&x, &z, &gexp, k, api);
            let st = status_of(&r);
            bump(format!("tsvd-{}{}", st, if k == p { "(k=p)" } else { "" }));
            let (fin, q) = match (&r, &sv) {
                (Ok(Ok(o)), Ok(Ok(svd))) => {
                    let v = rows_of(&svd.V);
                    let s: Vec<f64> = svd.s.clone();
                    let fin = all_finite(&[&o.c, &o.y, &o.yz, &o.yzs, &v]) && s.iter().all(|t| t.is_finite());
                    (fin, if fin { quantise(&[("Cm", &o.c), ("Y", &o.y), ("Vf", &v), ("YZ", &o.yz), ("YZs", &o.yzs)], &[("sv", &s)]) } else { vec![] })
                }
                _ => (false, vec![]),
            };
            out.emit(json!({"run": run, "ev": "Tsvd", "fam": famtag, "m": m, "p": p, "k": k,
                "X": x, "Z": z, "off": vec![0i64; p], "cexp": vec![0i32; p], "gexp": gexp, "entry": if api { "api" } else { "inherent" }, "status": st, "fin": fin, "q": q}));
        }
    }
    let n = out.finish();
    println!("events={} statuses={:?}", n, counts);
}

/// re-execute the events of a replay artefact
fn replay_file(input: &str, path: &str) {
    let evs = read_ndjson(input);
    let mut out = Out::create(path);
    for e in evs {
        let x: Vec<Vec<i64>> = serde_json::from_value(e["X"].clone()).unwrap();
        let z: Vec<Vec<i64>> = serde_json::from_value(e["Z"].clone()).unwrap();
        let k = e["k"].as_u64().unwrap() as usize;
        let p = x[0].len();
        let off: Vec<i64> = serde_json::from_value(e["off"].clone()).unwrap_or(vec![0; p]);
        let api = e["entry"] == "api";
        let gexp: Vec<i32> = serde_json::from_value(e["gexp"].clone()).unwrap_or(vec![0; p]);
        let graded = gexp.iter().any(|&g| g != 0);
        let mut o = e.clone();
        if e["ev"] == "Pca" {
            let corr = e["mode"] == "corr";
            let cexp: Vec<i32> = serde_json::from_value(e["cexp"].clone()).unwrap_or(vec![0; p]);
            let yexp = if corr || graded { 0 } else { cexp[0] };
            let cexp = if graded { gexp.clone() } else { cexp };
            let full = pca_fit_opt(&x, &z, &off, &cexp, yexp, p, corr, api, !graded);
            let yf: Vec<Vec<f64>> = match &full { Ok(Ok(o)) => o.y.clone(), _ => vec![] };
            let r = pca_fit_opt(&x, &z, &off, &cexp, yexp, k, corr, api, !graded);
            o["status"] = json!(status_of(&r));
            match &r {
                Ok(Ok(f)) => {
                    let fin = all_finite(&[&f.p, &f.y, &f.yz, &f.yzs, &yf]) && !yf.is_empty();
                    o["fin"] = json!(fin);
                    o["q"] = json!(if fin { quantise(&[("P", &f.p), ("Y", &f.y), ("Yf", &yf), ("YZ", &f.yz), ("YZs", &f.yzs)], &[]) } else { vec![] });
                }
                _ => {
                    o["fin"] = json!(false);
                    o["q"] = json!([]);
                }
            }
        } else {
            let sv = guard(|| dmg(&x, &gexp).svd().map_err(|_| ()));
            let r = tsvd_fit(&x, &z, &gexp, k, api);
            o["status"] = json!(status_of(&r));
            match (&r, &sv) {
                (Ok(Ok(f)), Ok(Ok(svd))) => {
                    let v = rows_of(&svd.V);
                    let fin = all_finite(&[&f.c, &f.y, &f.yz, &f.yzs, &v]) && svd.s.iter().all(|t| t.is_finite());
                    o["fin"] = json!(fin);
                    o["q"] = json!(if fin { quantise(&[("Cm", &f.c), ("Y", &f.y), ("Vf", &v), ("YZ", &f.yz), ("YZs", &f.yzs)], &[("sv", &svd.s)]) } else { vec![] });
                }
                _ => {
                    o["fin"] = json!(false);
                    o["q"] = json!([]);
                }
            }
        }
        out.emit(o);
    }
    println!("events={}", out.finish());
}

fn main() {
    silence_panics();
    let args: Vec<String> = std::env::args().collect();
    match arg(&args, 1) {
        "gen" => gen(arg(&args, 2)),
        "replay-file" => replay_file(arg(&args, 2), arg(&args, 3)),
        other => {
            eprintln!("unknown sub-command {}", other);
            std::process::exit(2)
        }
    }
}
