//! C19 — serde round trip and model equality.
//!
//! For every serialisable public type the harness builds an object on seeded, integer-valued
//! random data and records ONE HISTORY per object:
//!
//!   Built(obs) -> { Ser(fmt, status) -> De(obs', dig') -> Eq(restored) }  for fmt in bincode, json
//!              -> Eq(self) -> { Alt(role, how, obs'') -> Eq(role) }*  -> End
//!
//! `obs` is the exact projection of what the object does on a FRESH query matrix: the IEEE bit
//! pattern (two signed 32-bit halves) of every prediction / decision value / transform /
//! distance, split into a discrete part (class labels, cluster ids, neighbour indices) and a
//! continuous part, the latter also in fixed point (scale chosen per object, exact rounding).
//! `dig` is a 64-bit FNV digest of the object's bincode serialisation (identifies the complete
//! serialised state); `xd` / `yd` are digests of the training rows / targets.
//!
//! No property logic lives here: whether a restored object is "the same", whether an `==` result
//! is admissible and which cases are unconstrained is decided by spec/serde/RoundTrip.tla under TLC.
use rand::rngs::StdRng;
use rand::Rng;
use serde::de::DeserializeOwned;
use serde::Serialize;
use serde_json::{json, Value};
use smartcore::algorithm::neighbour::cover_tree::CoverTree;
use smartcore::algorithm::neighbour::linear_search::LinearKNNSearch;
use smartcore::algorithm::neighbour::KNNAlgorithmName;
use smartcore::cluster::dbscan::{DBSCANParameters, DBSCAN};
use smartcore::cluster::kmeans::{KMeans, KMeansParameters};
use smartcore::decomposition::pca::{PCAParameters, PCA};
use smartcore::decomposition::svd::{SVDParameters, SVD};
use smartcore::ensemble::random_forest_classifier::{
    RandomForestClassifier, RandomForestClassifierParameters,
};
use smartcore::ensemble::random_forest_regressor::{
    RandomForestRegressor, RandomForestRegressorParameters,
};
use smartcore::api::{Predictor, SupervisedEstimator};
use smartcore::error::Failed;
use smartcore::linalg::naive::dense_matrix::DenseMatrix;
use smartcore::linalg::BaseMatrix;
use smartcore::linear::elastic_net::{ElasticNet, ElasticNetParameters};
use smartcore::linear::lasso::{Lasso, LassoParameters};
use smartcore::linear::linear_regression::{
    LinearRegression, LinearRegressionParameters, LinearRegressionSolverName,
};
use smartcore::linear::logistic_regression::LogisticRegression;
use smartcore::linear::ridge_regression::{
    RidgeRegression, RidgeRegressionParameters, RidgeRegressionSolverName,
};
use smartcore::math::distance::euclidian::Euclidian;
use smartcore::math::distance::hamming::Hamming;
use smartcore::math::distance::mahalanobis::Mahalanobis;
use smartcore::math::distance::manhattan::Manhattan;
use smartcore::math::distance::minkowski::Minkowski;
use smartcore::math::distance::{Distance, Distances};
use smartcore::math::num::RealNumber;
use smartcore::naive_bayes::bernoulli::{BernoulliNB, BernoulliNBParameters};
use smartcore::naive_bayes::categorical::{CategoricalNB, CategoricalNBParameters};
use smartcore::naive_bayes::gaussian::GaussianNB;
use smartcore::naive_bayes::multinomial::{MultinomialNB, MultinomialNBParameters};
use smartcore::neighbors::knn_classifier::{KNNClassifier, KNNClassifierParameters};
use smartcore::neighbors::knn_regressor::{KNNRegressor, KNNRegressorParameters};
use smartcore::neighbors::KNNWeightFunction;
use smartcore::svm::svc::{SVCParameters, SVC};
use smartcore::svm::svr::{SVRParameters, SVR};
use smartcore::svm::{Kernel, Kernels, LinearKernel, PolynomialKernel, RBFKernel, SigmoidKernel};
use smartcore::tree::decision_tree_classifier::{
    DecisionTreeClassifier, DecisionTreeClassifierParameters, SplitCriterion,
};
use smartcore::tree::decision_tree_regressor::{
    DecisionTreeRegressor, DecisionTreeRegressorParameters,
};
use vutil::*;

type M64 = DenseMatrix<f64>;
type M32 = DenseMatrix<f32>;

// ---------------------------------------------------------------------------------------------
// exact projections
// ---------------------------------------------------------------------------------------------

/// the two 32-bit halves of an IEEE-754 double, each as a SIGNED 32-bit integer (TLC integers
/// are Java ints); a bijection on bit patterns
fn halves(v: f64) -> (i64, i64) {
    let b = v.to_bits();
    (((b >> 32) as u32) as i32 as i64, ((b & 0xffff_ffff) as u32) as i32 as i64)
}

fn fnv(bytes: &[u8]) -> u64 {
    let mut h: u64 = 0xcbf2_9ce4_8422_2325;
    for b in bytes {
        h ^= *b as u64;
        h = h.wrapping_mul(0x0000_0100_0000_01b3);
    }
    h
}

fn dig_json(h: u64) -> Value {
    json!([((h >> 32) as u32) as i32 as i64, ((h & 0xffff_ffff) as u32) as i32 as i64])
}

fn dig_rows(rows: &[Vec<f64>]) -> Value {
    let mut bytes = Vec::new();
    for r in rows {
        bytes.extend_from_slice(&(r.len() as u64).to_le_bytes());
        for v in r {
            bytes.extend_from_slice(&v.to_bits().to_le_bytes());
        }
    }
    dig_json(fnv(&bytes))
}

/// digest of the complete serialised state (bincode bytes); `None` when bincode fails
fn state_digest<O: Serialize>(o: &O) -> Option<u64> {
    match guard(|| bincode::serialize(o)) {
        Ok(Ok(b)) => Some(fnv(&b)),
        _ => None,
    }
}

/// what an object does on the query inputs: discrete and continuous outputs (as f64; an f32
/// value is widened exactly) and a shape
struct ObsB {
    shape: (usize, usize),
    d: Vec<f64>,
    c: Vec<f64>,
}

impl ObsB {
    fn disc(v: Vec<f64>) -> ObsB {
        ObsB { shape: (v.len(), 1), d: v, c: vec![] }
    }
    fn cont(v: Vec<f64>) -> ObsB {
        ObsB { shape: (v.len(), 1), d: vec![], c: v }
    }
}

/// one entry per public output-producing method of the object: (method name, its result)
struct Parts(Vec<(&'static str, Result<ObsB, Failed>)>);

impl From<Result<ObsB, Failed>> for Parts {
    fn from(r: Result<ObsB, Failed>) -> Parts {
        Parts(vec![("main", r)])
    }
}

impl From<Vec<(&'static str, Result<ObsB, Failed>)>> for Parts {
    fn from(v: Vec<(&'static str, Result<ObsB, Failed>)>) -> Parts {
        Parts(v)
    }
}

/// largest s <= 16 with max|v| * 2^s <= 2^29 (so that differences of two fixed-point values
/// stay inside TLC's 32-bit integers)
fn scale_for(ps: &Parts) -> i32 {
    let mut mx = 0.0f64;
    for (_, r) in &ps.0 {
        if let Ok(o) = r {
            for v in &o.c {
                if v.is_finite() && v.abs() > mx {
                    mx = v.abs();
                }
            }
        }
    }
    let mut s = 16;
    while s > -1000 && mx * (2.0f64).powi(s) > 536_870_912.0 {
        s -= 1;
    }
    s
}

/// Ok(parts) | Err(panic message of the observation as a whole)
type ObsR = Result<Parts, String>;

fn part_value(name: &str, r: &Result<ObsB, Failed>, s: i32) -> Value {
    match r {
        Ok(o) => {
            let (mut dh, mut dl, mut ch, mut cl, mut cfx, mut cok) = (vec![], vec![], vec![], vec![], vec![], vec![]);
            for v in &o.d {
                let (h, l) = halves(*v);
                dh.push(h);
                dl.push(l);
            }
            for v in &o.c {
                let (h, l) = halves(*v);
                ch.push(h);
                cl.push(l);
                let q = (*v * (2.0f64).powi(s)).round();
                if !v.is_finite() || q.abs() > 1_073_741_824.0 {
                    cok.push(false);
                    cfx.push(0i64);
                } else {
                    cok.push(true);
                    cfx.push(q as i64);
                }
            }
            json!({"name": name, "status": "ok", "shape": [o.shape.0, o.shape.1], "dh": dh, "dl": dl,
                   "ch": ch, "cl": cl, "cfx": cfx, "cok": cok})
        }
        Err(_) => json!({"name": name, "status": "err", "shape": [0, 0], "dh": [], "dl": [], "ch": [], "cl": [], "cfx": [], "cok": []}),
    }
}

fn obs_value(r: &ObsR, s: i32) -> Value {
    match r {
        Ok(ps) => {
            let parts: Vec<Value> = ps.0.iter().map(|(n, r)| part_value(n, r, s)).collect();
            json!({"status": "ok", "s": s, "parts": parts})
        }
        Err(_) => json!({"status": "panic", "s": s, "parts": []}),
    }
}

// ---------------------------------------------------------------------------------------------
// data
// ---------------------------------------------------------------------------------------------

#[derive(Clone, Copy, PartialEq, Debug)]
enum Kind {
    Reg,  // integer features, integer-valued linear target + noise
    Cls2, // integer features, two classes
    Cls3, // integer features, three classes
    Bin,  // 0/1 features, two or three classes
    Cnt,  // count features 0..4
    Cat,  // categorical features 0..2 (every category present in every column)
    BinZ, // as Bin / Cnt / Cat, with a STRUCTURAL ZERO: feature 0 is never on (count 0; category 2
    CntZ, // never seen) within the first class.  The data are finite; a naive-Bayes model fitted
    CatZ, // without smoothing (alpha = 0) then legitimately stores ln(0) = -inf
    RegFlat, // as Reg, but the target is nearly constant (two values 1/16 apart): an eps-tube wider
             // than the spread of y leaves an SVR without any support vector
    Cls1, // a single class
    Tiny, // unsupervised, two or three distinct points
    Big,  // size ladder: n in {63,64,65,...,1023,1024,1025} (sometimes ~3000) distinct integer rows,
          // p = 2, integer-valued linear target + noise, and a batch of 520 query rows
    Geo,  // one feature growing geometrically (x_i = 2^i, 80..120 rows, ascending or descending):
          // makes very deep cover trees; targets i mod 7
    Blob, // unsupervised: a few well separated integer clusters + an outlier
}

#[derive(Clone)]
struct Data {
    kind: Kind,
    x: Vec<Vec<f64>>,
    y: Vec<f64>,
    q: Vec<Vec<f64>>,
}

fn distinct_rows(x: &[Vec<f64>]) -> bool {
    for i in 0..x.len() {
        for j in 0..i {
            if x[i] == x[j] {
                return false;
            }
        }
    }
    true
}

fn col_distinct(x: &[Vec<f64>], j: usize) -> usize {
    let mut v: Vec<i64> = x.iter().map(|r| r[j] as i64).collect();
    v.sort();
    v.dedup();
    v.len()
}

/// every class has at least `m` members and, within each class, every feature takes at least
/// two values (no zero variance inside a class)
fn classes_ok(x: &[Vec<f64>], y: &[f64], k: usize, labels: &[f64], m: usize, need_var: bool) -> bool {
    for c in 0..k {
        let rows: Vec<&Vec<f64>> = x.iter().zip(y.iter()).filter(|(_, l)| **l == labels[c]).map(|(r, _)| r).collect();
        if rows.len() < m {
            return false;
        }
        if need_var {
            for j in 0..rows[0].len() {
                if rows.iter().all(|r| r[j] == rows[0][j]) {
                    return false;
                }
            }
        }
    }
    true
}

fn gen_data(kind: Kind, rng: &mut StdRng, p_fixed: Option<usize>) -> Data {
    if kind == Kind::Big {
        let ladder = [63usize, 64, 65, 127, 128, 129, 255, 256, 257, 511, 512, 513, 1023, 1024, 1025, 3001];
        let n = ladder[rng.gen_range(0..ladder.len())];
        let mut seen = std::collections::HashSet::new();
        let mut x = Vec::with_capacity(n);
        while x.len() < n {
            let (a, b) = (rng.gen_range(-60..=60i64), rng.gen_range(-60..=60i64));
            if seen.insert((a, b)) {
                x.push(vec![a as f64, b as f64]);
            }
        }
        let (c0, c1) = (rng.gen_range(1..=3) as f64, rng.gen_range(-3..=-1) as f64);
        let y: Vec<f64> = x.iter().map(|r| c0 * r[0] + c1 * r[1] + rng.gen_range(-2..=2) as f64).collect();
        let q = (0..520).map(|_| vec![rng.gen_range(-64..=64) as f64, rng.gen_range(-64..=64) as f64]).collect();
        return Data { kind, x, y, q };
    }
    if kind == Kind::Geo {
        let n = [80usize, 96, 120][rng.gen_range(0..3)];
        let desc = rng.gen_range(0..2) == 1;
        let first = rng.gen_range(0..4);
        let mut x: Vec<Vec<f64>> = (0..n).map(|i| vec![(2.0f64).powi((first + i) as i32)]).collect();
        let mut y: Vec<f64> = (0..n).map(|i| (i % 7) as f64).collect();
        if desc {
            x.reverse();
            y.reverse();
        }
        let q = (0..6).map(|_| vec![(2.0f64).powi(rng.gen_range(0..(n as i32))) * 1.25]).collect();
        return Data { kind, x, y, q };
    }
    loop {
        let ns = [8usize, 9, 11, 12, 16, 16, 20, 24];
        let n = if kind == Kind::Tiny { rng.gen_range(2..=3) } else { ns[rng.gen_range(0..ns.len())] };
        let p = p_fixed.unwrap_or_else(|| match kind {
            Kind::Bin | Kind::Cnt | Kind::Cat | Kind::BinZ | Kind::CntZ | Kind::CatZ => rng.gen_range(2..=4),
            Kind::Blob | Kind::Tiny => rng.gen_range(2..=3),
            _ => rng.gen_range(1..=4),
        });
        let nq = 6;
        let (lo, hi): (i64, i64) = match kind {
            Kind::Bin | Kind::BinZ => (0, 1),
            Kind::Cnt | Kind::CntZ => (0, 4),
            Kind::Cat | Kind::CatZ => (0, 2),
            _ => (-6, 6),
        };
        let mut x: Vec<Vec<f64>> = Vec::new();
        let mut q: Vec<Vec<f64>> = Vec::new();
        if kind == Kind::Blob {
            let k = rng.gen_range(2..=3usize);
            let centres: Vec<Vec<i64>> = (0..k).map(|c| (0..p).map(|j| (c as i64) * 9 - 9 + if j % 2 == 1 { 4 - (c as i64) * 3 } else { 0 }).collect()).collect();
            for i in 0..n - 1 {
                let c = &centres[i % k];
                x.push((0..p).map(|j| (c[j] + rng.gen_range(-1..=1)) as f64).collect());
            }
            x.push((0..p).map(|_| 40.0).collect()); // an isolated point
            for i in 0..nq {
                if i < 4 {
                    let c = &centres[i % k];
                    q.push((0..p).map(|j| (c[j] + rng.gen_range(-2..=2)) as f64).collect());
                } else {
                    q.push((0..p).map(|_| rng.gen_range(-20..=20) as f64).collect());
                }
            }
        } else {
            for _ in 0..n {
                x.push((0..p).map(|_| rng.gen_range(lo..=hi) as f64).collect());
            }
            for _ in 0..nq {
                let (ql, qh) = if lo < 0 { (lo - 2, hi + 2) } else { (lo, hi) };
                q.push((0..p).map(|_| rng.gen_range(ql..=qh) as f64).collect());
            }
        }
        // domain restrictions of the property (finite, non-degenerate data); degenerate
        // neighbour-search inputs (one point, all points identical) are out of scope here
        match kind {
            Kind::Reg | Kind::RegFlat | Kind::Cls1 | Kind::Cls2 | Kind::Cls3 | Kind::Blob | Kind::Tiny => {
                if !distinct_rows(&x) {
                    continue;
                }
            }
            _ => {}
        }
        let need = match kind {
            Kind::Bin | Kind::BinZ => 2,
            Kind::Cat | Kind::CatZ => 3,
            _ => 3,
        };
        if kind != Kind::Tiny && (0..p).any(|j| col_distinct(&x, j) < need) {
            continue;
        }
        if matches!(kind, Kind::Reg | Kind::RegFlat) && n < p + 4 {
            continue;
        }
        // targets
        let mut y = vec![0.0; n];
        match kind {
            Kind::Reg => {
                let a: Vec<i64> = (0..p).map(|_| rng.gen_range(-3..=3)).collect();
                let b: i64 = rng.gen_range(-5..=5);
                for i in 0..n {
                    let mut s = b;
                    for j in 0..p {
                        s += a[j] * x[i][j] as i64;
                    }
                    y[i] = (s + rng.gen_range(-2..=2)) as f64;
                }
                if y.iter().all(|v| *v == y[0]) {
                    continue;
                }
            }
            Kind::RegFlat => {
                for i in 0..n {
                    y[i] = 5.0 + if i % 2 == 0 { 0.0 } else { 0.0625 };
                }
            }
            Kind::Blob | Kind::Tiny => {}
            _ => {
                let k = match kind {
                    Kind::Cls1 => 1,
                    Kind::Cls2 => 2,
                    Kind::Cls3 => 3,
                    _ => rng.gen_range(2..=3),
                };
                let base = rng.gen_range(0..=2) as f64;
                let labels: Vec<f64> = (0..k).map(|c| base + c as f64).collect();
                let a: Vec<i64> = (0..p).map(|_| rng.gen_range(-2..=2)).collect();
                let mut sc: Vec<i64> = (0..n).map(|i| (0..p).map(|j| a[j] * x[i][j] as i64).sum::<i64>() * 2 + rng.gen_range(-3..=3)).collect();
                let mut sorted = sc.clone();
                sorted.sort();
                for i in 0..n {
                    let r = sorted.iter().position(|v| *v == sc[i]).unwrap();
                    y[i] = labels[(r * k / n).min(k - 1)];
                }
                sc.clear();
                let need_var = matches!(kind, Kind::Cls1 | Kind::Cls2 | Kind::Cls3);
                if !classes_ok(&x, &y, k, &labels, 3, need_var) {
                    continue;
                }
                if matches!(kind, Kind::BinZ | Kind::CntZ | Kind::CatZ) {
                    for i in 0..n {
                        if y[i] == labels[0] {
                            x[i][0] = if kind == Kind::CatZ { if x[i][0] == 2.0 { 1.0 } else { x[i][0] } } else { 0.0 };
                        }
                    }
                    if (0..p).any(|j| col_distinct(&x, j) < need) {
                        continue;
                    }
                }
            }
        }
        return Data { kind, x, y, q };
    }
}

/// the same data translated: every feature + c, regression targets + d, class labels + 1.
/// Every row and every target differs from the original.
fn shifted(d: &Data, c: f64, dy: f64, targets_too: bool) -> Data {
    let x = d.x.iter().map(|r| r.iter().map(|v| v + c).collect()).collect();
    let y = if targets_too {
        match d.kind {
            Kind::Reg | Kind::RegFlat | Kind::Geo | Kind::Big => d.y.iter().map(|v| v + dy).collect(),
            Kind::Blob | Kind::Tiny => d.y.clone(),
            _ => d.y.iter().map(|v| v + 1.0).collect(),
        }
    } else {
        d.y.clone()
    };
    Data { kind: d.kind, x, y, q: d.q.clone() }
}

/// the first ~3/4 of the rows (and targets): a strict PREFIX of the training set
fn prefix_of(d: &Data) -> Data {
    let n = d.x.len();
    let m = std::cmp::max(2, (3 * n) / 4).min(n - 1);
    Data { kind: d.kind, x: d.x[..m].to_vec(), y: if d.y.is_empty() { vec![] } else { d.y[..m].to_vec() }, q: d.q.clone() }
}

/// the training set followed by the rows (and targets) of another set: a strict EXTENSION
fn extension_of(d: &Data, more: &Data) -> Data {
    let k = std::cmp::max(1, more.x.len() / 3);
    let mut x = d.x.clone();
    x.extend_from_slice(&more.x[..k]);
    let mut y = d.y.clone();
    if !d.y.is_empty() {
        y.extend_from_slice(&more.y[..k]);
    }
    Data { kind: d.kind, x, y, q: d.q.clone() }
}

/// 'Mirror topology' pairs for trees (single feature, min_samples_split = 4): in A four rows
/// share x = t-1 (a leaf) and the rows t+1..t+4 are split once more; in B the rows t-4..t-1 are
/// split once more and four rows share x = t+1.  Targets are arranged so that the nodes at the
/// same position of the two node tables carry the same output: the trees differ only in WHICH
/// child of the root is the split -- and in every prediction.
fn mirror_pair(rng: &mut StdRng, classes: bool) -> (Data, Data) {
    let t = rng.gen_range(-3..=3) as f64;
    let (h, l) = if classes {
        let a = rng.gen_range(0..=2) as f64;
        if rng.gen_range(0..2) == 0 { (a, a + 1.0) } else { (a + 1.0, a) }
    } else {
        let l = rng.gen_range(-4..=4) as f64;
        let d = (4 * rng.gen_range(1..=4)) as f64;
        if rng.gen_range(0..2) == 0 { (l + d, l) } else { (l - d, l) }
    };
    let (u, ma) = if classes { (l, h) } else { ((h + 3.0 * l) / 4.0, (3.0 * h + l) / 4.0) };
    let xa: Vec<Vec<f64>> = vec![t - 1., t - 1., t - 1., t - 1., t + 1., t + 2., t + 3., t + 4.].into_iter().map(|v| vec![v]).collect();
    let ya = vec![u, u, u, u, h, h, h, l];
    let xb: Vec<Vec<f64>> = vec![t - 4., t - 3., t - 2., t - 1., t + 1., t + 1., t + 1., t + 1.].into_iter().map(|v| vec![v]).collect();
    let yb = vec![h, l, l, l, ma, ma, ma, ma];
    let q: Vec<Vec<f64>> = vec![t - 4., t - 2., t - 1., t + 1., t + 2., t + 4.].into_iter().map(|v| vec![v]).collect();
    let kind = if classes { Kind::Cls2 } else { Kind::Reg };
    (Data { kind, x: xa, y: ya, q: q.clone() }, Data { kind, x: xb, y: yb, q })
}

fn mat<T: RealNumber>(rows: &[Vec<f64>]) -> DenseMatrix<T> {
    let v: Vec<Vec<T>> = rows.iter().map(|r| r.iter().map(|x| T::from_f64(*x).unwrap()).collect()).collect();
    DenseMatrix::from_2d_vec(&v)
}

fn vecf<T: RealNumber>(v: &[f64]) -> Vec<T> {
    v.iter().map(|x| T::from_f64(*x).unwrap()).collect()
}

fn wide<T: RealNumber>(v: &[T]) -> Vec<f64> {
    v.iter().map(|x| x.to_f64().unwrap()).collect()
}

fn mat_obs<T: RealNumber>(m: &DenseMatrix<T>) -> ObsB {
    let (r, c) = m.shape();
    let mut v = Vec::with_capacity(r * c);
    for i in 0..r {
        for j in 0..c {
            v.push(m.get(i, j).to_f64().unwrap());
        }
    }
    ObsB { shape: (r, c), d: vec![], c: v }
}

// ---------------------------------------------------------------------------------------------
// the history recorder
// ---------------------------------------------------------------------------------------------

struct Meta {
    ty: &'static str,
    cfg: String,
    det: bool,  // fitting is deterministic (no unseeded randomness)
    sup: bool,  // supervised (has targets)
    prec: u32,  // 64 | 32
    jsonperm: bool,
}

struct Alt<O> {
    role: &'static str, // "refit" | "other"
    how: &'static str,  // "same" | "indep" | "shift" | "rowsonly"
    data: Data,
    obj: Result<Result<O, Failed>, String>,
}

struct Cx {
    out: Out,
    run: i64,
    skipped: usize,
    /// hand-made data sets the NEXT call of `drive` fits before its random ones (so that a
    /// known input class is met on every seed)
    fixed: Vec<Data>,
    /// for fixed[i], an explicitly constructed OTHER training set (alt how = "mirror")
    fixed_other: Vec<Data>,
}

fn status3<A, B>(r: &Result<Result<A, B>, String>) -> &'static str {
    match r {
        Ok(Ok(_)) => "ok",
        Ok(Err(_)) => "err",
        Err(_) => "panic",
    }
}

/// JSON text of the object with the keys of every struct written in REVERSE alphabetical order
/// (serde_json::Value keeps maps sorted; the library's declared field order is nrows, ncols,
/// values, so this is a genuine permutation for DenseMatrix)
fn json_depth(v: &Value) -> usize {
    match v {
        Value::Object(m) => 1 + m.values().map(json_depth).max().unwrap_or(0),
        Value::Array(a) => 1 + a.iter().map(json_depth).max().unwrap_or(0),
        _ => 0,
    }
}

fn json_permuted(v: &Value) -> String {
    match v {
        Value::Object(m) => {
            let mut keys: Vec<&String> = m.keys().collect();
            keys.sort();
            keys.reverse();
            let parts: Vec<String> = keys.iter().map(|k| format!("{}:{}", serde_json::to_string(k).unwrap(), json_permuted(&m[*k]))).collect();
            format!("{{{}}}", parts.join(","))
        }
        Value::Array(a) => {
            let parts: Vec<String> = a.iter().map(json_permuted).collect();
            format!("[{}]", parts.join(","))
        }
        other => serde_json::to_string(other).unwrap(),
    }
}

fn history<O, OBS, P>(cx: &mut Cx, meta: &Meta, a: &O, d: &Data, alts: Vec<Alt<O>>, observe: &OBS, eq: Option<fn(&O, &O) -> bool>)
where
    O: Serialize + DeserializeOwned,
    OBS: Fn(&O, &Data) -> P,
    P: Into<Parts>,
{
    cx.run += 1;
    let run = cx.run;
    let base: ObsR = guard(|| observe(a, d).into());
    let s = match &base {
        Ok(ps) => scale_for(ps),
        _ => 16,
    };
    let dg = state_digest(a);
    let mut built = json!({"run": run, "ev": "Built", "type": meta.ty, "cfg": meta.cfg, "det": meta.det, "sup": meta.sup,
        "prec": meta.prec, "hasEq": eq.is_some(), "n": d.x.len(), "p": d.x.first().map(|r| r.len()).unwrap_or(0),
        "xd": dig_rows(&d.x), "yd": dig_rows(&[d.y.clone()]),
        "obs": obs_value(&base, s), "digok": dg.is_some(), "dig": dig_json(dg.unwrap_or(0))});
    // nesting depth of the object's JSON form (an exact projection of the serialised shape)
    built["jdepth"] = json!(guard(|| serde_json::to_value(a).map(|v| json_depth(&v)).unwrap_or(0)).unwrap_or(0));
    if std::env::var("C19_DUMP").is_ok() {
        // debugging aid: C19_DUMP=1 adds the training data to the Built events
        built["x"] = json!(d.x);
        built["y"] = json!(d.y);
        built["q"] = json!(d.q);
    }
    cx.out.emit(built);

    let mut fmts = vec!["bincode", "json"];
    if meta.jsonperm {
        fmts.push("jsonperm");
    }
    for fmt in fmts {
        // Ser
        let restored: Option<Result<Result<O, String>, String>>;
        match fmt {
            "bincode" => {
                let r = guard(|| bincode::serialize(a).map_err(|e| e.to_string()));
                cx.out.emit(json!({"run": run, "ev": "Ser", "fmt": fmt, "status": status3(&r),
                    "len": r.as_ref().ok().and_then(|x| x.as_ref().ok()).map(|b| b.len()).unwrap_or(0)}));
                restored = match r {
                    Ok(Ok(bytes)) => Some(guard(|| bincode::deserialize::<O>(&bytes).map_err(|e| e.to_string()))),
                    _ => None,
                };
            }
            "json" => {
                let r = guard(|| serde_json::to_string(a).map_err(|e| e.to_string()));
                cx.out.emit(json!({"run": run, "ev": "Ser", "fmt": fmt, "status": status3(&r),
                    "len": r.as_ref().ok().and_then(|x| x.as_ref().ok()).map(|b| b.len()).unwrap_or(0)}));
                restored = match r {
                    Ok(Ok(text)) => Some(guard(|| serde_json::from_str::<O>(&text).map_err(|e| e.to_string()))),
                    _ => None,
                };
            }
            _ => {
                let r = guard(|| serde_json::to_value(a).map(|v| json_permuted(&v)).map_err(|e| e.to_string()));
                cx.out.emit(json!({"run": run, "ev": "Ser", "fmt": fmt, "status": status3(&r),
                    "len": r.as_ref().ok().and_then(|x| x.as_ref().ok()).map(|b| b.len()).unwrap_or(0)}));
                restored = match r {
                    Ok(Ok(text)) => Some(guard(|| serde_json::from_str::<O>(&text).map_err(|e| e.to_string()))),
                    _ => None,
                };
            }
        }
        // De
        if let Some(r) = restored {
            match &r {
                Ok(Ok(b)) => {
                    let ob: ObsR = guard(|| observe(b, d).into());
                    let dg2 = state_digest(b);
                    cx.out.emit(json!({"run": run, "ev": "De", "fmt": fmt, "status": "ok", "obs": obs_value(&ob, s),
                        "digok": dg2.is_some(), "dig": dig_json(dg2.unwrap_or(0))}));
                    if let Some(f) = eq {
                        let e = guard(|| f(a, b));
                        cx.out.emit(json!({"run": run, "ev": "Eq", "kind": "restored", "fmt": fmt,
                            "status": if e.is_ok() { "ok" } else { "panic" }, "result": e.unwrap_or(false)}));
                    }
                }
                _ => {
                    let none: ObsR = Err("none".to_string());
                    cx.out.emit(json!({"run": run, "ev": "De", "fmt": fmt, "status": status3(&r), "obs": obs_value(&none, s),
                        "digok": false, "dig": dig_json(0)}));
                }
            }
        }
    }
    if let Some(f) = eq {
        let e = guard(|| f(a, a));
        cx.out.emit(json!({"run": run, "ev": "Eq", "kind": "self", "fmt": "-",
            "status": if e.is_ok() { "ok" } else { "panic" }, "result": e.unwrap_or(false)}));
    }
    for alt in alts {
        let ob: ObsR = match &alt.obj {
            Ok(Ok(b)) => guard(|| observe(b, d).into()),
            _ => Err("no object".to_string()),
        };
        cx.out.emit(json!({"run": run, "ev": "Alt", "role": alt.role, "how": alt.how, "status": status3(&alt.obj),
            "n": alt.data.x.len(), "xd": dig_rows(&alt.data.x), "yd": dig_rows(&[alt.data.y.clone()]),
            "obs": obs_value(&ob, s)}));
        if let (Ok(Ok(b)), Some(f)) = (&alt.obj, eq) {
            let e = guard(|| f(a, b));
            cx.out.emit(json!({"run": run, "ev": "Eq", "kind": alt.role, "fmt": alt.how,
                "status": if e.is_ok() { "ok" } else { "panic" }, "result": e.unwrap_or(false)}));
        }
        // the same comparison in the other direction (other == original)
        if let (Ok(Ok(b)), Some(f), true) = (&alt.obj, eq, alt.role == "other" && alt.how != "rowsonly") {
            let how_rev = match alt.how { "indep" => "indep-rev", "shift" => "shift-rev", "prefix" => "prefix-rev", "extension" => "extension-rev", "mirror" => "mirror-rev", _ => "other-rev" };
            cx.out.emit(json!({"run": run, "ev": "Alt", "role": alt.role, "how": how_rev, "status": "ok",
                "n": alt.data.x.len(), "xd": dig_rows(&alt.data.x), "yd": dig_rows(&[alt.data.y.clone()]),
                "obs": obs_value(&ob, s)}));
            let e = guard(|| f(b, a));
            cx.out.emit(json!({"run": run, "ev": "Eq", "kind": alt.role, "fmt": how_rev,
                "status": if e.is_ok() { "ok" } else { "panic" }, "result": e.unwrap_or(false)}));
        }
    }
    cx.out.emit(json!({"run": run, "ev": "End"}));
}

/// fit on `reps` random data sets of kind `kind` and record one history per fitted object
fn drive<O, FIT, OBS, P>(cx: &mut Cx, stream: u64, reps: usize, meta: Meta, kind: Kind, p_fixed: Option<usize>, fit: FIT, observe: OBS, eq: Option<fn(&O, &O) -> bool>)
where
    O: Serialize + DeserializeOwned,
    FIT: Fn(&Data) -> Result<O, Failed>,
    OBS: Fn(&O, &Data) -> P,
    P: Into<Parts>,
{
    let mut rng = rng(1900 + stream);
    let fixed: Vec<Data> = std::mem::take(&mut cx.fixed);
    let fixed_other: Vec<Data> = std::mem::take(&mut cx.fixed_other);
    for rep in 0..reps + fixed.len() {
        let d = if rep < fixed.len() { fixed[rep].clone() } else { gen_data(kind, &mut rng, p_fixed) };
        let a = match guard(|| fit(&d)) {
            Ok(Ok(a)) => a,
            _ => {
                // a failing fit is not this property's business
                cx.skipped += 1;
                continue;
            }
        };
        let p = d.x[0].len();
        let mut alts: Vec<Alt<O>> = Vec::new();
        // a second fit on the same data (whether `==` must hold depends on `det`: the spec decides)
        alts.push(Alt { role: "refit", how: "same", data: d.clone(), obj: guard(|| fit(&d)) });
        let ind = {
            let mut o = gen_data(kind, &mut rng, Some(p));
            o.q = d.q.clone();
            o
        };
        let obj = guard(|| fit(&ind));
        if rep < fixed_other.len() {
            let mut mo = fixed_other[rep].clone();
            mo.q = d.q.clone();
            let o = guard(|| fit(&mo));
            alts.push(Alt { role: "other", how: "mirror", data: mo, obj: o });
        }
        // a strict prefix and a strict extension of the training set (rows and targets)
        if d.x.len() >= 4 {
            let pre = prefix_of(&d);
            let o = guard(|| fit(&pre));
            alts.push(Alt { role: "other", how: "prefix", data: pre, obj: o });
        }
        let ext = extension_of(&d, &ind);
        let o = guard(|| fit(&ext));
        alts.push(Alt { role: "other", how: "extension", data: ext, obj: o });
        alts.push(Alt { role: "other", how: "indep", data: ind, obj });
        if !matches!(kind, Kind::Bin | Kind::Cat | Kind::BinZ | Kind::CatZ | Kind::CntZ) {
            let c = [2.0, 3.0, -4.0, 5.0][rng.gen_range(0..4)];
            let dy = [1.0, -2.0, 3.0][rng.gen_range(0..3)];
            let sh = shifted(&d, c, dy, true);
            let obj = guard(|| fit(&sh));
            alts.push(Alt { role: "other", how: "shift", data: sh, obj });
            if meta.sup {
                // different rows, SAME targets: the statement is silent; recorded for information
                let ro = shifted(&d, c, dy, false);
                let obj = guard(|| fit(&ro));
                alts.push(Alt { role: "other", how: "rowsonly", data: ro, obj });
            }
        }
        history(cx, &meta, &a, &d, alts, &observe, eq);
    }
}

fn m(ty: &'static str, cfg: &str, det: bool, sup: bool) -> Meta {
    Meta { ty, cfg: cfg.to_string(), det, sup, prec: 64, jsonperm: false }
}

fn m32(ty: &'static str, cfg: &str, det: bool, sup: bool) -> Meta {
    Meta { ty, cfg: cfg.to_string(), det, sup, prec: 32, jsonperm: false }
}

// observation helpers -------------------------------------------------------------------------

type PartList = Vec<(&'static str, Result<ObsB, Failed>)>;

/// a panic inside ONE method call becomes that method's refusal (status "err"), so that the
/// other methods of the same object are still observed
fn gp<R, F: FnOnce() -> Result<R, Failed>>(f: F) -> Result<R, Failed> {
    match guard(f) {
        Ok(r) => r,
        Err(msg) => Err(Failed::predict(&format!("panic: {}", msg))),
    }
}

fn counts(v: &[usize]) -> ObsB {
    ObsB::disc(v.iter().map(|x| *x as f64).collect())
}
fn counts2(v: &[Vec<usize>]) -> ObsB {
    ObsB::disc(v.iter().flat_map(|r| r.iter().map(|x| *x as f64)).collect())
}
fn counts3(v: &[Vec<Vec<usize>>]) -> ObsB {
    ObsB::disc(v.iter().flat_map(|r| r.iter().flat_map(|q| q.iter().map(|x| *x as f64))).collect())
}
fn vals2(v: &[Vec<f64>]) -> ObsB {
    ObsB::cont(v.iter().flat_map(|r| r.iter().cloned()).collect())
}
fn vals3(v: &[Vec<Vec<f64>>]) -> ObsB {
    ObsB::cont(v.iter().flat_map(|r| r.iter().flat_map(|q| q.iter().cloned())).collect())
}

fn search_obs<'a, F>(d: &Data, find: F) -> Result<ObsB, Failed>
where
    F: Fn(&Vec<f64>, bool) -> Result<Vec<(usize, f64)>, Failed>,
{
    let mut dv = vec![];
    let mut cv = vec![];
    for q in &d.q {
        for radius in [false, true] {
            let mut r = find(q, radius)?;
            // result order is not part of any contract: canonical order (distance, index)
            r.sort_by(|a, b| a.1.partial_cmp(&b.1).unwrap_or(std::cmp::Ordering::Equal).then(a.0.cmp(&b.0)));
            dv.push(r.len() as f64);
            for (i, dist) in r {
                dv.push(i as f64);
                cv.push(dist);
            }
        }
    }
    Ok(ObsB { shape: (d.q.len(), 2), d: dv, c: cv })
}

fn dist_obs<D: Distance<Vec<f64>, f64>>(dist: &D, d: &Data) -> Result<ObsB, Failed> {
    let mut c = vec![];
    for (i, q) in d.q.iter().enumerate() {
        c.push(dist.distance(q, &d.x[i % d.x.len()]));
        c.push(dist.distance(q, &d.q[(i + 1) % d.q.len()]));
    }
    Ok(ObsB::cont(c))
}

fn kernel_obs<K: Kernel<f64, Vec<f64>>>(k: &K, d: &Data) -> Result<ObsB, Failed> {
    let mut c = vec![];
    for (i, q) in d.q.iter().enumerate() {
        c.push(k.apply(q, &d.x[i % d.x.len()]));
        c.push(k.apply(q, q));
    }
    Ok(ObsB::cont(c))
}

// ---------------------------------------------------------------------------------------------
// the catalogue of types
// ---------------------------------------------------------------------------------------------

fn gen_models(path: &str) {
    let reps = if thorough() { 400 } else { 25 };
    let mut cx = Cx { out: Out::create(path), run: 0, skipped: 0, fixed: vec![], fixed_other: vec![] };
    let cx = &mut cx;
    let mut st = 0u64;
    let mut next = || {
        st += 1;
        st
    };

    // ---- linear models -----------------------------------------------------------------------
    for (name, solver) in [("svd", LinearRegressionSolverName::SVD), ("qr", LinearRegressionSolverName::QR)] {
        let sv = solver.clone();
        drive(cx, next(), reps, m("LinearRegression", name, true, true), Kind::Reg, None,
            move |d: &Data| LinearRegression::fit(&mat::<f64>(&d.x), &d.y, LinearRegressionParameters { solver: sv.clone() }),
            |o: &LinearRegression<f64, M64>, d: &Data| -> PartList { vec![("predict", o.predict(&mat(&d.q)).map(ObsB::cont)),
                ("coefficients", Ok(mat_obs(o.coefficients()))), ("intercept", Ok(ObsB::cont(vec![o.intercept()])))] },
            Some(|a, b| a == b));
    }
    drive(cx, next(), reps, m32("LinearRegression", "qr-f32", true, true), Kind::Reg, None,
        |d: &Data| LinearRegression::fit(&mat::<f32>(&d.x), &vecf::<f32>(&d.y), LinearRegressionParameters { solver: LinearRegressionSolverName::QR }),
        |o: &LinearRegression<f32, M32>, d: &Data| -> PartList { vec![("predict", o.predict(&mat(&d.q)).map(|v| ObsB::cont(wide(&v)))),
            ("coefficients", Ok(mat_obs(o.coefficients()))), ("intercept", Ok(ObsB::cont(vec![o.intercept() as f64])))] },
        Some(|a, b| a == b));
    for (name, solver, norm) in [("cholesky-norm", RidgeRegressionSolverName::Cholesky, true), ("svd-raw", RidgeRegressionSolverName::SVD, false)] {
        let sv = solver.clone();
        drive(cx, next(), reps, m("RidgeRegression", name, true, true), Kind::Reg, None,
            move |d: &Data| RidgeRegression::fit(&mat::<f64>(&d.x), &d.y, RidgeRegressionParameters { solver: sv.clone(), alpha: 0.5, normalize: norm }),
            |o: &RidgeRegression<f64, M64>, d: &Data| -> PartList { vec![("predict", o.predict(&mat(&d.q)).map(ObsB::cont)),
                ("coefficients", Ok(mat_obs(o.coefficients()))), ("intercept", Ok(ObsB::cont(vec![o.intercept()])))] },
            Some(|a, b| a == b));
    }
    drive(cx, next(), reps, m("Lasso", "alpha=0.5", true, true), Kind::Reg, None,
        |d: &Data| Lasso::fit(&mat::<f64>(&d.x), &d.y, LassoParameters::default().with_alpha(0.5)),
        |o: &Lasso<f64, M64>, d: &Data| -> PartList { vec![("predict", o.predict(&mat(&d.q)).map(ObsB::cont)),
                ("coefficients", Ok(mat_obs(o.coefficients()))), ("intercept", Ok(ObsB::cont(vec![o.intercept()])))] },
        Some(|a, b| a == b));
    drive(cx, next(), reps, m("ElasticNet", "alpha=0.5,l1=0.5", true, true), Kind::Reg, None,
        |d: &Data| ElasticNet::fit(&mat::<f64>(&d.x), &d.y, ElasticNetParameters::default().with_alpha(0.5).with_l1_ratio(0.5)),
        |o: &ElasticNet<f64, M64>, d: &Data| -> PartList { vec![("predict", o.predict(&mat(&d.q)).map(ObsB::cont)),
                ("coefficients", Ok(mat_obs(o.coefficients()))), ("intercept", Ok(ObsB::cont(vec![o.intercept()])))] },
        Some(|a, b| a == b));
    for (name, kind) in [("binary", Kind::Cls2), ("multiclass", Kind::Cls3)] {
        if name == "binary" {
            // met on every seed: six rows in four dimensions, linearly separable -- the L-BFGS fit
            // runs away and returns Ok with NaN coefficients (found by the seed sweep)
            cx.fixed = vec![Data { kind: Kind::Cls2,
                x: vec![vec![6., -5., 2., -3.], vec![1., -4., 1., 2.], vec![-4., -2., 6., -2.], vec![-5., 2., -4., 6.], vec![-1., -2., -5., -4.], vec![4., 0., 6., 2.]],
                y: vec![3., 3., 2., 3., 2., 3.],
                q: vec![vec![-5., -6., 4., -4.], vec![-3., -6., 8., -5.], vec![-3., 7., -6., 7.], vec![3., -1., 3., 1.], vec![-1., 6., -2., -5.], vec![-1., 5., 2., -2.]] }];
        }
        drive(cx, next(), reps, m("LogisticRegression", name, true, true), kind, None,
            |d: &Data| LogisticRegression::fit(&mat::<f64>(&d.x), &d.y, Default::default()),
            |o: &LogisticRegression<f64, M64>, d: &Data| -> PartList { vec![("predict", o.predict(&mat(&d.q)).map(ObsB::disc)),
                ("coefficients", Ok(mat_obs(o.coefficients()))), ("intercept", Ok(mat_obs(o.intercept())))] },
            Some(|a, b| a == b));
    }

    // ---- k-NN --------------------------------------------------------------------------------
    for (name, algo, w) in [
        ("cover-uniform", KNNAlgorithmName::CoverTree, KNNWeightFunction::Uniform),
        ("linear-distance", KNNAlgorithmName::LinearSearch, KNNWeightFunction::Distance),
    ] {
        let (a1, w1) = (algo.clone(), w.clone());
        drive(cx, next(), reps, m("KNNClassifier", name, true, true), Kind::Cls3, None,
            move |d: &Data| KNNClassifier::fit(&mat::<f64>(&d.x), &d.y, KNNClassifierParameters::default().with_k(3).with_algorithm(a1.clone()).with_weight(w1.clone())),
            |o: &KNNClassifier<f64, Euclidian>, d: &Data| o.predict(&mat::<f64>(&d.q)).map(ObsB::disc),
            Some(|a, b| a == b));
        let (a2, w2) = (algo.clone(), w.clone());
        drive(cx, next(), reps, m("KNNRegressor", name, true, true), Kind::Reg, None,
            move |d: &Data| KNNRegressor::fit(&mat::<f64>(&d.x), &d.y, KNNRegressorParameters::default().with_k(2).with_algorithm(a2.clone()).with_weight(w2.clone())),
            |o: &KNNRegressor<f64, Euclidian>, d: &Data| o.predict(&mat::<f64>(&d.q)).map(ObsB::cont),
            Some(|a, b| a == b));
    }
    drive(cx, next(), reps, m("KNNRegressor", "cover-manhattan", true, true), Kind::Reg, None,
        |d: &Data| KNNRegressor::fit(&mat::<f64>(&d.x), &d.y, KNNRegressorParameters::default().with_distance(Distances::manhattan()).with_k(3)),
        |o: &KNNRegressor<f64, Manhattan>, d: &Data| o.predict(&mat::<f64>(&d.q)).map(ObsB::cont),
        Some(|a, b| a == b));

    // ---- trees and forests -------------------------------------------------------------------
    for (name, crit) in [("gini", SplitCriterion::Gini), ("entropy", SplitCriterion::Entropy), ("classerr", SplitCriterion::ClassificationError)] {
        let c1 = crit.clone();
        drive(cx, next(), reps, m("DecisionTreeClassifier", name, true, true), Kind::Cls3, None,
            move |d: &Data| DecisionTreeClassifier::fit(&mat::<f64>(&d.x), &d.y,
                DecisionTreeClassifierParameters { criterion: c1.clone(), max_depth: None, min_samples_leaf: 1, min_samples_split: 2 }),
            |o: &DecisionTreeClassifier<f64>, d: &Data| o.predict(&mat::<f64>(&d.q)).map(ObsB::disc),
            Some(|a, b| a == b));
    }
    drive(cx, next(), reps, m("DecisionTreeRegressor", "default", true, true), Kind::Reg, None,
        |d: &Data| DecisionTreeRegressor::fit(&mat::<f64>(&d.x), &d.y, DecisionTreeRegressorParameters { max_depth: None, min_samples_leaf: 1, min_samples_split: 2 }),
        |o: &DecisionTreeRegressor<f64>, d: &Data| o.predict(&mat::<f64>(&d.q)).map(ObsB::cont),
        Some(|a, b| a == b));
    drive(cx, next(), reps, m32("DecisionTreeRegressor", "f32-depth3", true, true), Kind::Reg, None,
        |d: &Data| DecisionTreeRegressor::fit(&mat::<f32>(&d.x), &vecf::<f32>(&d.y), DecisionTreeRegressorParameters { max_depth: Some(3), min_samples_leaf: 2, min_samples_split: 2 }),
        |o: &DecisionTreeRegressor<f32>, d: &Data| o.predict(&mat::<f32>(&d.q)).map(|v| ObsB::cont(wide(&v))),
        Some(|a, b| a == b));
    for keep in [false, true] {
        drive(cx, next(), reps, m("RandomForestClassifier", if keep { "keep-samples" } else { "default" }, true, true), Kind::Cls3, None,
            move |d: &Data| RandomForestClassifier::fit(&mat::<f64>(&d.x), &d.y,
                RandomForestClassifierParameters { criterion: SplitCriterion::Gini, max_depth: None, min_samples_leaf: 1, min_samples_split: 2,
                    n_trees: if keep { 12 } else { 5 }, m: None, keep_samples: keep, seed: 17 + d.x.len() as u64 }),
            |o: &RandomForestClassifier<f64>, d: &Data| -> PartList { vec![("predict", o.predict(&mat::<f64>(&d.q)).map(ObsB::disc)),
                // out-of-bag predictions on the training matrix (refused unless keep_samples was set)
                ("predict_oob", o.predict_oob(&mat::<f64>(&d.x)).map(ObsB::disc))] },
            Some(|a, b| a == b));
        drive(cx, next(), reps, m("RandomForestRegressor", if keep { "keep-samples" } else { "default" }, true, true), Kind::Reg, None,
            move |d: &Data| RandomForestRegressor::fit(&mat::<f64>(&d.x), &d.y,
                RandomForestRegressorParameters { max_depth: None, min_samples_leaf: 1, min_samples_split: 2,
                    n_trees: if keep { 12 } else { 5 }, m: None, keep_samples: keep, seed: 23 + d.x.len() as u64 }),
            |o: &RandomForestRegressor<f64>, d: &Data| -> PartList { vec![("predict", o.predict(&mat::<f64>(&d.q)).map(ObsB::cont)),
                ("predict_oob", o.predict_oob(&mat::<f64>(&d.x)).map(ObsB::cont))] },
            Some(|a, b| a == b));
    }

    // ---- naive Bayes -------------------------------------------------------------------------
    drive(cx, next(), reps, m("GaussianNB", "default", true, true), Kind::Cls3, None,
        |d: &Data| GaussianNB::fit(&mat::<f64>(&d.x), &d.y, Default::default()),
        |o: &GaussianNB<f64, M64>, d: &Data| -> PartList { vec![("predict", gp(|| o.predict(&mat(&d.q)).map(ObsB::disc))),
            ("classes", Ok(ObsB::disc(o.classes().clone()))), ("class_count", Ok(counts(o.class_count()))),
            ("class_priors", Ok(ObsB::cont(o.class_priors().clone()))), ("theta", Ok(vals2(o.theta()))), ("var", Ok(vals2(o.var())))] },
        Some(|a, b| a == b));
    drive(cx, next(), reps, m("BernoulliNB", "alpha=1", true, true), Kind::Bin, None,
        |d: &Data| BernoulliNB::fit(&mat::<f64>(&d.x), &d.y, BernoulliNBParameters::default()),
        |o: &BernoulliNB<f64, M64>, d: &Data| -> PartList { vec![("predict", gp(|| o.predict(&mat(&d.q)).map(ObsB::disc))),
            ("classes", Ok(ObsB::disc(o.classes().clone()))), ("class_count", Ok(counts(o.class_count()))),
            ("n_features", Ok(counts(&[o.n_features()]))), ("feature_count", Ok(counts2(o.feature_count()))),
            ("feature_log_prob", Ok(vals2(o.feature_log_prob())))] },
        Some(|a, b| a == b));
    drive(cx, next(), reps, m("MultinomialNB", "alpha=1", true, true), Kind::Cnt, None,
        |d: &Data| MultinomialNB::fit(&mat::<f64>(&d.x), &d.y, MultinomialNBParameters::default()),
        |o: &MultinomialNB<f64, M64>, d: &Data| -> PartList { vec![("predict", gp(|| o.predict(&mat(&d.q)).map(ObsB::disc))),
            ("classes", Ok(ObsB::disc(o.classes().clone()))), ("class_count", Ok(counts(o.class_count()))),
            ("n_features", Ok(counts(&[o.n_features()]))), ("feature_count", Ok(counts2(o.feature_count()))),
            ("feature_log_prob", Ok(vals2(o.feature_log_prob())))] },
        Some(|a, b| a == b));
    drive(cx, next(), reps, m("CategoricalNB", "alpha=1", true, true), Kind::Cat, None,
        |d: &Data| CategoricalNB::fit(&mat::<f64>(&d.x), &d.y, CategoricalNBParameters::default()),
        |o: &CategoricalNB<f64, M64>, d: &Data| -> PartList { vec![("predict", gp(|| o.predict(&mat(&d.q)).map(ObsB::disc))),
            ("classes", Ok(ObsB::disc(o.classes().clone()))), ("class_count", Ok(counts(o.class_count()))),
            ("n_features", Ok(counts(&[o.n_features()]))), ("n_categories", Ok(counts(o.n_categories()))),
            ("category_count", Ok(counts3(o.category_count()))), ("feature_log_prob", Ok(vals3(o.feature_log_prob())))] },
        Some(|a, b| a == b));

    // the same without smoothing on data with structural zeros: the stored log-probabilities contain -inf
    drive(cx, next(), reps, m("BernoulliNB", "alpha=0", true, true), Kind::BinZ, None,
        |d: &Data| BernoulliNB::fit(&mat::<f64>(&d.x), &d.y, BernoulliNBParameters::default().with_alpha(0.0)),
        |o: &BernoulliNB<f64, M64>, d: &Data| -> PartList { vec![("predict", gp(|| o.predict(&mat(&d.q)).map(ObsB::disc))),
            ("classes", Ok(ObsB::disc(o.classes().clone()))), ("class_count", Ok(counts(o.class_count()))),
            ("n_features", Ok(counts(&[o.n_features()]))), ("feature_count", Ok(counts2(o.feature_count()))),
            ("feature_log_prob", Ok(vals2(o.feature_log_prob())))] },
        Some(|a, b| a == b));
    // met on every seed: the first class has NO counts at all, so without smoothing its
    // log-probabilities are ln(0/0) = NaN (and the second class never shows feature ... -> -inf)
    cx.fixed = vec![Data { kind: Kind::CntZ,
        x: vec![vec![0., 0.], vec![0., 0.], vec![0., 0.], vec![1., 2.], vec![2., 1.], vec![3., 1.], vec![0., 2.], vec![1., 0.]],
        y: vec![0., 0., 0., 1., 1., 1., 1., 1.],
        q: vec![vec![1., 0.], vec![0., 2.], vec![2., 2.], vec![0., 0.], vec![1., 1.], vec![3., 0.]] },
        Data { kind: Kind::CntZ,
        x: vec![vec![0., 1.], vec![0., 3.], vec![0., 2.], vec![1., 2.], vec![2., 1.], vec![3., 1.], vec![0., 2.], vec![1., 0.]],
        y: vec![0., 0., 0., 1., 1., 1., 1., 1.],
        q: vec![vec![1., 0.], vec![0., 2.], vec![2., 2.], vec![0., 0.], vec![1., 1.], vec![3., 0.]] }];
    drive(cx, next(), reps, m("MultinomialNB", "alpha=0", true, true), Kind::CntZ, None,
        |d: &Data| MultinomialNB::fit(&mat::<f64>(&d.x), &d.y, MultinomialNBParameters::default().with_alpha(0.0)),
        |o: &MultinomialNB<f64, M64>, d: &Data| -> PartList { vec![("predict", gp(|| o.predict(&mat(&d.q)).map(ObsB::disc))),
            ("classes", Ok(ObsB::disc(o.classes().clone()))), ("class_count", Ok(counts(o.class_count()))),
            ("n_features", Ok(counts(&[o.n_features()]))), ("feature_count", Ok(counts2(o.feature_count()))),
            ("feature_log_prob", Ok(vals2(o.feature_log_prob())))] },
        Some(|a, b| a == b));
    // met on every seed: labels {0,1} (category 2 of feature 0 unseen in class 0 -> -inf) and the
    // same data with labels {1,2} (CategoricalNB indexes classes by label value, class 0 is then
    // empty -> ln(0/0) = NaN)
    {
        let x = vec![vec![0., 1.], vec![1., 0.], vec![0., 2.], vec![1., 1.], vec![2., 0.], vec![2., 2.], vec![1., 2.], vec![2., 1.]];
        let q = vec![vec![0., 0.], vec![1., 2.], vec![2., 1.], vec![0., 2.], vec![1., 1.], vec![2., 2.]];
        cx.fixed = vec![
            Data { kind: Kind::CatZ, x: x.clone(), y: vec![0., 0., 0., 0., 1., 1., 1., 1.], q: q.clone() },
            Data { kind: Kind::CatZ, x, y: vec![1., 1., 1., 1., 2., 2., 2., 2.], q },
        ];
    }
    drive(cx, next(), reps, m("CategoricalNB", "alpha=0", true, true), Kind::CatZ, None,
        |d: &Data| CategoricalNB::fit(&mat::<f64>(&d.x), &d.y, CategoricalNBParameters::default().with_alpha(0.0)),
        |o: &CategoricalNB<f64, M64>, d: &Data| -> PartList { vec![("predict", gp(|| o.predict(&mat(&d.q)).map(ObsB::disc))),
            ("classes", Ok(ObsB::disc(o.classes().clone()))), ("class_count", Ok(counts(o.class_count()))),
            ("n_features", Ok(counts(&[o.n_features()]))), ("n_categories", Ok(counts(o.n_categories()))),
            ("category_count", Ok(counts3(o.category_count()))), ("feature_log_prob", Ok(vals3(o.feature_log_prob())))] },
        Some(|a, b| a == b));

    // ---- support vector machines, each kernel --------------------------------------------------
    fn svc_obs<K: Kernel<f64, Vec<f64>>>(o: &SVC<f64, M64, K>, d: &Data) -> PartList {
        let q = mat::<f64>(&d.q);
        vec![("predict", o.predict(&q).map(ObsB::disc)), ("decision_function", o.decision_function(&q).map(ObsB::cont))]
    }
    drive(cx, next(), reps, m("SVC", "linear", false, true), Kind::Cls2, None,
        |d: &Data| SVC::fit(&mat::<f64>(&d.x), &d.y, SVCParameters::default().with_c(1.0)),
        svc_obs::<LinearKernel>, Some(|a, b| a == b));
    drive(cx, next(), reps, m("SVC", "rbf", false, true), Kind::Cls2, None,
        |d: &Data| SVC::fit(&mat::<f64>(&d.x), &d.y, SVCParameters::default().with_c(2.0).with_kernel(Kernels::rbf(0.125))),
        svc_obs::<RBFKernel<f64>>, Some(|a, b| a == b));
    drive(cx, next(), reps, m("SVC", "polynomial", false, true), Kind::Cls2, None,
        |d: &Data| SVC::fit(&mat::<f64>(&d.x), &d.y, SVCParameters::default().with_c(1.0).with_kernel(Kernels::polynomial(2.0, 0.25, 1.0))),
        svc_obs::<PolynomialKernel<f64>>, Some(|a, b| a == b));
    drive(cx, next(), reps, m("SVC", "sigmoid", false, true), Kind::Cls2, None,
        |d: &Data| SVC::fit(&mat::<f64>(&d.x), &d.y, SVCParameters::default().with_c(1.0).with_kernel(Kernels::sigmoid(0.0625, 0.5))),
        svc_obs::<SigmoidKernel<f64>>, Some(|a, b| a == b));
    drive(cx, next(), reps, m("SVR", "linear", true, true), Kind::Reg, None,
        |d: &Data| SVR::fit(&mat::<f64>(&d.x), &d.y, SVRParameters::default().with_eps(0.5).with_c(2.0)),
        |o: &SVR<f64, M64, LinearKernel>, d: &Data| o.predict(&mat(&d.q)).map(ObsB::cont), Some(|a, b| a == b));
    drive(cx, next(), reps, m("SVR", "rbf", true, true), Kind::Reg, None,
        |d: &Data| SVR::fit(&mat::<f64>(&d.x), &d.y, SVRParameters::default().with_eps(0.5).with_c(2.0).with_kernel(Kernels::rbf(0.125))),
        |o: &SVR<f64, M64, RBFKernel<f64>>, d: &Data| o.predict(&mat(&d.q)).map(ObsB::cont), Some(|a, b| a == b));
    drive(cx, next(), reps, m("SVR", "polynomial", true, true), Kind::Reg, None,
        |d: &Data| SVR::fit(&mat::<f64>(&d.x), &d.y, SVRParameters::default().with_eps(0.5).with_c(0.5).with_kernel(Kernels::polynomial(2.0, 0.125, 1.0))),
        |o: &SVR<f64, M64, PolynomialKernel<f64>>, d: &Data| o.predict(&mat(&d.q)).map(ObsB::cont), Some(|a, b| a == b));
    drive(cx, next(), reps, m("SVR", "sigmoid", true, true), Kind::Reg, None,
        |d: &Data| SVR::fit(&mat::<f64>(&d.x), &d.y, SVRParameters::default().with_eps(0.5).with_c(1.0).with_kernel(Kernels::sigmoid(0.0625, 0.5))),
        |o: &SVR<f64, M64, SigmoidKernel<f64>>, d: &Data| o.predict(&mat(&d.q)).map(ObsB::cont), Some(|a, b| a == b));

    // ---- clustering --------------------------------------------------------------------------
    for k in [2usize, 3] {
        drive(cx, next(), reps, m("KMeans", &format!("k={}", k), false, false), Kind::Blob, None,
            move |d: &Data| KMeans::fit(&mat::<f64>(&d.x), KMeansParameters::default().with_k(k)),
            |o: &KMeans<f64>, d: &Data| o.predict(&mat::<f64>(&d.q)).map(ObsB::disc),
            Some(|a, b| a == b));
    }
    for (name, algo, eps, ms) in [("cover-eps2.5-min3", KNNAlgorithmName::CoverTree, 2.5, 3usize), ("linear-eps1.5-min2", KNNAlgorithmName::LinearSearch, 1.5, 2usize)] {
        let a1 = algo.clone();
        drive(cx, next(), reps, m("DBSCAN", name, true, false), Kind::Blob, None,
            move |d: &Data| DBSCAN::fit(&mat::<f64>(&d.x), DBSCANParameters::default().with_eps(eps).with_min_samples(ms).with_algorithm(a1.clone())),
            |o: &DBSCAN<f64, Euclidian>, d: &Data| o.predict(&mat::<f64>(&d.q)).map(ObsB::disc),
            Some(|a, b| a == b));
    }

    // ---- decompositions ----------------------------------------------------------------------
    for (name, corr, nc) in [("cov-k1", false, 1usize), ("cov-k2", false, 2usize), ("corr-k2", true, 2usize)] {
        drive(cx, next(), reps, m("PCA", name, true, false), Kind::Blob, None,
            move |d: &Data| PCA::fit(&mat::<f64>(&d.x), PCAParameters::default().with_n_components(nc).with_use_correlation_matrix(corr)),
            |o: &PCA<f64, M64>, d: &Data| -> PartList { vec![("transform", o.transform(&mat(&d.q)).map(|t| mat_obs(&t))), ("components", Ok(mat_obs(o.components())))] },
            Some(|a, b| a == b));
    }
    drive(cx, next(), reps, m("PCA", "cov-k2-reg", true, false), Kind::Reg, Some(3),
        |d: &Data| PCA::fit(&mat::<f64>(&d.x), PCAParameters::default().with_n_components(2)),
        |o: &PCA<f64, M64>, d: &Data| -> PartList { vec![("transform", o.transform(&mat(&d.q)).map(|t| mat_obs(&t))), ("components", Ok(mat_obs(o.components())))] },
        Some(|a, b| a == b));
    for nc in [1usize, 2] {
        drive(cx, next(), reps, m("SVD", &format!("k={}", nc), true, false), Kind::Blob, None,
            move |d: &Data| SVD::fit(&mat::<f64>(&d.x), SVDParameters::default().with_n_components(nc)),
            |o: &SVD<f64, M64>, d: &Data| -> PartList { vec![("transform", o.transform(&mat(&d.q)).map(|t| mat_obs(&t))), ("components", Ok(mat_obs(o.components())))] },
            Some(|a, b| a == b));
    }

    // ---- degenerate but valid fitted states ---------------------------------------------------
    let dreps = std::cmp::max(3, reps / 3);
    // an SVR whose eps-tube swallows every target: no support vectors at all
    drive(cx, next(), dreps, m("SVR", "linear-no-sv", true, true), Kind::RegFlat, None,
        |d: &Data| SVR::fit(&mat::<f64>(&d.x), &d.y, SVRParameters::default().with_eps(0.5).with_c(1.0)),
        |o: &SVR<f64, M64, LinearKernel>, d: &Data| o.predict(&mat(&d.q)).map(ObsB::cont), Some(|a, b| a == b));
    drive(cx, next(), dreps, m("SVR", "rbf-no-sv", true, true), Kind::RegFlat, None,
        |d: &Data| SVR::fit(&mat::<f64>(&d.x), &d.y, SVRParameters::default().with_eps(0.5).with_c(1.0).with_kernel(Kernels::rbf(0.125))),
        |o: &SVR<f64, M64, RBFKernel<f64>>, d: &Data| o.predict(&mat(&d.q)).map(ObsB::cont), Some(|a, b| a == b));
    drive(cx, next(), dreps, m("SVC", "linear-tiny-c", false, true), Kind::Cls2, None,
        |d: &Data| SVC::fit(&mat::<f64>(&d.x), &d.y, SVCParameters::default().with_c(1e-6)),
        svc_obs::<LinearKernel>, Some(|a, b| a == b));
    // trees that are a single leaf; forests of one tree
    drive(cx, next(), dreps, m("DecisionTreeClassifier", "single-leaf", true, true), Kind::Cls3, None,
        |d: &Data| DecisionTreeClassifier::fit(&mat::<f64>(&d.x), &d.y,
            DecisionTreeClassifierParameters { criterion: SplitCriterion::Gini, max_depth: None, min_samples_leaf: 1, min_samples_split: 1000 }),
        |o: &DecisionTreeClassifier<f64>, d: &Data| o.predict(&mat::<f64>(&d.q)).map(ObsB::disc),
        Some(|a, b| a == b));
    drive(cx, next(), dreps, m("DecisionTreeRegressor", "single-leaf", true, true), Kind::Reg, None,
        |d: &Data| DecisionTreeRegressor::fit(&mat::<f64>(&d.x), &d.y, DecisionTreeRegressorParameters { max_depth: None, min_samples_leaf: 1, min_samples_split: 1000 }),
        |o: &DecisionTreeRegressor<f64>, d: &Data| o.predict(&mat::<f64>(&d.q)).map(ObsB::cont),
        Some(|a, b| a == b));
    drive(cx, next(), dreps, m("RandomForestClassifier", "one-tree-keep-samples", true, true), Kind::Cls2, None,
        |d: &Data| RandomForestClassifier::fit(&mat::<f64>(&d.x), &d.y,
            RandomForestClassifierParameters { criterion: SplitCriterion::Gini, max_depth: Some(2), min_samples_leaf: 1, min_samples_split: 2,
                n_trees: 1, m: None, keep_samples: true, seed: 5 }),
        |o: &RandomForestClassifier<f64>, d: &Data| -> PartList { vec![("predict", o.predict(&mat::<f64>(&d.q)).map(ObsB::disc)),
            ("predict_oob", o.predict_oob(&mat::<f64>(&d.x)).map(ObsB::disc))] },
        Some(|a, b| a == b));
    drive(cx, next(), dreps, m("RandomForestRegressor", "one-tree-keep-samples", true, true), Kind::Reg, None,
        |d: &Data| RandomForestRegressor::fit(&mat::<f64>(&d.x), &d.y,
            RandomForestRegressorParameters { max_depth: Some(2), min_samples_leaf: 1, min_samples_split: 2,
                n_trees: 1, m: None, keep_samples: true, seed: 5 }),
        |o: &RandomForestRegressor<f64>, d: &Data| -> PartList { vec![("predict", o.predict(&mat::<f64>(&d.q)).map(ObsB::cont)),
            ("predict_oob", o.predict_oob(&mat::<f64>(&d.x)).map(ObsB::cont))] },
        Some(|a, b| a == b));
    // a single class
    drive(cx, next(), dreps, m("GaussianNB", "single-class", true, true), Kind::Cls1, None,
        |d: &Data| GaussianNB::fit(&mat::<f64>(&d.x), &d.y, Default::default()),
        |o: &GaussianNB<f64, M64>, d: &Data| -> PartList { vec![("predict", gp(|| o.predict(&mat(&d.q)).map(ObsB::disc))),
            ("classes", Ok(ObsB::disc(o.classes().clone()))), ("class_priors", Ok(ObsB::cont(o.class_priors().clone()))),
            ("theta", Ok(vals2(o.theta()))), ("var", Ok(vals2(o.var())))] },
        Some(|a, b| a == b));
    drive(cx, next(), dreps, m("DecisionTreeClassifier", "single-class", true, true), Kind::Cls1, None,
        |d: &Data| DecisionTreeClassifier::fit(&mat::<f64>(&d.x), &d.y, Default::default()),
        |o: &DecisionTreeClassifier<f64>, d: &Data| o.predict(&mat::<f64>(&d.q)).map(ObsB::disc),
        Some(|a, b| a == b));
    drive(cx, next(), dreps, m("KNNClassifier", "single-class", true, true), Kind::Cls1, None,
        |d: &Data| KNNClassifier::fit(&mat::<f64>(&d.x), &d.y, KNNClassifierParameters::default().with_k(3)),
        |o: &KNNClassifier<f64, Euclidian>, d: &Data| o.predict(&mat::<f64>(&d.q)).map(ObsB::disc),
        Some(|a, b| a == b));
    // clusterings: more centroids than clusters, nothing but noise, one cluster for everything
    drive(cx, next(), dreps, m("KMeans", "k=5", false, false), Kind::Blob, None,
        |d: &Data| KMeans::fit(&mat::<f64>(&d.x), KMeansParameters::default().with_k(5)),
        |o: &KMeans<f64>, d: &Data| o.predict(&mat::<f64>(&d.q)).map(ObsB::disc),
        Some(|a, b| a == b));
    drive(cx, next(), dreps, m("DBSCAN", "all-noise", true, false), Kind::Blob, None,
        |d: &Data| DBSCAN::fit(&mat::<f64>(&d.x), DBSCANParameters::default().with_eps(0.25).with_min_samples(5)),
        |o: &DBSCAN<f64, Euclidian>, d: &Data| o.predict(&mat::<f64>(&d.q)).map(ObsB::disc),
        Some(|a, b| a == b));
    drive(cx, next(), dreps, m("DBSCAN", "one-cluster", true, false), Kind::Blob, None,
        |d: &Data| DBSCAN::fit(&mat::<f64>(&d.x), DBSCANParameters::default().with_eps(200.0).with_min_samples(2).with_algorithm(KNNAlgorithmName::LinearSearch)),
        |o: &DBSCAN<f64, Euclidian>, d: &Data| o.predict(&mat::<f64>(&d.q)).map(ObsB::disc),
        Some(|a, b| a == b));
    // all components kept (k = p)
    drive(cx, next(), dreps, m("PCA", "cov-k=p=2", true, false), Kind::Blob, Some(2),
        |d: &Data| PCA::fit(&mat::<f64>(&d.x), PCAParameters::default().with_n_components(2)),
        |o: &PCA<f64, M64>, d: &Data| -> PartList { vec![("transform", o.transform(&mat(&d.q)).map(|t| mat_obs(&t))), ("components", Ok(mat_obs(o.components())))] },
        Some(|a, b| a == b));
    drive(cx, next(), dreps, m("SVD", "k=p=2", true, false), Kind::Blob, Some(2),
        |d: &Data| SVD::fit(&mat::<f64>(&d.x), SVDParameters::default().with_n_components(2)),
        |o: &SVD<f64, M64>, d: &Data| -> PartList { vec![("transform", o.transform(&mat(&d.q)).map(|t| mat_obs(&t))), ("components", Ok(mat_obs(o.components())))] },
        Some(|a, b| a == b));
    // search structures over two or three points
    drive(cx, next(), dreps, m("CoverTree", "tiny", true, false), Kind::Tiny, None,
        |d: &Data| CoverTree::new(d.x.clone(), Distances::euclidian()),
        |o: &CoverTree<Vec<f64>, f64, Euclidian>, d: &Data| search_obs(d, |q, radius| {
            let r = if radius { o.find_radius(q, 3.0)? } else { o.find(q, 1)? };
            Ok(r.into_iter().map(|(i, dist, _)| (i, dist)).collect())
        }),
        Some(|a, b| a == b));
    drive(cx, next(), dreps, m("LinearKNNSearch", "tiny", true, false), Kind::Tiny, None,
        |d: &Data| LinearKNNSearch::new(d.x.clone(), Distances::euclidian()),
        |o: &LinearKNNSearch<Vec<f64>, f64, Euclidian>, d: &Data| search_obs(d, |q, radius| {
            let r = if radius { o.find_radius(q, 3.0)? } else { o.find(q, 1)? };
            Ok(r.into_iter().map(|(i, dist, _)| (i, dist)).collect())
        }),
        Some(|a, b| a == b));

    // ---- rarely compared pairs: same node count and depth, different topology --------------------
    {
        let mut r = rng(1998);
        let k = if thorough() { 12 } else { 4 };
        let (mut fa, mut fb) = (vec![], vec![]);
        for _ in 0..k {
            let (a, b) = mirror_pair(&mut r, false);
            fa.push(a.clone()); fb.push(b.clone());
            fa.push(b); fb.push(a);
        }
        cx.fixed = fa.clone();
        cx.fixed_other = fb.clone();
        drive(cx, next(), 0, m("DecisionTreeRegressor", "mirror-topology", true, true), Kind::Reg, Some(1),
            |d: &Data| DecisionTreeRegressor::fit(&mat::<f64>(&d.x), &d.y, DecisionTreeRegressorParameters { max_depth: None, min_samples_leaf: 1, min_samples_split: 4 }),
            |o: &DecisionTreeRegressor<f64>, d: &Data| o.predict(&mat::<f64>(&d.q)).map(ObsB::cont),
            Some(|a, b| a == b));
        let (mut ca, mut cb) = (vec![], vec![]);
        for _ in 0..k {
            let (a, b) = mirror_pair(&mut r, true);
            ca.push(a.clone()); cb.push(b.clone());
            ca.push(b); cb.push(a);
        }
        cx.fixed = ca;
        cx.fixed_other = cb;
        drive(cx, next(), 0, m("DecisionTreeClassifier", "mirror-topology", true, true), Kind::Cls2, Some(1),
            |d: &Data| DecisionTreeClassifier::fit(&mat::<f64>(&d.x), &d.y,
                DecisionTreeClassifierParameters { criterion: SplitCriterion::Gini, max_depth: None, min_samples_leaf: 1, min_samples_split: 4 }),
            |o: &DecisionTreeClassifier<f64>, d: &Data| o.predict(&mat::<f64>(&d.q)).map(ObsB::disc),
            Some(|a, b| a == b));
    }

    // ---- size ladder: training sets and query batches that cross internal block sizes -----------
    let breps = if thorough() { 8 } else { 2 };
    drive(cx, next(), breps, m("LinearRegression", "ladder", true, true), Kind::Big, None,
        |d: &Data| LinearRegression::fit(&mat::<f64>(&d.x), &d.y, Default::default()),
        |o: &LinearRegression<f64, M64>, d: &Data| -> PartList { vec![("predict", o.predict(&mat(&d.q)).map(ObsB::cont)),
            ("Predictor::predict", Predictor::predict(o, &mat(&d.q)).map(ObsB::cont)),
            ("coefficients", Ok(mat_obs(o.coefficients()))), ("intercept", Ok(ObsB::cont(vec![o.intercept()])))] },
        Some(|a, b| a == b));
    drive(cx, next(), breps, m("KNNRegressor", "ladder-cover", true, true), Kind::Big, None,
        |d: &Data| KNNRegressor::fit(&mat::<f64>(&d.x), &d.y, KNNRegressorParameters::default()),
        |o: &KNNRegressor<f64, Euclidian>, d: &Data| -> PartList { vec![("predict", o.predict(&mat::<f64>(&d.q)).map(ObsB::cont)),
            ("Predictor::predict", Predictor::predict(o, &mat::<f64>(&d.q)).map(ObsB::cont))] },
        Some(|a, b| a == b));
    drive(cx, next(), breps, m("DecisionTreeRegressor", "ladder-trait-fit", true, true), Kind::Big, None,
        |d: &Data| <DecisionTreeRegressor<f64> as SupervisedEstimator<M64, Vec<f64>, DecisionTreeRegressorParameters>>::fit(&mat::<f64>(&d.x), &d.y, Default::default()),
        |o: &DecisionTreeRegressor<f64>, d: &Data| -> PartList { vec![("predict", o.predict(&mat::<f64>(&d.q)).map(ObsB::cont)),
            ("Predictor::predict", Predictor::predict(o, &mat::<f64>(&d.q)).map(ObsB::cont))] },
        Some(|a, b| a == b));
    drive(cx, next(), breps, m("RandomForestRegressor", "ladder-keep-samples", true, true), Kind::Big, None,
        |d: &Data| RandomForestRegressor::fit(&mat::<f64>(&d.x), &d.y,
            RandomForestRegressorParameters { max_depth: Some(6), min_samples_leaf: 1, min_samples_split: 2, n_trees: 6, m: None, keep_samples: true, seed: 3 }),
        |o: &RandomForestRegressor<f64>, d: &Data| -> PartList { vec![("predict", o.predict(&mat::<f64>(&d.q)).map(ObsB::cont)),
            ("predict_oob", o.predict_oob(&mat::<f64>(&d.x)).map(ObsB::cont))] },
        Some(|a, b| a == b));
    drive(cx, next(), breps, m("DBSCAN", "ladder", true, false), Kind::Big, None,
        |d: &Data| DBSCAN::fit(&mat::<f64>(&d.x), DBSCANParameters::default().with_eps(1.5).with_min_samples(3)),
        |o: &DBSCAN<f64, Euclidian>, d: &Data| o.predict(&mat::<f64>(&d.q)).map(ObsB::disc),
        Some(|a, b| a == b));
    drive(cx, next(), breps, m("KMeans", "ladder-k3", false, false), Kind::Big, None,
        |d: &Data| KMeans::fit(&mat::<f64>(&d.x), KMeansParameters::default().with_k(3)),
        |o: &KMeans<f64>, d: &Data| o.predict(&mat::<f64>(&d.q)).map(ObsB::disc),
        Some(|a, b| a == b));
    drive(cx, next(), breps, m("PCA", "ladder-k1", true, false), Kind::Big, None,
        |d: &Data| PCA::fit(&mat::<f64>(&d.x), PCAParameters::default().with_n_components(1)),
        |o: &PCA<f64, M64>, d: &Data| -> PartList { vec![("transform", o.transform(&mat(&d.q)).map(|t| mat_obs(&t))), ("components", Ok(mat_obs(o.components())))] },
        Some(|a, b| a == b));

    // ---- deep structures: geometrically growing coordinates nest the cover tree dozens of levels deep
    drive(cx, next(), 2, m("CoverTree", "geometric-deep", true, false), Kind::Geo, None,
        |d: &Data| CoverTree::new(d.x.clone(), Distances::euclidian()),
        |o: &CoverTree<Vec<f64>, f64, Euclidian>, d: &Data| search_obs(d, |q, radius| {
            let r = if radius { o.find_radius(q, 3.0)? } else { o.find(q, 3)? };
            Ok(r.into_iter().map(|(i, dist, _)| (i, dist)).collect())
        }),
        Some(|a, b| a == b));
    drive(cx, next(), 2, m("KNNRegressor", "default-geometric-deep", true, true), Kind::Geo, None,
        |d: &Data| KNNRegressor::fit(&mat::<f64>(&d.x), &d.y, KNNRegressorParameters::default()),
        |o: &KNNRegressor<f64, Euclidian>, d: &Data| o.predict(&mat::<f64>(&d.q)).map(ObsB::cont),
        Some(|a, b| a == b));
    drive(cx, next(), 2, m("DBSCAN", "default-geometric-deep", true, false), Kind::Geo, None,
        |d: &Data| DBSCAN::fit(&mat::<f64>(&d.x), DBSCANParameters::default().with_eps(3.0).with_min_samples(2)),
        |o: &DBSCAN<f64, Euclidian>, d: &Data| o.predict(&mat::<f64>(&d.q)).map(ObsB::disc),
        Some(|a, b| a == b));

    // ---- neighbour-search structures -----------------------------------------------------------
    for kind in [Kind::Blob, Kind::Reg] {
        drive(cx, next(), reps, m("CoverTree", if kind == Kind::Blob { "euclidian-blob" } else { "euclidian" }, true, false), kind, None,
            |d: &Data| CoverTree::new(d.x.clone(), Distances::euclidian()),
            |o: &CoverTree<Vec<f64>, f64, Euclidian>, d: &Data| search_obs(d, |q, radius| {
                let r = if radius { o.find_radius(q, 3.0)? } else { o.find(q, 3)? };
                Ok(r.into_iter().map(|(i, dist, _)| (i, dist)).collect())
            }),
            Some(|a, b| a == b));
        drive(cx, next(), reps, m("LinearKNNSearch", if kind == Kind::Blob { "manhattan-blob" } else { "manhattan" }, true, false), kind, None,
            |d: &Data| LinearKNNSearch::new(d.x.clone(), Distances::manhattan()),
            |o: &LinearKNNSearch<Vec<f64>, f64, Manhattan>, d: &Data| search_obs(d, |q, radius| {
                let r = if radius { o.find_radius(q, 4.0)? } else { o.find(q, 3)? };
                Ok(r.into_iter().map(|(i, dist, _)| (i, dist)).collect())
            }),
            Some(|a, b| a == b));
    }

    // ---- distances and kernels (no PartialEq: the equality clauses do not apply) ---------------
    drive(cx, next(), reps, m("Euclidian", "-", true, false), Kind::Reg, None, |_d: &Data| Ok(Distances::euclidian()),
        |o: &Euclidian, d: &Data| dist_obs(o, d), None);
    drive(cx, next(), reps, m("Manhattan", "-", true, false), Kind::Reg, None, |_d: &Data| Ok(Distances::manhattan()),
        |o: &Manhattan, d: &Data| dist_obs(o, d), None);
    drive(cx, next(), reps, m("Hamming", "-", true, false), Kind::Cnt, None, |_d: &Data| Ok(Distances::hamming()),
        |o: &Hamming, d: &Data| dist_obs(o, d), None);
    for p in [1u16, 2, 3, 4] {
        drive(cx, next(), (reps + 1) / 2, m("Minkowski", &format!("p={}", p), true, false), Kind::Reg, None, move |_d: &Data| Ok(Distances::minkowski(p)),
            |o: &Minkowski, d: &Data| dist_obs(o, d), None);
    }
    drive(cx, next(), reps, m("Mahalanobis", "from-data", true, false), Kind::Reg, None,
        |d: &Data| Ok(Distances::mahalanobis(&mat::<f64>(&d.x))),
        |o: &Mahalanobis<f64, M64>, d: &Data| -> PartList { vec![("distance", dist_obs(o, d)), ("sigma", Ok(mat_obs(&o.sigma))), ("sigmaInv", Ok(mat_obs(&o.sigmaInv)))] }, None);
    drive(cx, next(), reps, m("LinearKernel", "-", true, false), Kind::Reg, None, |_d: &Data| Ok(Kernels::linear()),
        |o: &LinearKernel, d: &Data| kernel_obs(o, d), None);
    drive(cx, next(), reps, m("RBFKernel", "gamma=0.3", true, false), Kind::Reg, None, |_d: &Data| Ok(Kernels::rbf(0.3f64)),
        |o: &RBFKernel<f64>, d: &Data| kernel_obs(o, d), None);
    drive(cx, next(), reps, m("PolynomialKernel", "d=3,gamma=0.7,c=1.1", true, false), Kind::Reg, None, |_d: &Data| Ok(Kernels::polynomial(3.0f64, 0.7, 1.1)),
        |o: &PolynomialKernel<f64>, d: &Data| kernel_obs(o, d), None);
    drive(cx, next(), reps, m("SigmoidKernel", "gamma=0.01,c=0.1", true, false), Kind::Reg, None, |_d: &Data| Ok(Kernels::sigmoid(0.01f64, 0.1)),
        |o: &SigmoidKernel<f64>, d: &Data| kernel_obs(o, d), None);

    // ---- the dense matrix: every shape 1..5 x 1..5, a size ladder across internal block sizes,
    //      and values that are special in binary floating point; both precisions -------------------
    fn dm_history(cx: &mut Cx, rows: &Vec<Vec<f64>>, label: &str, do64: bool, do32: bool) {
        let (nr, nc) = (rows.len(), rows[0].len());
        let other: Vec<Vec<f64>> = rows.iter().map(|rw| rw.iter().map(|v| v + 1.0).collect()).collect();
        let transposed: Vec<Vec<f64>> = (0..nc).map(|j| (0..nr).map(|i| rows[i][j]).collect()).collect();
        let d = Data { kind: Kind::Blob, x: rows.clone(), y: vec![], q: vec![] };
        let od = Data { kind: Kind::Blob, x: other.clone(), y: vec![], q: vec![] };
        let td = Data { kind: Kind::Blob, x: transposed.clone(), y: vec![], q: vec![] };
        if do64 {
            let alts = vec![
                Alt { role: "refit", how: "same", data: d.clone(), obj: Ok(Ok(mat::<f64>(&d.x))) },
                Alt { role: "other", how: "shift", data: od.clone(), obj: Ok(Ok(mat::<f64>(&other))) },
                Alt { role: "other", how: "indep", data: td.clone(), obj: Ok(Ok(mat::<f64>(&transposed))) },
            ];
            let meta = Meta { ty: "DenseMatrix", cfg: format!("f64 {}{}x{}", label, nr, nc), det: true, sup: false, prec: 64, jsonperm: true };
            history(cx, &meta, &mat::<f64>(rows), &d, alts, &|o: &M64, _d: &Data| Ok(mat_obs(o)), Some(|a, b| a == b));
        }
        if do32 {
            let alts = vec![
                Alt { role: "refit", how: "same", data: d.clone(), obj: Ok(Ok(mat::<f32>(&d.x))) },
                Alt { role: "other", how: "shift", data: od, obj: Ok(Ok(mat::<f32>(&other))) },
                Alt { role: "other", how: "indep", data: td, obj: Ok(Ok(mat::<f32>(&transposed))) },
            ];
            let meta = Meta { ty: "DenseMatrix", cfg: format!("f32 {}{}x{}", label, nr, nc), det: true, sup: false, prec: 32, jsonperm: true };
            history(cx, &meta, &mat::<f32>(rows), &d, alts, &|o: &M32, _d: &Data| Ok(mat_obs(o)), Some(|a, b| a == b));
        }
    }
    let mut r = rng(1999);
    // entries: integers, halves, and arbitrary quotients (non-terminating decimals)
    let mut entry = |r: &mut StdRng| {
        let a = r.gen_range(-50..=50) as f64;
        match r.gen_range(0..3) { 0 => a, 1 => a / 2.0, _ => a / (r.gen_range(3..=13) as f64) }
    };
    let rounds = if thorough() { 40 } else { 4 };
    for _ in 0..rounds {
        for nr in 1..=5usize {
            for nc in 1..=5usize {
                let rows: Vec<Vec<f64>> = (0..nr).map(|_| (0..nc).map(|_| entry(&mut r)).collect()).collect();
                dm_history(cx, &rows, "", true, true);
            }
        }
    }
    // size ladder: row counts just below / at / above 64, 128, 256, 512, 1024, and a few thousand
    let ladder: Vec<(usize, usize)> = if thorough() {
        vec![(63, 2), (64, 1), (65, 3), (127, 1), (128, 2), (129, 1), (255, 1), (256, 3), (257, 1), (511, 1), (512, 2), (513, 1),
             (1023, 1), (1024, 1), (1025, 2), (3, 1025), (4099, 1), (2, 513)]
    } else {
        vec![(63, 2), (64, 1), (65, 3), (255, 1), (256, 2), (257, 1), (512, 1), (1023, 1), (1025, 1), (3, 513), (4099, 1)]
    };
    for (nr, nc) in ladder {
        let rows: Vec<Vec<f64>> = (0..nr).map(|_| (0..nc).map(|_| entry(&mut r)).collect()).collect();
        dm_history(cx, &rows, "ladder ", true, nr % 2 == 1);
    }
    // EMPTY shapes ("any shape"): 0x0, 0x3, 4x0, built with the public constructors
    fn dm_empty<T: RealNumber + Serialize + DeserializeOwned + std::fmt::Debug>(cx: &mut Cx, nr: usize, nc: usize, prec: u32, via_zeros: bool) {
        let mk = |r: usize, c: usize| -> DenseMatrix<T> { if via_zeros { DenseMatrix::zeros(r, c) } else { DenseMatrix::from_array(r, c, &[]) } };
        let rows = |r: usize, c: usize| -> Vec<Vec<f64>> { (0..r).map(|_| vec![0.0; c]).collect() };
        let d = Data { kind: Kind::Blob, x: rows(nr, nc), y: vec![], q: vec![] };
        let (or, oc) = if nr == nc { (nr, nc + 2) } else { (nc, nr) };
        let alts = vec![
            Alt { role: "refit", how: "same", data: d.clone(), obj: guard(|| Ok(mk(nr, nc))) },
            Alt { role: "other", how: "indep", data: Data { kind: Kind::Blob, x: rows(or, oc), y: vec![], q: vec![] }, obj: guard(|| Ok(mk(or, oc))) },
        ];
        let meta = Meta { ty: "DenseMatrix", cfg: format!("f{} empty {}x{}{}", prec, nr, nc, if via_zeros { " zeros" } else { " from_array" }),
                          det: true, sup: false, prec, jsonperm: true };
        match guard(|| mk(nr, nc)) {
            Ok(a) => history(cx, &meta, &a, &d, alts, &|o: &DenseMatrix<T>, _d: &Data| Ok(mat_obs(o)), Some(|a, b| a == b)),
            Err(_) => cx.skipped += 1,
        }
    }
    for (nr, nc) in [(0usize, 0usize), (0, 3), (4, 0)] {
        for via_zeros in [true, false] {
            dm_empty::<f64>(cx, nr, nc, 64, via_zeros);
            dm_empty::<f32>(cx, nr, nc, 32, via_zeros);
        }
    }
    // values that are special in binary floating point (all FINITE): signed zeros, near-overflow,
    // subnormals, neighbours of 1
    let sp64 = vec![-0.0, 0.0, (2.0f64).powi(1000), -(2.0f64).powi(1000), f64::MAX, f64::MIN_POSITIVE, 5e-324, -5e-324,
                    1.0 + f64::EPSILON, 1.0 - f64::EPSILON / 2.0, 0.1, 1e-310, 123456789.123456789, -1.0 / 3.0];
    let sp32: Vec<f64> = vec![-0.0f32, 0.0, (2.0f32).powi(120), -(2.0f32).powi(120), f32::MAX, f32::MIN_POSITIVE, 1e-45, -1e-45,
                    1.0 + f32::EPSILON, 1.0 - f32::EPSILON / 2.0, 0.1, 1e-40, 16777217.0, -1.0 / 3.0].into_iter().map(|v| v as f64).collect();
    for (vals, is64) in [(sp64, true), (sp32, false)] {
        for (nr, nc) in [(1usize, 14usize), (14, 1), (2, 7), (7, 2)] {
            let mut k = r.gen_range(0..vals.len());
            let rows: Vec<Vec<f64>> = (0..nr).map(|_| (0..nc).map(|_| { k = (k + 1) % vals.len(); vals[k] }).collect()).collect();
            dm_history(cx, &rows, "special ", is64, !is64);
        }
    }
    let skipped = cx.skipped;
    let runs = cx.run;
    let n = std::mem::replace(&mut cx.out, Out::create("/dev/null")).finish();
    println!("{} events, {} histories, {} fits skipped", n, runs, skipped);
}

fn main() {
    silence_panics();
    let args: Vec<String> = std::env::args().collect();
    match arg(&args, 1) {
        "gen-models" => gen_models(arg(&args, 2)),
        other => {
            eprintln!("unknown sub-command {}", other);
            std::process::exit(2);
        }
    }
}
