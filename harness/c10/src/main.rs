//! C10 — support vector machines.  Drives the real `SVC::fit / decision_function / predict`,
//! `SVR::fit / predict` and `Kernel::apply` and records what they returned.
//!
//! No property logic lives here.  The harness
//!   * builds inputs (integer-valued features, dyadic C / epsilon / tol, kernel parameters
//!     given as small rationals), either from a table combined with the visiting orders TLC
//!     enumerated from `SvmSchedule.tla` (`replay-spec`) or from the seeded generator (`gen-*`);
//!   * injects the visiting orders through `smartcore::verif::push_schedule` (thread-local
//!     queue, one order per call of the trainer's `permutate`);
//!   * calls the library under a watchdog (`panic` and `timeout` are outcomes, i.e. data);
//!   * reaches the fitted model's private state through its serde serialisation
//!     (`instances`, `w`, `b`) and projects every float to an integer: fixed point
//!     `round(v * 2^S)` (S = 10 for the kernel-expansion identity, S = 16 for box / sum / KKT),
//!     exact sign, exact integer where the value is an integer, dense ranks, IEEE bit halves.
//!   * computes one magnitude guard (`prodok`): whether the integer products the TLA+
//!     contracts will form stay below 2^30 (TLC integers are 32 bit).  It depends on
//!     magnitudes only, never on whether the model is right.
//!
//! All pass/fail decisions are taken by SvmContracts.tla / Kernels.tla under TLC.
use rand::rngs::StdRng;
use rand::seq::SliceRandom;
use rand::Rng;
use serde::Serialize;
use serde_json::{json, Value};
use smartcore::api::{Predictor, SupervisedEstimator};
use smartcore::linalg::naive::dense_matrix::DenseMatrix;
use smartcore::svm::svc::{SVCParameters, SVC};
use smartcore::svm::svr::{SVRParameters, SVR};
use smartcore::svm::{
    Kernel, Kernels, LinearKernel, PolynomialKernel, RBFKernel, SigmoidKernel,
};
use smartcore::verif::{clear_schedule, push_schedule, schedule_left};
use vutil::*;

const S: u32 = 10; // scale of the expansion identity
const T: u32 = 16; // scale of box / sum / KKT
const WATCHDOG_DEFAULT_SECS: u64 = 40;

/// seconds a single fit may take before it is recorded as `timeout` (C10_WATCHDOG overrides)
fn watchdog_secs() -> u64 {
    std::env::var("C10_WATCHDOG").ok().and_then(|v| v.parse().ok()).unwrap_or(WATCHDOG_DEFAULT_SECS)
}

// ------------------------------------------------------------------------------------------
// kernels: the library's four kernels behind one enum, so that one code path serves all
// ------------------------------------------------------------------------------------------
#[derive(Serialize, Clone, Debug)]
enum AnyK {
    Lin(LinearKernel),
    Rbf(RBFKernel<f64>),
    Poly(PolynomialKernel<f64>),
    Sig(SigmoidKernel<f64>),
}

impl Kernel<f64, Vec<f64>> for AnyK {
    fn apply(&self, a: &Vec<f64>, b: &Vec<f64>) -> f64 {
        match self {
            AnyK::Lin(k) => k.apply(a, b),
            AnyK::Rbf(k) => k.apply(a, b),
            AnyK::Poly(k) => k.apply(a, b),
            AnyK::Sig(k) => k.apply(a, b),
        }
    }
}

/// kernel descriptor: {"name","deg","dd","gn","gd","cn","cd"}: degree = deg/dd, gamma = gn/gd, coef0 = cn/cd
/// (gd, cd powers of two, so both are exact binary floats)
fn kdesc(name: &str, deg: i64, gn: i64, gd: i64, cn: i64, cd: i64) -> Value {
    kdescf(name, deg, 1, gn, gd, cn, cd)
}

/// polynomial degree deg/dd (dd in {1, 2, 4}: exact binary floats 0.5, 1.5, 2.5, 0.25, ...)
fn kdescf(name: &str, deg: i64, dd: i64, gn: i64, gd: i64, cn: i64, cd: i64) -> Value {
    json!({"name": name, "deg": deg, "dd": dd, "gn": gn, "gd": gd, "cn": cn, "cd": cd})
}

fn kernel_of(k: &Value) -> AnyK {
    let g = k["gn"].as_i64().unwrap() as f64 / k["gd"].as_i64().unwrap() as f64;
    let c = k["cn"].as_i64().unwrap() as f64 / k["cd"].as_i64().unwrap() as f64;
    match k["name"].as_str().unwrap() {
        "linear" => AnyK::Lin(Kernels::linear()),
        "rbf" => AnyK::Rbf(Kernels::rbf(g)),
        "poly" => AnyK::Poly(Kernels::polynomial(
            k["deg"].as_i64().unwrap() as f64 / k["dd"].as_i64().unwrap_or(1) as f64,
            g,
            c,
        )),
        "sigmoid" => AnyK::Sig(Kernels::sigmoid(g, c)),
        other => panic!("unknown kernel {}", other),
    }
}

fn logged_kernel(k: &Value) -> bool {
    let n = k["name"].as_str().unwrap();
    n == "rbf" || n == "sigmoid" || (n == "poly" && k["dd"].as_i64().unwrap_or(1) != 1)
}

// ------------------------------------------------------------------------------------------
// helpers
// ------------------------------------------------------------------------------------------
fn rows_of(v: &Value) -> Vec<Vec<f64>> {
    v.as_array()
        .unwrap()
        .iter()
        .map(|r| r.as_array().unwrap().iter().map(|x| x.as_i64().unwrap() as f64).collect())
        .collect()
}

fn ints_of(v: &Value) -> Vec<i64> {
    v.as_array().unwrap().iter().map(|x| x.as_i64().unwrap()).collect()
}

fn sign(v: f64) -> i64 {
    if v > 0.0 {
        1
    } else if v < 0.0 {
        -1
    } else {
        0
    }
}

fn pow2(e: i64) -> f64 {
    (2.0f64).powi(e as i32)
}

/// what a fit returned, as plain floats (crosses the watchdog thread boundary)
struct Fitted {
    inst: Vec<Vec<f64>>,
    w: Vec<f64>,
    b: f64,
    f: Vec<f64>,     // decision_function / predict (SVR) on pts = X ++ Q
    pred: Vec<f64>,  // SVC::predict on pts
    kq: Vec<Vec<f64>>, // Kernel::apply(pts[j], inst[i]) for the logged kernels
    left: usize,
    err: Option<String>,
    // batch events: one call on all B query rows (fb / pb) against the same rows in blocks (fc / pc)
    fb: Vec<f64>,
    fc: Vec<f64>,
    pb: Vec<f64>,
}

impl Fitted {
    fn failed(left: usize, e: String) -> Fitted {
        Fitted { inst: vec![], w: vec![], b: 0.0, f: vec![], pred: vec![], kq: vec![], left, err: Some(e),
                 fb: vec![], fc: vec![], pb: vec![] }
    }
}

/// the optional batch part of an input: all query rows, the block length of the reference
/// evaluation, and the (0-based) positions whose values feed the expansion clause as `Q`
struct Batch {
    rows: Vec<Vec<f64>>,
    block: usize,
    sample: Vec<usize>,
}

fn batch_of(inp: &Value) -> Option<Batch> {
    let b = inp.get("batch")?;
    Some(Batch {
        rows: rows_of(&b["rows"]),
        block: b["block"].as_u64().unwrap() as usize,
        sample: b["sample"].as_array().unwrap().iter().map(|v| v.as_u64().unwrap() as usize).collect(),
    })
}

fn batch_out(f: &Fitted, with_pred: bool) -> Value {
    // fixed point at the largest scale 2^bs (bs <= 30) for which every value stays below 2^30:
    // a relative resolution of 2^-30 of the largest decision value -- a magnitude choice only
    let finite = f.fb.iter().chain(f.fc.iter()).all(|v| v.is_finite());
    let m = f.fb.iter().chain(f.fc.iter()).fold(1.0f64, |m, v| if v.is_finite() { m.max(v.abs()) } else { m });
    let bs = (30 - (m.log2().ceil() as i64)).max(0).min(30) as u32;
    let q = Q::with_limit(bs, 1.5e9);
    let fbq = q.v(&f.fb);
    let fcq = q.v(&f.fc);
    let fsb: Vec<i64> = f.fb.iter().map(|&v| sign(v)).collect();
    let mut o = json!({"bs": bs, "fbq": fbq, "fcq": fcq, "fsb": fsb, "bok": finite && q.ok()});
    if with_pred {
        let ok = intv(&f.pb).is_some();
        o["pb"] = json!(f.pb.iter().map(|&x| int_exact(x).unwrap_or(0)).collect::<Vec<i64>>());
        o["pint"] = json!(ok);
    }
    o
}

fn dump_model(v: &Value) -> (Vec<Vec<f64>>, Vec<f64>, f64) {
    // serde_json writes non-finite floats as null; map them to NaN so the `finite` flag trips
    let fl = |x: &Value| x.as_f64().unwrap_or(f64::NAN);
    let inst = v["instances"]
        .as_array()
        .map(|a| a.iter().map(|r| r.as_array().unwrap().iter().map(fl).collect()).collect())
        .unwrap_or_default();
    let w = v["w"].as_array().map(|a| a.iter().map(fl).collect()).unwrap_or_default();
    (inst, w, fl(&v["b"]))
}

fn matrix(rows: &[Vec<f64>]) -> DenseMatrix<f64> {
    DenseMatrix::from_2d_vec(&rows.to_vec())
}

/// IEEE-754 pattern of a double as four 16-bit quarters, most significant first
/// (TLC integers are 32-bit signed, so the customary two 32-bit halves do not fit)
fn bits4(v: f64) -> Value {
    let b = v.to_bits();
    json!([(b >> 48) as i64, ((b >> 32) & 0xffff) as i64, ((b >> 16) & 0xffff) as i64, (b & 0xffff) as i64])
}

/// projections shared by SvcFit and SvrFit.  Flags: `finite` (no NaN / inf anywhere in the
/// model or its outputs), `wok` (the quantised coefficients fit 32 bits), `fok` (the quantised
/// bias / decision values / logged kernel values fit 32 bits)
fn project(fit: &Fitted, with_pred: bool, ntrain: usize) -> Value {
    let qw10 = Q::with_limit(S, 1.0e9);
    let qw16 = Q::with_limit(T, 1.0e9);
    let qf10 = Q::with_limit(S, 1.0e9);
    let qf16 = Q::with_limit(T, 1.0e9);
    let svint = fit.inst.iter().all(|r| intv(r).is_some());
    let sv: Vec<Vec<i64>> = fit
        .inst
        .iter()
        .map(|r| r.iter().map(|&x| int_exact(x).unwrap_or(0)).collect())
        .collect();
    let w16 = qw16.v(&fit.w);
    let w10 = qw10.v(&fit.w);
    let b10 = qf10.x(fit.b);
    let f10 = qf10.v(&fit.f);
    let f16 = qf16.v(&fit.f[..ntrain.min(fit.f.len())]);
    let fs: Vec<i64> = fit.f.iter().map(|&v| sign(v)).collect();
    let kq = qf10.m(&fit.kq);
    let finite = qw10.finite.get() && qw16.finite.get() && qf10.finite.get() && qf16.finite.get();
    let wok = qw10.inrange.get() && qw16.inrange.get();
    let fok = qf10.inrange.get() && qf16.inrange.get();
    let mut o = json!({"left": fit.left, "sv": sv, "svint": svint, "w16": w16, "w10": w10, "b10": b10,
                       "f10": f10, "f16": f16, "kq": kq, "finite": finite, "wok": wok, "fok": fok});
    if with_pred {
        let predint = intv(&fit.pred).is_some();
        let pred: Vec<i64> = fit.pred.iter().map(|&x| int_exact(x).unwrap_or(0)).collect();
        o["fs"] = json!(fs);
        o["pred"] = json!(pred);
        o["predint"] = json!(predint);
    }
    o
}

/// a-priori magnitude of the exact kernel numerator / denominator (linear, polynomial) from the
/// largest |feature| among all points, the number of features and the kernel parameters
fn kbound(k: &Value, pts: &[Vec<f64>]) -> (f64, f64) {
    if logged_kernel(k) {
        return (1025.0, 1024.0);
    }
    let a = pts.iter().flatten().fold(0.0f64, |m, &x| m.max(x.abs()));
    let p = pts.first().map(|r| r.len()).unwrap_or(0) as f64;
    let dot = p * a * a;
    match k["name"].as_str().unwrap() {
        "linear" => (dot, 1.0),
        _ => {
            let gn = k["gn"].as_i64().unwrap() as f64;
            let gd = k["gd"].as_i64().unwrap() as f64;
            let cn = k["cn"].as_i64().unwrap() as f64;
            let cd = k["cd"].as_i64().unwrap() as f64;
            let d = k["deg"].as_i64().unwrap() as i32;
            ((gn.abs() * dot * cd + cn.abs() * gd).powi(d), (gd * cd).powi(d))
        }
    }
}

fn prod_ok(out: &Value, k: &Value, pts: &[Vec<f64>]) -> bool {
    let (mut kmax, den) = kbound(k, pts);
    if logged_kernel(k) {
        kmax = out["kq"]
            .as_array()
            .unwrap()
            .iter()
            .flat_map(|r| r.as_array().unwrap().iter())
            .fold(0i64, |m, v| m.max(v.as_i64().unwrap().abs())) as f64
            + 1.0;
    }
    let w: Vec<i64> = ints_of(&out["w10"]);
    let sw: f64 = w.iter().map(|&x| (x.abs() + 1) as f64).sum();
    let fmax = ints_of(&out["f10"]).iter().fold(0i64, |m, &x| m.max(x.abs())) as f64;
    let b = out["b10"].as_i64().unwrap().abs() as f64;
    let lim = (1u64 << 30) as f64;
    // every intermediate the contract forms: den*(f-b), sum w*K, the tolerance, and den itself
    den * (fmax + b + 4.0) + sw * (kmax + 1.0) * 2.0 < lim && kmax < lim && den < 32768.0
}

// ------------------------------------------------------------------------------------------
// SVC
// ------------------------------------------------------------------------------------------
fn svc_event(run: i64, src: &str, inp: Value) -> Value {
    let x = rows_of(&inp["X"]);
    let q = rows_of(&inp["Q"]);
    // labels: exact integers, or codes 0 / 1 standing for the two floats given by bit pattern
    let labs: Option<(f64, f64)> = inp.get("labels4").map(|l| (unbits4(&l[0]), unbits4(&l[1])));
    let y: Vec<f64> = ints_of(&inp["y"])
        .iter()
        .map(|&v| match labs {
            None => v as f64,
            Some((lo, hi)) => if v == 0 { lo } else { hi },
        })
        .collect();
    // projection of a predicted label back to its code: bit-pattern lookup (0.5 = neither label)
    let code = move |v: f64| -> f64 {
        match labs {
            None => v,
            Some((lo, hi)) => {
                if v.to_bits() == lo.to_bits() { 0.0 } else if v.to_bits() == hi.to_bits() { 1.0 } else { 0.5 }
            }
        }
    };
    let c = inp["Cn"].as_i64().unwrap() as f64 / inp["Cd"].as_i64().unwrap() as f64;
    let epochs = inp["epochs"].as_u64().unwrap() as usize;
    let tol = pow2(-inp["tolE"].as_i64().unwrap());
    let api = inp["api"].as_bool().unwrap_or(false);
    let batch = batch_of(&inp);
    let is_batch = batch.is_some();
    let sched: Vec<Vec<usize>> = inp["sched"]
        .as_array()
        .unwrap()
        .iter()
        .map(|o| o.as_array().unwrap().iter().map(|v| v.as_u64().unwrap() as usize).collect())
        .collect();
    let kd = inp["kernel"].clone();
    let mut pts = x.clone();
    pts.extend(q.iter().cloned());
    let n = x.len();
    // optional common offset 2^off on every coordinate of every row handed to the library (training
    // rows, query rows, batch rows); the stored vectors are shifted back, so the event stays on the
    // small integers (the RBF kernel, the only one generated with an offset, is translation invariant)
    let shift = offset_of(&inp);
    let sh = move |rows: &Vec<Vec<f64>>| -> Vec<Vec<f64>> {
        rows.iter().map(|r| r.iter().map(|v| v + shift).collect()).collect()
    };
    let x = sh(&x);
    let batch = batch.map(|b| Batch { rows: sh(&b.rows), block: b.block, sample: b.sample });
    let ptsc = sh(&pts);
    let kdc = kd.clone();
    type Model = SVC<f64, DenseMatrix<f64>, AnyK>;
    type Params = SVCParameters<f64, DenseMatrix<f64>, AnyK>;
    let r = watchdog(watchdog_secs(), move || {
        let xm = matrix(&x);
        let pm = matrix(&ptsc);
        let kernel = kernel_of(&kdc);
        clear_schedule();
        if !sched.is_empty() {
            push_schedule(sched);
        }
        let params = SVCParameters::<f64, DenseMatrix<f64>, LinearKernel>::default()
            .with_epoch(epochs)
            .with_c(c)
            .with_tol(tol)
            .with_kernel(kernel.clone());
        // both public entry points: the inherent methods and the api traits
        let fitted = if api {
            <Model as SupervisedEstimator<DenseMatrix<f64>, Vec<f64>, Params>>::fit(&xm, &y, params)
        } else {
            SVC::fit(&xm, &y, params)
        };
        let left = schedule_left();
        clear_schedule();
        match fitted {
            Err(e) => Fitted::failed(left, format!("{}", e)),
            Ok(m) => {
                let predict = |mm: &DenseMatrix<f64>| -> Vec<f64> {
                    let p = if api {
                        <Model as Predictor<DenseMatrix<f64>, Vec<f64>>>::predict(&m, mm).unwrap()
                    } else {
                        m.predict(mm).unwrap()
                    };
                    p.into_iter().map(|v| code(v)).collect()
                };
                let (inst_raw, w, b) = dump_model(&serde_json::to_value(&m).unwrap());
                let inst: Vec<Vec<f64>> = inst_raw.iter().map(|r| r.iter().map(|v| v - shift).collect()).collect();
                let (f, pred);
                let (mut fb, mut fc, mut pb) = (vec![], vec![], vec![]);
                match &batch {
                    None => {
                        f = m.decision_function(&pm).unwrap();
                        pred = predict(&pm);
                    }
                    Some(bt) => {
                        // ONE call on all rows ...
                        let big = matrix(&bt.rows);
                        fb = m.decision_function(&big).unwrap();
                        pb = predict(&big);
                        // ... against the same rows in blocks
                        for chunk in bt.rows.chunks(bt.block) {
                            let cm = matrix(chunk);
                            fc.extend(m.decision_function(&cm).unwrap());
                        }
                        // pts = X ++ Q with Q = the sampled batch rows: values of the training rows from
                        // a call on X, values of Q taken out of the big call
                        let mut f0 = m.decision_function(&xm).unwrap();
                        let mut p0 = predict(&xm);
                        for &sidx in &bt.sample {
                            f0.push(fb[sidx]);
                            p0.push(pb[sidx]);
                        }
                        f = f0;
                        pred = p0;
                    }
                }
                let kq = if logged_kernel(&kdc) {
                    inst_raw.iter().map(|sv| ptsc.iter().map(|p| kernel.apply(p, sv)).collect()).collect()
                } else {
                    vec![]
                };
                Fitted { inst, w, b, f, pred, kq, left, err: None, fb, fc, pb }
            }
        }
    });
    let (status, out) = match r {
        None => ("timeout", json!({})),
        Some(Err(_)) => ("panic", json!({})),
        Some(Ok(f)) if f.err.is_some() => ("err", json!({})),
        Some(Ok(f)) => {
            let mut o = project(&f, true, n);
            let pk = prod_ok(&o, &kd, &pts);
            o["prodok"] = json!(pk);
            if is_batch {
                o["batch"] = batch_out(&f, true);
            }
            ("ok", o)
        }
    };
    json!({"run": run, "ev": if is_batch { "SvcBatch" } else { "SvcFit" }, "src": src, "status": status,
           "in": inp, "out": out})
}

// ------------------------------------------------------------------------------------------
// SVR
// ------------------------------------------------------------------------------------------
fn svr_event(run: i64, src: &str, inp: Value) -> Value {
    let x = rows_of(&inp["X"]);
    let q = rows_of(&inp["Q"]);
    let y: Vec<f64> = ints_of(&inp["y16"]).iter().map(|&v| v as f64 / 65536.0).collect();
    let c = inp["Cn"].as_i64().unwrap() as f64 / inp["Cd"].as_i64().unwrap() as f64;
    let eps = inp["eps16"].as_i64().unwrap() as f64 / 65536.0;
    let tol = inp["tol16"].as_i64().unwrap() as f64 / 65536.0;
    let api = inp["api"].as_bool().unwrap_or(false);
    let batch = batch_of(&inp);
    let is_batch = batch.is_some();
    let kd = inp["kernel"].clone();
    let mut pts = x.clone();
    pts.extend(q.iter().cloned());
    let n = x.len();
    // optional common offset 2^off on every coordinate of every row handed to the library (training
    // rows, query rows, batch rows); the stored vectors are shifted back, so the event stays on the
    // small integers (the RBF kernel, the only one generated with an offset, is translation invariant)
    let shift = offset_of(&inp);
    let sh = move |rows: &Vec<Vec<f64>>| -> Vec<Vec<f64>> {
        rows.iter().map(|r| r.iter().map(|v| v + shift).collect()).collect()
    };
    let x = sh(&x);
    let batch = batch.map(|b| Batch { rows: sh(&b.rows), block: b.block, sample: b.sample });
    let ptsc = sh(&pts);
    let kdc = kd.clone();
    type Model = SVR<f64, DenseMatrix<f64>, AnyK>;
    type Params = SVRParameters<f64, DenseMatrix<f64>, AnyK>;
    let r = watchdog(watchdog_secs(), move || {
        let xm = matrix(&x);
        let pm = matrix(&ptsc);
        let kernel = kernel_of(&kdc);
        let params = SVRParameters::<f64, DenseMatrix<f64>, LinearKernel>::default()
            .with_eps(eps)
            .with_c(c)
            .with_tol(tol)
            .with_kernel(kernel.clone());
        let fitted = if api {
            <Model as SupervisedEstimator<DenseMatrix<f64>, Vec<f64>, Params>>::fit(&xm, &y, params)
        } else {
            SVR::fit(&xm, &y, params)
        };
        match fitted {
            Err(e) => Fitted::failed(0, format!("{}", e)),
            Ok(m) => {
                let predict = |mm: &DenseMatrix<f64>| -> Vec<f64> {
                    if api {
                        <Model as Predictor<DenseMatrix<f64>, Vec<f64>>>::predict(&m, mm).unwrap()
                    } else {
                        m.predict(mm).unwrap()
                    }
                };
                let (inst_raw, w, b) = dump_model(&serde_json::to_value(&m).unwrap());
                let inst: Vec<Vec<f64>> = inst_raw.iter().map(|r| r.iter().map(|v| v - shift).collect()).collect();
                let (mut fb, mut fc) = (vec![], vec![]);
                let f = match &batch {
                    None => predict(&pm),
                    Some(bt) => {
                        fb = predict(&matrix(&bt.rows));
                        for chunk in bt.rows.chunks(bt.block) {
                            fc.extend(predict(&matrix(chunk)));
                        }
                        let mut f = predict(&xm);
                        for &sidx in &bt.sample {
                            f.push(fb[sidx]);
                        }
                        f
                    }
                };
                let kq = if logged_kernel(&kdc) {
                    inst_raw.iter().map(|sv| ptsc.iter().map(|p| kernel.apply(p, sv)).collect()).collect()
                } else {
                    vec![]
                };
                Fitted { inst, w, b, f, pred: vec![], kq, left: 0, err: None, fb, fc, pb: vec![] }
            }
        }
    });
    let (status, out) = match r {
        None => ("timeout", json!({})),
        Some(Err(_)) => ("panic", json!({})),
        Some(Ok(f)) if f.err.is_some() => ("err", json!({})),
        Some(Ok(f)) => {
            let mut o = project(&f, false, n);
            let pk = prod_ok(&o, &kd, &pts);
            o["prodok"] = json!(pk);
            if is_batch {
                o["batch"] = batch_out(&f, false);
            }
            ("ok", o)
        }
    };
    json!({"run": run, "ev": if is_batch { "SvrBatch" } else { "SvrFit" }, "src": src, "status": status,
           "in": inp, "out": out})
}

// ------------------------------------------------------------------------------------------
// execution: inputs are prepared sequentially (seeded), fits run on a few OS threads (each fit
// still under its own vutil::watchdog thread, which also owns the thread-local schedule
// queue), events are written in input order
// ------------------------------------------------------------------------------------------
struct Job {
    run: i64,
    src: &'static str,
    svr: bool,
    inp: Value,
}

fn run_jobs(jobs: Vec<Job>, out: &mut Out) {
    let nthreads = 6usize;
    let n = jobs.len();
    let jobs = std::sync::Arc::new(jobs);
    let next = std::sync::Arc::new(std::sync::atomic::AtomicUsize::new(0));
    let mut handles = Vec::new();
    for _ in 0..nthreads {
        let jobs = jobs.clone();
        let next = next.clone();
        handles.push(std::thread::spawn(move || {
            let mut done: Vec<(usize, Value)> = Vec::new();
            loop {
                let i = next.fetch_add(1, std::sync::atomic::Ordering::SeqCst);
                if i >= jobs.len() {
                    break;
                }
                let j = &jobs[i];
                let e = if j.svr { svr_event(j.run, j.src, j.inp.clone()) } else { svc_event(j.run, j.src, j.inp.clone()) };
                done.push((i, e));
            }
            done
        }));
    }
    let mut all: Vec<Option<Value>> = (0..n).map(|_| None).collect();
    for h in handles {
        for (i, e) in h.join().expect("worker thread failed") {
            all[i] = Some(e);
        }
    }
    for e in all {
        out.emit(e.expect("missing event"));
    }
}

// ------------------------------------------------------------------------------------------
// kernels
// ------------------------------------------------------------------------------------------
/// `off` = e > 0: every coordinate is shifted by 2^e; 0: no shift
fn offset_of(inp: &Value) -> f64 {
    let e = inp["off"].as_i64().unwrap_or(0);
    if e > 0 { pow2(e) } else { 0.0 }
}

fn k_event(run: i64, inp: Value) -> Value {
    let kd = inp["kernel"].clone();
    // common offset 2^off added to every coordinate (exact: small integers + 2^27 / 2^30 fit 53 bits);
    // the specification judges on the small integers (the RBF kernel is translation invariant)
    let shift = offset_of(&inp);
    let x: Vec<f64> = ints_of(&inp["x"]).iter().map(|&v| v as f64 + shift).collect();
    let z: Vec<f64> = ints_of(&inp["z"]).iter().map(|&v| v as f64 + shift).collect();
    let sc = inp["S"].as_u64().unwrap() as u32;
    let r = guard(|| {
        let k = kernel_of(&kd);
        (k.apply(&x, &z), k.apply(&z, &x), k.apply(&x, &x))
    });
    match r {
        Err(_) => json!({"run": run, "ev": "K", "status": "panic", "in": inp, "out": {}}),
        Ok((a, b, d)) => {
            let q = Q::with_limit(sc, 1.0e9);
            let out = json!({"v": q.x(a), "isint": int_exact(a).is_some(), "vint": int_exact(a).unwrap_or(0),
                             "bxz": bits4(a), "bzx": bits4(b), "bxx": bits4(d), "sgn": sign(a), "qok": q.ok()});
            json!({"run": run, "ev": "K", "status": "ok", "in": inp, "out": out})
        }
    }
}

fn gram_event(run: i64, inp: Value) -> Value {
    let kd = inp["kernel"].clone();
    let shift = offset_of(&inp);
    let x: Vec<Vec<f64>> = rows_of(&inp["X"]).iter().map(|r| r.iter().map(|v| v + shift).collect()).collect();
    let sc = inp["S"].as_u64().unwrap() as u32;
    let r = guard(|| {
        let k = kernel_of(&kd);
        x.iter().map(|a| x.iter().map(|b| k.apply(a, b)).collect::<Vec<f64>>()).collect::<Vec<_>>()
    });
    match r {
        Err(_) => json!({"run": run, "ev": "Gram", "status": "panic", "in": inp, "out": {}}),
        Ok(g) => {
            let q = Q::with_limit(sc, 1.0e9);
            let flat: Vec<f64> = g.iter().flatten().cloned().collect();
            let finite = flat.iter().all(|v| v.is_finite());
            let n = x.len();
            let rk: Vec<Vec<i64>> = if finite {
                let r = dense_ranks(&flat);
                (0..n).map(|i| r[i * n..(i + 1) * n].to_vec()).collect()
            } else {
                vec![vec![0; n]; n]
            };
            let isint = flat.iter().all(|&v| int_exact(v).is_some());
            let gi: Vec<Vec<i64>> =
                g.iter().map(|r| r.iter().map(|&v| int_exact(v).unwrap_or(0)).collect()).collect();
            let out = json!({"G": q.m(&g), "rk": rk, "isint": isint, "Gint": gi, "qok": q.ok() && finite});
            json!({"run": run, "ev": "Gram", "status": "ok", "in": inp, "out": out})
        }
    }
}

// ------------------------------------------------------------------------------------------
// input generation
// ------------------------------------------------------------------------------------------
fn rand_row(r: &mut StdRng, p: usize, a: i64) -> Vec<i64> {
    (0..p).map(|_| r.gen_range(-a..=a)).collect()
}

const LABELS: [(i64, i64); 6] = [(-1, 1), (0, 1), (1, 2), (-5, 3), (2, 7), (-3, -2)];
const CS: [(i64, i64); 7] = [(1, 8), (1, 2), (1, 1), (4, 1), (16, 1), (64, 1), (100, 1)];

fn rand_kernel(r: &mut StdRng, svr_psd: bool) -> Value {
    let pick = r.gen_range(0..10);
    match pick {
        0..=3 => kdesc("linear", 1, 1, 1, 0, 1),
        4..=5 => kdesc("rbf", 1, 1, *[2i64, 8, 32].choose(r).unwrap(), 0, 1),
        6..=7 => kdesc("poly", *[2i64, 3].choose(r).unwrap(), 1, *[1i64, 2, 4, 8].choose(r).unwrap(),
                       *[0i64, 1, 2].choose(r).unwrap(), 1),
        _ => {
            if svr_psd {
                kdesc("rbf", 1, 1, *[1i64, 4, 16].choose(r).unwrap(), 0, 1)
            } else {
                kdesc("sigmoid", 1, 1, *[8i64, 32].choose(r).unwrap(), *[-1i64, 0, 1].choose(r).unwrap(),
                      *[1i64, 2].choose(r).unwrap())
            }
        }
    }
}

/// polynomial kernel of fractional degree for fits.  Its real closed form needs a non-negative
/// base, so the caller makes the features non-negative (gamma > 0, coef0 >= 0).
fn rand_root_kernel(r: &mut StdRng) -> Value {
    let (deg, dd) = *[(1i64, 2i64), (3, 2), (1, 4), (3, 4)].choose(r).unwrap();
    kdescf("poly", deg, dd, 1, *[1i64, 2, 4].choose(r).unwrap(), *[0i64, 1, 2].choose(r).unwrap(), 1)
}

fn abs_rows(x: &[Vec<i64>]) -> Vec<Vec<i64>> {
    x.iter().map(|r| r.iter().map(|v| v.abs()).collect()).collect()
}

/// two-class integer data: separable (kind 0), overlapping (kind 1), with duplicated rows of
/// opposite class (kind 2)
fn rand_svc_data(r: &mut StdRng, n: usize, p: usize, kind: u32, a: i64) -> (Vec<Vec<i64>>, Vec<bool>) {
    loop {
        let wv: Vec<i64> = loop {
            let w = rand_row(r, p, 2);
            if w.iter().any(|&v| v != 0) {
                break w;
            }
        };
        let t = r.gen_range(-2..=2) * (a / 3).max(1);
        let mut x: Vec<Vec<i64>> = (0..n).map(|_| rand_row(r, p, a)).collect();
        let mut pos: Vec<bool> =
            x.iter().map(|row| row.iter().zip(&wv).map(|(a, b)| a * b).sum::<i64>() > t).collect();
        if kind >= 1 {
            for v in pos.iter_mut() {
                if r.gen_bool(0.2) {
                    *v = !*v;
                }
            }
        }
        if kind == 2 && n >= 4 {
            for _ in 0..r.gen_range(1..=2) {
                let i = r.gen_range(0..n);
                let j = r.gen_range(0..n);
                if i != j {
                    x[j] = x[i].clone();
                    pos[j] = !pos[i];
                }
            }
        }
        if pos.iter().any(|&v| v) && pos.iter().any(|&v| !v) {
            return (x, pos);
        }
    }
}

/// feature amplitude of the it-th random fit (probe: C10_AMP overrides)
fn amp_of(_it: usize) -> i64 {
    std::env::var("C10_AMP").ok().and_then(|v| v.parse().ok()).unwrap_or(3)
}

fn rand_perm(r: &mut StdRng, n: usize) -> Vec<usize> {
    let mut v: Vec<usize> = (0..n).collect();
    v.shuffle(r);
    v
}

fn svc_input(x: &[Vec<i64>], pos: &[bool], lab: (i64, i64), c: (i64, i64), k: Value, epochs: usize,
             tol_e: i64, sched: Vec<Vec<usize>>, q: Vec<Vec<i64>>) -> Value {
    let (l0, l1) = lab;
    let (lo, hi) = (l0.min(l1), l0.max(l1));
    let y: Vec<i64> = pos.iter().map(|&b| if b { hi } else { lo }).collect();
    json!({"X": x, "y": y, "Q": q, "Cn": c.0, "Cd": c.1, "C16": c.0 * 65536 / c.1, "kernel": k,
           "epochs": epochs, "tolE": tol_e, "sched": sched, "api": false, "lab": "int"})
}

/// Label pairs with a special arithmetic shape.  The event carries the labels as order-preserving
/// codes (y = 0 for the smaller, 1 for the larger label) plus the two bit patterns (`labels4`);
/// predictions are projected back to codes by bit-pattern lookup, so LabelOK stays exact.
fn float_labels(r: &mut StdRng, family: usize) -> (&'static str, f64, f64) {
    let up = |v: f64| f64::from_bits(if v >= 0.0 { v.to_bits() + 1 } else { v.to_bits() - 1 });
    let pick = r.gen_range(0..4usize);
    match family % 7 {
        // non-integer pairs inside one unit interval (same integer part)
        0 => ("unit", [0.25, 1.5, -2.75, 3.125][pick], [0.75, 1.75, -2.25, 3.5][pick]),
        // pairs straddling zero inside (-1, 1) (both truncate to 0)
        1 => ("zero", [-0.5, -0.25, -0.9, -0.125][pick], [0.5, 0.75, 0.1, 0.0625][pick]),
        // pairs closer than machine epsilon / far below it
        2 => ("eps", [0.0, 1e-20, 3.0 * pow2(-60), -1e-17][pick], [1e-17, 2e-20, 5.0 * pow2(-60), 0.0][pick]),
        // adjacent floats
        3 => {
            let lo = [1.0, -3.5, 1e10, 0.1][pick];
            ("adjacent", lo, up(lo))
        }
        // huge magnitudes (differences and sums overflow)
        4 => ("huge", [1e300, -1e308, f64::MAX / 2.0, -f64::MAX][pick], [2e300, 1e308, f64::MAX, f64::MAX][pick]),
        // tiny / subnormal magnitudes
        5 => ("tiny", [5e-324, 1e-310, -1e-320, 2.5e-308][pick], [1e-323, 1e-300, 1e-320, 2.6e-308][pick]),
        // negative zero as a label
        _ => ("negzero", [-0.0, -1.0, -0.0, -2.5][pick], [1.0, -0.0, 1e-300, -0.0][pick]),
    }
}

fn with_float_labels(mut inp: Value, pos: &[bool], name: &str, lo: f64, hi: f64) -> Value {
    let y: Vec<i64> = pos.iter().map(|&b| if b { 1 } else { 0 }).collect();
    inp["y"] = json!(y);
    inp["lab"] = json!(name);
    inp["labels4"] = json!([bits4(lo), bits4(hi)]);
    inp
}

fn unbits4(v: &Value) -> f64 {
    let q: Vec<u64> = v.as_array().unwrap().iter().map(|x| x.as_u64().unwrap()).collect();
    f64::from_bits((q[0] << 48) | (q[1] << 32) | (q[2] << 16) | q[3])
}

/// batch-length ladder around the block sizes an implementation is likely to use
const LADDER: [usize; 15] = [63, 64, 65, 127, 128, 129, 255, 256, 257, 511, 512, 513, 1023, 1024, 1025];

/// the `batch` part of an input: B random query rows, reference block length, sampled positions
/// (block boundaries and a few seeded random ones); returns (batch object, Q = sampled rows)
fn make_batch(r: &mut StdRng, b: usize, p: usize, nonneg: bool) -> (Value, Vec<Vec<i64>>) {
    let rows: Vec<Vec<i64>> = (0..b)
        .map(|_| {
            let row = rand_row(r, p, 4);
            if nonneg { row.iter().map(|v| v.abs()).collect() } else { row }
        })
        .collect();
    let mut sample: Vec<usize> = [0usize, 63, 64, 127, 128, 255, 256, 257, 511, 512, 1023, 1024]
        .iter()
        .cloned()
        .filter(|&i| i < b)
        .collect();
    sample.push(b - 1);
    for _ in 0..3 {
        sample.push(r.gen_range(0..b));
    }
    sample.sort();
    sample.dedup();
    let q: Vec<Vec<i64>> = sample.iter().map(|&i| rows[i].clone()).collect();
    let block = *[64usize, 50, 17].choose(r).unwrap();
    (json!({"rows": rows, "block": block, "sample": sample}), q)
}

/// the fixed table of four- and five-row training sets combined with every enumerated schedule
fn table_sets(n: usize) -> Vec<(Vec<Vec<i64>>, Vec<bool>)> {
    let mut v: Vec<(Vec<Vec<i64>>, Vec<bool>)> = vec![
        // 1-D separable, margin vectors in the middle
        (vec![vec![-2], vec![-1], vec![1], vec![3]], vec![false, false, true, true]),
        // 2-D overlapping (xor-like): not linearly separable
        (vec![vec![0, 0], vec![1, 1], vec![1, 0], vec![0, 1]], vec![false, false, true, true]),
        // duplicated row carrying both classes
        (vec![vec![1, 2], vec![1, 2], vec![-1, 0], vec![2, -1]], vec![true, false, false, true]),
        // unbalanced 3:1
        (vec![vec![2, 1], vec![-1, -1], vec![-2, 0], vec![0, -2]], vec![true, false, false, false]),
        // interleaved on a line
        (vec![vec![0], vec![1], vec![2], vec![3]], vec![true, false, true, false]),
        // separable 3-D
        (vec![vec![1, 0, 2], vec![0, 1, -1], vec![-1, -1, 0], vec![2, 2, 1]], vec![true, false, false, true]),
    ];
    if n == 5 {
        let extra: Vec<Vec<i64>> = vec![vec![2], vec![2, 0], vec![-1, 0], vec![1, 1], vec![1], vec![0, 0, 0]];
        let cls = [true, true, true, false, false, false];
        for (i, (x, p)) in v.iter_mut().enumerate() {
            x.push(extra[i].clone());
            p.push(cls[i]);
        }
    }
    v
}

fn table_kernels() -> Vec<Value> {
    vec![
        kdesc("linear", 1, 1, 1, 0, 1),
        kdesc("rbf", 1, 1, 2, 0, 1),
        kdesc("poly", 2, 1, 2, 1, 1),
        kdesc("sigmoid", 1, 1, 8, -1, 2),
    ]
}

fn gen_replay_spec(spec_file: &str, out: &mut Out) {
    // lines {"n":4,"epochs":1,"orders":[[..],[..]]} printed by TLC from SvmSchedule.tla
    let lines = read_ndjson(spec_file);
    let seed = seed();
    let mut run = 0i64;
    let kernels = table_kernels();
    let mut jobs: Vec<Job> = Vec::new();
    for (li, l) in lines.iter().enumerate() {
        let n = l["n"].as_u64().unwrap() as usize;
        let epochs = l["epochs"].as_u64().unwrap() as usize;
        let sched: Vec<Vec<usize>> = l["orders"]
            .as_array()
            .unwrap()
            .iter()
            .map(|o| o.as_array().unwrap().iter().map(|v| v.as_u64().unwrap() as usize).collect())
            .collect();
        let sets = table_sets(n);
        // every schedule meets every kernel; the data set / C / label encoding rotate with the
        // schedule number and the seed so that, over the seeds, every combination is visited.
        // the one-epoch schedules of four rows (the quick scope) meet two data sets per kernel
        let reps = if n == 4 && epochs == 1 { 2 } else { 1 };
        for (ki, k) in kernels.iter().enumerate() {
            for rep in 0..reps {
                let h = (li as u64)
                    .wrapping_mul(0x9E37_79B9)
                    .wrapping_add(seed.wrapping_mul(7919))
                    .wrapping_add((ki as u64) * 31 + (rep as u64) * 17);
                let (x, pos) = &sets[((h >> 3) as usize + rep * 3) % sets.len()];
                let lab = LABELS[((h >> 11) as usize) % LABELS.len()];
                let c = [(1i64, 2i64), (1, 1), (4, 1), (1, 8)][((h >> 17) as usize) % 4];
                let p = x[0].len();
                let q: Vec<Vec<i64>> = vec![vec![0; p], vec![1; p], (0..p as i64).map(|j| j - 1).collect()];
                run += 1;
                let mut inp = svc_input(x, pos, lab, c, k.clone(), epochs, 10, sched.clone(), q);
                inp["api"] = json!((li + ki) % 7 == 3);
                jobs.push(Job { run, src: "sched", svr: false, inp });
            }
        }
    }
    run_jobs(jobs, out);
}

fn gen_svc(out: &mut Out) {
    let mut r = rng(1010);
    let th = thorough();
    let cnt = if th { 6000 } else { 1100 };
    let mut run = 1_000_000i64;
    let mut jobs: Vec<Job> = Vec::new();
    for it in 0..cnt {
        let big = it % 10 == 0;
        let n = if big {
            r.gen_range(if th { 30..=80 } else { 20..=40 })
        } else {
            r.gen_range(4..=if th { 24 } else { 14 })
        };
        let p = r.gen_range(1..=5usize);
        let kind = r.gen_range(0..3u32);
        let amp = amp_of(it);
        let (x, pos) = rand_svc_data(&mut r, n, p, kind, amp);
        let lab = *LABELS.choose(&mut r).unwrap();
        let c = *CS.choose(&mut r).unwrap();
        let root = it % 12 == 7;
        let k = if root { rand_root_kernel(&mut r) } else { rand_kernel(&mut r, false) };
        let x = if root { abs_rows(&x) } else { x };
        let epochs = r.gen_range(1..=4usize);
        let tol_e = *[7i64, 10, 13].choose(&mut r).unwrap();
        let unseeded = it % 25 == 24;
        let sched: Vec<Vec<usize>> =
            if unseeded { vec![] } else { (0..=epochs).map(|_| rand_perm(&mut r, n)).collect() };
        let nq = r.gen_range(1..=4);
        let q: Vec<Vec<i64>> = (0..nq).map(|_| rand_row(&mut r, p, 4)).collect();
        let q = if root { abs_rows(&q) } else { q };
        run += 1;
        let mut inp = svc_input(&x, &pos, lab, c, k, epochs, tol_e, sched, q);
        if it % 9 == 4 {
            let (name, lo, hi) = float_labels(&mut r, it / 9);
            inp = with_float_labels(inp, &pos, name, lo, hi);
        }
        inp["api"] = json!(it % 5 == 1);
        if inp["kernel"]["name"] == "rbf" && it % 3 == 0 {
            inp["off"] = json!([20, 27, 30][(it / 3) % 3]);
        }
        jobs.push(Job { run, src: if unseeded { "unseeded" } else { "rand" }, svr: false, inp });
    }
    // size ladder, training side: a handful of larger training sets (sizes around 64 / 128 / 256)
    let sizes: Vec<usize> = if th { vec![63, 65, 96, 128, 129, 200, 255, 257, 300] } else { vec![65, 129, 257] };
    for (j, &n) in sizes.iter().enumerate() {
        let p = r.gen_range(2..=4usize);
        let (x, pos) = rand_svc_data(&mut r, n, p, 1, 3);
        let k = [kdesc("linear", 1, 1, 1, 0, 1), kdesc("rbf", 1, 1, 8, 0, 1), kdesc("poly", 2, 1, 4, 1, 1)][j % 3].clone();
        let epochs = 1 + j % 2;
        let sched: Vec<Vec<usize>> = (0..=epochs).map(|_| rand_perm(&mut r, n)).collect();
        let q: Vec<Vec<i64>> = (0..3).map(|_| rand_row(&mut r, p, 4)).collect();
        run += 1;
        let mut inp = svc_input(&x, &pos, *LABELS.choose(&mut r).unwrap(), (1, 1), k, epochs, 10, sched, q);
        inp["api"] = json!(j % 2 == 1);
        jobs.push(Job { run, src: "rand", svr: false, inp });
    }
    // size ladder, query side: ONE decision_function / predict call on B rows against the same rows
    // evaluated in blocks (SvcBatch events)
    let mut ladder: Vec<usize> = LADDER.to_vec();
    ladder.push(if th { 5000 } else { 3000 });
    for (j, &b) in ladder.iter().enumerate() {
        let n = r.gen_range(6..=14usize);
        let p = r.gen_range(1..=4usize);
        let kind = r.gen_range(0..3u32);
        let (x, pos) = rand_svc_data(&mut r, n, p, kind, 3);
        let root = j % 8 == 5;
        let k = if root { rand_root_kernel(&mut r) } else { rand_kernel(&mut r, false) };
        let x = if root { abs_rows(&x) } else { x };
        let epochs = r.gen_range(1..=3usize);
        let sched: Vec<Vec<usize>> = (0..=epochs).map(|_| rand_perm(&mut r, n)).collect();
        let (batch, q) = make_batch(&mut r, b, p, root);
        run += 1;
        let mut inp = svc_input(&x, &pos, *LABELS.choose(&mut r).unwrap(), *CS.choose(&mut r).unwrap(), k, epochs,
                                10, sched, q);
        if j % 4 == 2 {
            let (name, lo, hi) = float_labels(&mut r, j);
            inp = with_float_labels(inp, &pos, name, lo, hi);
        }
        inp["api"] = json!(j % 3 == 1);
        inp["batch"] = batch;
        jobs.push(Job { run, src: "rand", svr: false, inp });
    }
    run_jobs(jobs, out);
}

fn gen_svr(out: &mut Out) {
    let mut r = rng(2020);
    let th = thorough();
    let cnt = if th { 5000 } else { 900 };
    let mut run = 2_000_000i64;
    let mut jobs: Vec<Job> = Vec::new();
    for it in 0..cnt {
        let big = it % 10 == 0;
        let n = if big {
            r.gen_range(if th { 25..=60 } else { 16..=30 })
        } else {
            r.gen_range(4..=if th { 20 } else { 12 })
        };
        let p = r.gen_range(1..=5usize);
        let amp = amp_of(it);
        let mut x: Vec<Vec<i64>> = (0..n).map(|_| rand_row(&mut r, p, amp)).collect();
        // targets: multiples of 1/4; linear in x plus bounded noise, or a bump, or constant
        let wv = rand_row(&mut r, p, 2);
        let shape = r.gen_range(0..4u32);
        let mut y4: Vec<i64> = x
            .iter()
            .map(|row| {
                let lin: i64 = row.iter().zip(&wv).map(|(a, b)| a * b).sum();
                match shape {
                    0 => 4 * lin + 4,
                    1 => 4 * lin + r.gen_range(-6..=6),
                    2 => 2 * lin * lin - 8 + r.gen_range(-2..=2),
                    _ => r.gen_range(-12..=12),
                }
            })
            .collect();
        if it % 7 == 3 && n >= 5 {
            // duplicated rows, equal or different targets
            let i = r.gen_range(0..n);
            let j = (i + 1 + r.gen_range(0..n - 1)) % n;
            x[j] = x[i].clone();
            if r.gen_bool(0.5) {
                y4[j] = y4[i];
            }
        }
        let c = *CS.choose(&mut r).unwrap();
        let eps16 = *[0i64, 8192, 16384, 32768, 6554].choose(&mut r).unwrap();
        let tol16 = *[512i64, 64, 8].choose(&mut r).unwrap();
        // every eighth fit uses a sigmoid kernel (not positive semi-definite: optimality and
        // termination are outside the property; recorded so the remaining clauses are checked)
        let k = if it % 8 == 5 {
            kdesc("sigmoid", 1, 1, *[8i64, 32].choose(&mut r).unwrap(), *[0i64, 1].choose(&mut r).unwrap(), 1)
        } else {
            rand_kernel(&mut r, true)
        };
        let nq = r.gen_range(1..=3);
        let q: Vec<Vec<i64>> = (0..nq).map(|_| rand_row(&mut r, p, 4)).collect();
        // every sixteenth fit: polynomial kernel of fractional degree on non-negative features (like
        // sigmoid outside the termination / optimality clauses; feasibility and expansion are checked)
        let root = it % 16 == 9;
        let k = if root { rand_root_kernel(&mut r) } else { k };
        let x = if root { abs_rows(&x) } else { x };
        let q = if root { abs_rows(&q) } else { q };
        let mut y16: Vec<i64> = y4.iter().map(|v| v * 16384).collect();
        let mut eps16 = eps16;
        // every sixth fit: targets confined to a band that is narrow relative to epsilon -- the
        // situations in which the optimum has few or no support vectors and the bias alone decides
        // whether the zero-weight points are inside the tube.
        //   0 constant   1 range <= eps   2 eps < range <= 2 eps, skewed (outliers at one end)
        //   3 range = 2 eps exactly, skewed   4 range = 2 eps + one grid step, skewed   5 eps = 0
        if it % 6 == 2 {
            let kind = (it / 6) % 6;
            eps16 = if kind == 5 { 0 } else { *[8192i64, 16384, 32768].choose(&mut r).unwrap() };
            let u = if eps16 == 0 { 4096 } else { eps16 / 8 }; // grid step (exact binary fraction)
            let base = r.gen_range(-3..=3) * 16384i64;
            let range = match kind {
                0 => 0,
                1 => u * r.gen_range(1..=8),
                2 => u * r.gen_range(9..=16),
                3 => u * 16,
                4 => u * 17,
                _ => u * r.gen_range(0..=2),
            };
            let outliers = r.gen_range(1..=2usize.min(n - 1));
            let high_end = r.gen_bool(0.5);
            for (i, v) in y16.iter_mut().enumerate() {
                let far = i < outliers;
                // the bulk sits at one end (with a little spread when the band allows), the outliers at the other
                let spread = if range >= 4 * u { u * r.gen_range(0..=1) } else { 0 };
                let off = if far { range } else { spread };
                *v = base + if high_end { off } else { range - off };
            }
            // outliers at random positions, not always in front
            for i in 0..outliers {
                let j = r.gen_range(0..n);
                y16.swap(i, j);
            }
        }
        run += 1;
        let inp = json!({"X": x, "y16": y16, "Q": q, "Cn": c.0, "Cd": c.1, "C16": c.0 * 65536 / c.1,
                         "eps16": eps16, "tol16": tol16, "kernel": k, "api": it % 5 == 3});
        let mut inp = inp;
        if inp["kernel"]["name"] == "rbf" && it % 3 == 0 {
            inp["off"] = json!([20, 27, 30][(it / 3) % 3]);
        }
        jobs.push(Job { run, src: "rand", svr: true, inp });
    }
    // size ladder, training side: a handful of larger regression sets with noisy targets, small
    // epsilon and a large C, so that most rows become support vectors (kernel-row caches, working-set
    // bookkeeping and anything else with a size threshold is exercised)
    let sizes: Vec<usize> = if th { vec![63, 65, 91, 96, 128, 129, 140, 200, 257] } else { vec![65, 96, 129, 140, 200] };
    for (j, &n) in sizes.iter().enumerate() {
        let p = r.gen_range(2..=4usize);
        let x: Vec<Vec<i64>> = (0..n).map(|_| rand_row(&mut r, p, 3)).collect();
        let wv = rand_row(&mut r, p, 2);
        let y16: Vec<i64> = x
            .iter()
            .map(|row| {
                let lin: i64 = row.iter().zip(&wv).map(|(a, b)| a * b).sum();
                (4 * lin + r.gen_range(-8..=8)) * 16384
            })
            .collect();
        let k = [kdesc("rbf", 1, 1, 8, 0, 1), kdesc("linear", 1, 1, 1, 0, 1), kdesc("rbf", 1, 1, 2, 0, 1),
                 kdesc("poly", 2, 1, 4, 1, 1)][j % 4].clone();
        let c = [(4i64, 1i64), (16, 1)][j % 2];
        let eps16 = [0i64, 8192][(j / 2) % 2];
        let q: Vec<Vec<i64>> = (0..2).map(|_| rand_row(&mut r, p, 4)).collect();
        run += 1;
        let inp = json!({"X": x, "y16": y16, "Q": q, "Cn": c.0, "Cd": c.1, "C16": c.0 * 65536 / c.1,
                         "eps16": eps16, "tol16": 512, "kernel": k, "api": j % 2 == 1});
        jobs.push(Job { run, src: "rand", svr: true, inp });
    }
    // size ladder, query side (SvrBatch events)
    let ladder: Vec<usize> = if th { LADDER.to_vec() } else { vec![64, 65, 256, 257, 513, 1025] };
    for (j, &b) in ladder.iter().enumerate() {
        let n = r.gen_range(6..=14usize);
        let p = r.gen_range(1..=4usize);
        let x: Vec<Vec<i64>> = (0..n).map(|_| rand_row(&mut r, p, 3)).collect();
        let wv = rand_row(&mut r, p, 2);
        let y16: Vec<i64> = x
            .iter()
            .map(|row| {
                let lin: i64 = row.iter().zip(&wv).map(|(a, b)| a * b).sum();
                (4 * lin + r.gen_range(-4..=4)) * 16384
            })
            .collect();
        let k = rand_kernel(&mut r, true);
        let c = *CS.choose(&mut r).unwrap();
        let (batch, q) = make_batch(&mut r, b, p, false);
        run += 1;
        let inp = json!({"X": x, "y16": y16, "Q": q, "Cn": c.0, "Cd": c.1, "C16": c.0 * 65536 / c.1,
                         "eps16": *[0i64, 8192, 16384].choose(&mut r).unwrap(), "tol16": 64, "kernel": k,
                         "api": j % 3 == 2, "batch": batch});
        jobs.push(Job { run, src: "rand", svr: true, inp });
    }
    run_jobs(jobs, out);
}

fn all_vectors(p: usize, a: i64) -> Vec<Vec<i64>> {
    let mut v: Vec<Vec<i64>> = vec![vec![]];
    for _ in 0..p {
        let mut nv = Vec::new();
        for pre in &v {
            for t in -a..=a {
                let mut w = pre.clone();
                w.push(t);
                nv.push(w);
            }
        }
        v = nv;
    }
    v
}

fn gen_kernel(out: &mut Out) {
    let mut r = rng(3030);
    let th = thorough();
    let mut run = 3_000_000i64;
    // (a) pairs: exhaustive over {-2..2}^2 x {-2..2}^2 for a table of kernels, random beyond
    let ktab: Vec<(Value, u64)> = vec![
        (kdesc("linear", 1, 1, 1, 0, 1), 10),
        (kdesc("poly", 2, 1, 2, 1, 1), 10),
        (kdesc("poly", 3, 1, 4, 1, 2), 8),
        (kdesc("poly", 2, 3, 2, 0, 1), 10),
        (kdesc("poly", 1, 1, 1, -1, 1), 10),
        // fractional degrees deg/dd: closed form decided through the dd-th power (Kernels.tla RootClosed)
        (kdescf("poly", 1, 2, 1, 2, 1, 1), 8),
        (kdescf("poly", 3, 2, 1, 2, 1, 1), 6),
        (kdescf("poly", 5, 2, 1, 2, 1, 1), 6),
        (kdescf("poly", 1, 4, 1, 1, 2, 1), 3),
        (kdescf("poly", 3, 4, 1, 1, 2, 1), 3),
        (kdescf("poly", 5, 4, 1, 1, 2, 1), 3),
        (kdesc("rbf", 1, 1, 8, 0, 1), 14),
        (kdesc("rbf", 1, 1, 2, 0, 1), 14),
        (kdesc("sigmoid", 1, 1, 8, 1, 2), 10),
        (kdesc("sigmoid", 1, 1, 4, -1, 1), 10),
    ];
    let vs = all_vectors(2, 2);
    for (k, sc) in ktab.iter() {
        for x in vs.iter() {
            for z in vs.iter() {
                if !th && (x[0] + 2 * x[1] + 3 * z[0] + z[1]).rem_euclid(2) == 1 {
                    continue; // quick tier: every second pair
                }
                run += 1;
                out.emit(k_event(run, json!({"kernel": k, "x": x, "z": z, "S": sc, "off": 0})));
                // RBF only (the other kernels are not translation invariant): the same pair with a
                // large common offset
                if k["name"] == "rbf" {
                    run += 1;
                    let off = if (x[0] + z[1]).rem_euclid(2) == 0 { 27 } else { 30 };
                    out.emit(k_event(run, json!({"kernel": k, "x": x, "z": z, "S": sc, "off": off})));
                }
            }
        }
    }
    let cnt = if th { 6000 } else { 1200 };
    for _ in 0..cnt {
        let p = r.gen_range(1..=5usize);
        let x = rand_row(&mut r, p, 3);
        let z = if r.gen_bool(0.1) { x.clone() } else { rand_row(&mut r, p, 3) };
        let (k, sc) = match r.gen_range(0..5) {
            4 => {
                // half- and quarter-integer degrees; coef0 large enough that most bases are >= 0
                let dd = *[2i64, 2, 4].choose(&mut r).unwrap();
                let deg = *[1i64, 3, 5].choose(&mut r).unwrap();
                (kdescf("poly", deg, dd, 1, *[2i64, 4, 8].choose(&mut r).unwrap(),
                        *[1i64, 2, 4].choose(&mut r).unwrap(), 1), if dd == 2 { 6 } else { 3 })
            }
            0 => (kdesc("linear", 1, 1, 1, 0, 1), 10),
            1 => (kdesc("poly", *[1i64, 2, 3].choose(&mut r).unwrap(), *[1i64, 3].choose(&mut r).unwrap(),
                        *[1i64, 2, 4, 8].choose(&mut r).unwrap(), *[-1i64, 0, 1, 3].choose(&mut r).unwrap(),
                        *[1i64, 2].choose(&mut r).unwrap()), 6),
            2 => (kdesc("rbf", 1, 1, *[4i64, 8, 16, 32].choose(&mut r).unwrap(), 0, 1), 14),
            _ => (kdesc("sigmoid", 1, 1, *[8i64, 16, 32].choose(&mut r).unwrap(),
                        *[-1i64, 0, 1].choose(&mut r).unwrap(), *[1i64, 2].choose(&mut r).unwrap()), 10),
        };
        run += 1;
        let off = if k["name"] == "rbf" { *[0i64, 20, 27, 30].choose(&mut r).unwrap() } else { 0 };
        out.emit(k_event(run, json!({"kernel": k, "x": x, "z": z, "S": sc, "off": off})));
    }
    // (b) Gram matrices of small point sets
    let gcnt = if th { 1500 } else { 300 };
    for it in 0..gcnt {
        let n = r.gen_range(2..=5usize);
        let p = r.gen_range(1..=3usize);
        let mut x: Vec<Vec<i64>> = (0..n).map(|_| rand_row(&mut r, p, 3)).collect();
        if it % 5 == 0 && n >= 3 {
            x[1] = x[0].clone(); // singular Gram matrix
        }
        let k = match it % 4 {
            0 => kdesc("linear", 1, 1, 1, 0, 1),
            1 => kdesc("rbf", 1, 1, *[8i64, 16, 32].choose(&mut r).unwrap(), 0, 1),
            2 => kdesc("rbf", 1, 1, *[2i64, 4].choose(&mut r).unwrap(), 0, 1),
            _ => kdesc("sigmoid", 1, 1, *[8i64, 16, 32].choose(&mut r).unwrap(),
                       *[-1i64, 0, 1].choose(&mut r).unwrap(), 1),
        };
        run += 1;
        let off = if k["name"] == "rbf" { *[0i64, 27, 30].choose(&mut r).unwrap() } else { 0 };
        out.emit(gram_event(run, json!({"kernel": k, "X": x, "S": 12, "off": off})));
    }
    // (c) chains: the points P_k = (1,..,1,0,..,0) (k ones, k = 0..m) satisfy |P_i - P_j|^2 = |i - j|
    //     and <P_i, P_j> = min(i, j), so squared distances / inner products run through 0..m and
    //     every way of writing one of them as a sum of two others occurs: this feeds the
    //     functional-equation clauses (exp(-(s+t)) = exp(-s)exp(-t), tanh addition theorem),
    //     anchored by the Taylor enclosures at the small arguments.
    let chains = if th { 60 } else { 18 };
    for it in 0..chains {
        let m = if it < 3 { 5 } else { r.gen_range(3..=5usize) };
        let x: Vec<Vec<i64>> = (0..=m).map(|k| (0..m).map(|j| if j < k { 1 } else { 0 }).collect()).collect();
        let (k, sc) = match it % 3 {
            0 => (kdesc("rbf", 1, 1, *[1i64, 2, 4, 8].choose(&mut r).unwrap(), 0, 1), 12),
            1 => (kdesc("rbf", 1, *[1i64, 3].choose(&mut r).unwrap(), *[16i64, 32, 64].choose(&mut r).unwrap(), 0, 1), 12),
            _ => (kdesc("sigmoid", 1, 1, *[4i64, 8, 16, 32].choose(&mut r).unwrap(),
                        if it < 3 { 0 } else { *[0i64, 0, 1, -1].choose(&mut r).unwrap() },
                        *[1i64, 4].choose(&mut r).unwrap()), 9),
        };
        run += 1;
        let off = if k["name"] == "rbf" { *[0i64, 27, 30].choose(&mut r).unwrap() } else { 0 };
        out.emit(gram_event(run, json!({"kernel": k, "X": x, "S": sc, "off": off})));
    }
}

/// re-execute recorded events from their `in` part (replay of a violation artefact)
fn rerun(infile: &str, out: &mut Out) {
    for e in read_ndjson(infile) {
        let run = e["run"].as_i64().unwrap_or(0);
        let src = e["src"].as_str().unwrap_or("replay").to_string();
        let inp = e["in"].clone();
        let v = match e["ev"].as_str().unwrap_or("") {
            "SvcFit" | "SvcBatch" => svc_event(run, &src, inp),
            "SvrFit" | "SvrBatch" => svr_event(run, &src, inp),
            "K" => k_event(run, inp),
            "Gram" => gram_event(run, inp),
            _ => e.clone(),
        };
        out.emit(v);
    }
}

fn main() {
    let args: Vec<String> = std::env::args().skip(1).collect();
    let args = &args[..];
    silence_panics();
    let mode = arg(args, 0);
    match mode {
        "replay-spec" => {
            let mut out = Out::create(arg(args, 2));
            gen_replay_spec(arg(args, 1), &mut out);
            println!("{} events", out.finish());
        }
        "gen-svc" => {
            let mut out = Out::create(arg(args, 1));
            gen_svc(&mut out);
            println!("{} events", out.finish());
        }
        "gen-svr" => {
            let mut out = Out::create(arg(args, 1));
            gen_svr(&mut out);
            println!("{} events", out.finish());
        }
        "gen-kernel" => {
            let mut out = Out::create(arg(args, 1));
            gen_kernel(&mut out);
            println!("{} events", out.finish());
        }
        "rerun" => {
            let mut out = Out::create(arg(args, 2));
            rerun(arg(args, 1), &mut out);
            println!("{} events", out.finish());
        }
        _ => {
            eprintln!("usage: c10 replay-spec <schedules.ndjson> <out> | gen-svc|gen-svr|gen-kernel <out> | rerun <in> <out>");
            std::process::exit(2);
        }
    }
    // abandoned watchdog threads (timeouts) must not keep the process alive
    std::process::exit(0);
}
