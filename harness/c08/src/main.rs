fn main() {}
