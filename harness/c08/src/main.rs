//! C08 — Lasso and elastic net.  Generates integer-valued regression problems and parameter
//! settings (valid and invalid), runs the real `Lasso::fit` / `ElasticNet::fit` (+ `predict`)
//! under a watchdog, and records status and fixed-point outputs at several scales.  Related
//! fits (target shifted by a constant; elastic net with l1_ratio = 1 versus Lasso) are
//! additionally recorded side by side as `Pair` events.  No property logic: every verdict is
//! taken by spec/linear/Lasso.tla under TLC (including the choice of the scale that is safe
//! for 32-bit arithmetic).
use rand::rngs::StdRng;
use rand::Rng;
use serde_json::{json, Value};
use smartcore::api::{Predictor, SupervisedEstimator};
use smartcore::linalg::naive::dense_matrix::DenseMatrix;
use smartcore::linalg::BaseMatrix;
use smartcore::linear::elastic_net::*;
use smartcore::linear::lasso::*;
use vutil::*;

const SCALES: [u32; 4] = [12, 9, 6, 3];
/// a normal fit takes milliseconds; the bulk of the run gets a generous limit, the probes of
/// the hang-prone classes at the end of the run (whose abandoned threads keep spinning until
/// the process exits) a short one
const WATCHDOG_SECS: u64 = 20;
const WATCHDOG_PROBE_SECS: u64 = 4;

#[derive(Clone)]
struct Params {
    est: &'static str, // "lasso" | "enet"
    an: i64,
    ae: u32,
    l1n: i64,
    l1e: u32,
    normalize: bool,
    tol_sgn: i64,
    tol_e: u32,
    max_iter: usize,
    /// exact power-of-two rescaling of alpha that goes with the rescaling of the data
    /// (see `Data::xexp`, `Data::yexp`); the event records the unscaled alpha = aN / 2^aE
    aexp: i32,
    /// entry point: false = the inherent `Lasso::fit` / `predict`, true = the api traits
    /// `SupervisedEstimator::fit` / `Predictor::predict` (fully qualified calls)
    api: bool,
}

impl Params {
    fn alpha(&self) -> f64 {
        self.an as f64 / (1u64 << self.ae) as f64 * (2.0f64).powi(self.aexp)
    }
    fn l1(&self) -> f64 {
        self.l1n as f64 / (1u64 << self.l1e) as f64
    }
    fn tol(&self) -> f64 {
        self.tol_sgn as f64 * (2.0f64).powi(-(self.tol_e as i32))
    }
}

#[derive(Clone)]
struct Data {
    fam: String,
    x: Vec<Vec<i64>>,
    xden: i64,
    y: Vec<i64>,
    /// Scale family.  The library is fed X * 2^xexp and y * 2^yexp (exact in binary floating
    /// point) together with alpha * 2^aexp, chosen so that the stated objective is exactly
    /// homogeneous: the minimiser of the scaled problem is the minimiser of the integer
    /// problem times 2^(yexp - xexp).  `run_fit` undoes the scaling exactly, so the events
    /// (and the specification) only ever see the integer problem.
    ///   Lasso / l1_ratio = 1 :  yexp = aexp = f            (w' = w 2^f)
    ///   elastic net, raw     :  xexp = yexp = g, aexp = 2g (w' = w)
    xexp: i32,
    yexp: i32,
    /// Target-offset family.  The stated objective depends on y only through y - mean(y), so
    /// adding a constant to every target changes the intercept by that constant and nothing
    /// else.  The library is fed (y + yoff) * 2^yexp with a large exactly representable yoff
    /// (2^30 .. 2^36, 1e9: |mean| / spread up to 1e10); `run_fit` subtracts yoff from the
    /// intercept and the predictions again, the event carries the small integers y and `yoff`.
    yoff: i64,
}

struct Outcome {
    status: &'static str,
    w: Vec<f64>,
    b: f64,
    yhat: Vec<f64>,
}

fn run_fit(d: &Data, pr: &Params) -> Outcome {
    run_fit_limit(d, pr, WATCHDOG_SECS)
}

fn run_fit_limit(d: &Data, pr: &Params, secs: u64) -> Outcome {
    let xs = (2.0f64).powi(d.xexp);
    let ys = (2.0f64).powi(d.yexp);
    let wback = (2.0f64).powi(d.xexp - d.yexp);
    let yback = (2.0f64).powi(-d.yexp);
    let rows: Vec<Vec<f64>> = d.x.iter().map(|r| r.iter().map(|&v| v as f64 * xs / d.xden as f64).collect()).collect();
    let y: Vec<f64> = d.y.iter().map(|&v| (v + d.yoff) as f64 * ys).collect();
    let yoff = d.yoff as f64;
    let pr = pr.clone();
    let p = if rows.is_empty() { 0 } else { rows[0].len() };
    let r = watchdog(secs, move || {
        let x = DenseMatrix::from_2d_vec(&rows);
        type Dm = DenseMatrix<f64>;
        let coef = |m: &Dm| (0..p).map(|j| m.get(j, 0)).collect::<Vec<f64>>();
        if pr.est == "lasso" {
            let par = LassoParameters { alpha: pr.alpha(), normalize: pr.normalize, tol: pr.tol(), max_iter: pr.max_iter };
            if pr.api {
                <Lasso<f64, Dm> as SupervisedEstimator<Dm, Vec<f64>, LassoParameters<f64>>>::fit(&x, &y, par).and_then(|m| {
                    let yh = <Lasso<f64, Dm> as Predictor<Dm, Vec<f64>>>::predict(&m, &x)?;
                    Ok((coef(m.coefficients()), m.intercept(), yh))
                })
            } else {
                Lasso::fit(&x, &y, par).and_then(|m| {
                    let yh = m.predict(&x)?;
                    Ok((coef(m.coefficients()), m.intercept(), yh))
                })
            }
        } else {
            let par = ElasticNetParameters { alpha: pr.alpha(), l1_ratio: pr.l1(), normalize: pr.normalize, tol: pr.tol(), max_iter: pr.max_iter };
            if pr.api {
                <ElasticNet<f64, Dm> as SupervisedEstimator<Dm, Vec<f64>, ElasticNetParameters<f64>>>::fit(&x, &y, par).and_then(|m| {
                    let yh = <ElasticNet<f64, Dm> as Predictor<Dm, Vec<f64>>>::predict(&m, &x)?;
                    Ok((coef(m.coefficients()), m.intercept(), yh))
                })
            } else {
                ElasticNet::fit(&x, &y, par).and_then(|m| {
                    let yh = m.predict(&x)?;
                    Ok((coef(m.coefficients()), m.intercept(), yh))
                })
            }
        }
    });
    match r {
        None => Outcome { status: "timeout", w: vec![], b: 0.0, yhat: vec![] },
        Some(Err(_)) => Outcome { status: "panic", w: vec![], b: 0.0, yhat: vec![] },
        Some(Ok(Err(_))) => Outcome { status: "err", w: vec![], b: 0.0, yhat: vec![] },
        Some(Ok(Ok((w, b, yhat)))) => Outcome {
            status: "ok",
            w: w.iter().map(|v| v * wback).collect(),
            b: b * yback - yoff,
            yhat: yhat.iter().map(|v| v * yback - yoff).collect(),
        },
    }
}

fn finite(o: &Outcome) -> bool {
    o.status == "ok" && o.b.is_finite() && o.w.iter().all(|v| v.is_finite()) && o.yhat.iter().all(|v| v.is_finite())
}

fn fit_event(run: i64, d: &Data, pr: &Params, o: &Outcome) -> Value {
    let fin = finite(o);
    let mut q = vec![];
    if fin {
        for &s in SCALES.iter() {
            let qz = Q::with_limit(s, 1.0e9);
            let w = qz.v(&o.w);
            let b = qz.x(o.b);
            let yh = qz.v(&o.yhat);
            if qz.ok() {
                q.push(json!({"S": s, "W": w, "B": b, "Yhat": yh}));
            }
        }
    }
    json!({"run": run, "ev": "Fit", "est": pr.est, "fam": d.fam, "n": d.x.len(), "p": if d.x.is_empty() {0} else {d.x[0].len()},
        "X": d.x, "xden": d.xden, "y": d.y, "ylen": d.y.len(), "xexp": d.xexp, "yexp": d.yexp, "aexp": pr.aexp,
        "yoff": d.yoff, "entry": if pr.api { "api" } else { "inherent" },
        "aN": pr.an, "aE": pr.ae, "l1N": pr.l1n, "l1E": pr.l1e, "normalize": pr.normalize,
        "tolSgn": pr.tol_sgn, "tolE": pr.tol_e,
        // usize::MAX does not fit the specification's 32-bit integers: the value is clamped at
        // 2^30 for the event, the class says which promise applies
        "maxIter": pr.max_iter.min(1 << 30), "maxIterClass": if pr.max_iter == 0 { "zero" } else if pr.max_iter < 1000 { "tiny" } else if pr.max_iter == 1000 { "default" } else { "huge" },
        "status": o.status, "fin": fin, "q": q})
}

/// `c` is the shift of the targets of fit B relative to fit A; `via_offset` says that it was
/// applied through `Data::yoff` (so fit B's intercept has already been shifted back and the
/// recorded C is 0)
fn pair_event(run: i64, kind: &str, d: &Data, pr: &Params, c: i64, via_offset: bool, a: &Outcome, b: &Outcome) -> Value {
    let fin = finite(a) && finite(b);
    let mut q = vec![];
    if fin {
        for &s in SCALES.iter() {
            let qz = Q::with_limit(s, 1.0e9);
            let wa = qz.v(&a.w);
            let ba = qz.x(a.b);
            let wb = qz.v(&b.w);
            let bb = qz.x(b.b);
            let cc = qz.x(if via_offset { 0.0 } else { c as f64 });
            if qz.ok() {
                q.push(json!({"S": s, "WA": wa, "BA": ba, "WB": wb, "BB": bb, "C": cc}));
            }
        }
    }
    json!({"run": run, "ev": "Pair", "kind": kind, "est": pr.est, "fam": d.fam, "n": d.x.len(), "p": d.x[0].len(),
        "X": d.x, "y": d.y, "shift": c, "xexp": d.xexp, "yexp": d.yexp, "aexp": pr.aexp, "yoff": 0, "entry": "inherent",
        "aN": pr.an, "aE": pr.ae, "l1N": pr.l1n, "l1E": pr.l1e, "normalize": pr.normalize, "tolE": pr.tol_e,
        "statusA": a.status, "statusB": b.status, "fin": fin, "q": q})
}

// ------------------------------------------------------------------ generators
fn gen_x(rng: &mut StdRng, n: usize, p: usize, fam: &str) -> Vec<Vec<i64>> {
    let mut x = vec![vec![0i64; p]; n];
    match fam {
        "dense" | "bigmean" => {
            for j in 0..p {
                let c: i64 = if fam == "dense" { rng.gen_range(-12..=12) } else { rng.gen_range(30..=90) * if rng.gen_bool(0.5) { 1 } else { -1 } };
                let a: i64 = rng.gen_range(1..=6);
                for i in 0..n {
                    x[i][j] = c + rng.gen_range(-a..=a);
                }
            }
        }
        "collinear" => {
            for i in 0..n {
                x[i][0] = rng.gen_range(-6..=6);
            }
            for j in 1..p {
                let k: i64 = rng.gen_range(-2..=2);
                let c: i64 = rng.gen_range(-4..=4);
                for i in 0..n {
                    x[i][j] = k * x[i][0] + c + rng.gen_range(-1..=1);
                }
            }
        }
        "pm1" => {
            for j in 0..p {
                let c: i64 = rng.gen_range(0..=2);
                for i in 0..n {
                    x[i][j] = c + if rng.gen_bool(0.5) { 1 } else { -1 };
                }
            }
        }
        _ => {
            for j in 0..p {
                for i in 0..n {
                    x[i][j] = if rng.gen_bool(0.5) { 0 } else { rng.gen_range(-9..=9) };
                }
            }
            for j in 0..p {
                x[0][j] = 0;
            }
        }
    }
    x
}

fn has_constant_column(x: &[Vec<i64>]) -> bool {
    (0..x[0].len()).any(|j| x.iter().all(|r| r[j] == x[0][j]))
}

/// targets: 0 = random with mean exactly 0, 1 = linear + noise with mean exactly 0,
/// 2 = random moderate mean, 3 = linear + noise, 4 = large mean (|mean| >> spread)
fn gen_y(rng: &mut StdRng, x: &[Vec<i64>], kind: usize) -> Vec<i64> {
    let n = x.len();
    let p = x[0].len();
    let lin = |rng: &mut StdRng| -> Vec<i64> {
        let w: Vec<i64> = (0..p).map(|_| if rng.gen_bool(0.4) { 0 } else { rng.gen_range(-3..=3) }).collect();
        (0..n)
            .map(|i| {
                let mut v = 0;
                for k in 0..p {
                    v += w[k] * x[i][k];
                }
                v.max(-300).min(300) + rng.gen_range(-2..=2)
            })
            .collect()
    };
    let zero_mean = |mut y: Vec<i64>| -> Vec<i64> {
        // make the sum a multiple of n by adjusting one entry, then subtract the integer mean
        let n = y.len() as i64;
        let s: i64 = y.iter().sum();
        y[0] -= s.rem_euclid(n);
        let m = y.iter().sum::<i64>() / n;
        y.iter().map(|v| v - m).collect()
    };
    match kind {
        0 => zero_mean((0..n).map(|_| rng.gen_range(-30..=30)).collect()),
        1 => zero_mean(lin(rng)),
        2 => {
            let m: i64 = rng.gen_range(-40..=40);
            (0..n).map(|_| m + rng.gen_range(-30..=30)).collect()
        }
        3 => {
            let m: i64 = rng.gen_range(-40..=40);
            lin(rng).iter().map(|v| v + m).collect()
        }
        _ => {
            let m: i64 = [1000, -3000, 20000, 100000][rng.gen_range(0..4)];
            (0..n).map(|_| m + rng.gen_range(-8..=8)).collect()
        }
    }
}

const FAMS: [&str; 5] = ["dense", "bigmean", "collinear", "pm1", "zeros"];
const ALPHAS: [(i64, u32); 10] = [(1, 10), (1, 6), (1, 3), (1, 1), (1, 0), (3, 0), (10, 0), (40, 0), (200, 0), (1000, 0)];
const L1S: [(i64, u32); 4] = [(1, 0), (1, 1), (1, 2), (3, 2)];
const TOLS: [u32; 3] = [10, 14, 20];

fn gen_data(rng: &mut StdRng, big: bool) -> Data {
    loop {
        let p: usize = if big { rng.gen_range(1..=6) } else { rng.gen_range(1..=4) };
        let n: usize = if big { rng.gen_range(p + 1..=p + 14) } else { rng.gen_range(p + 1..=10) };
        let fam = FAMS[rng.gen_range(0..FAMS.len())];
        let x = gen_x(rng, n, p, fam);
        if has_constant_column(&x) {
            continue; // outside the property's domain ("no constant column")
        }
        let kind = rng.gen_range(0..5);
        let y = gen_y(rng, &x, kind);
        if y.iter().all(|&v| v == y[0]) {
            continue; // constant targets are probed separately (end of the run)
        }
        return Data { fam: format!("{}/y{}", fam, kind), x, xden: 1, y, xexp: 0, yexp: 0, yoff: 0 };
    }
}

fn gen_params(rng: &mut StdRng, est: &'static str) -> Params {
    let (an, ae) = if rng.gen_bool(0.75) { ALPHAS[rng.gen_range(0..ALPHAS.len())] } else { (rng.gen_range(1..=80), 3) };
    let (l1n, l1e) = if est == "lasso" { (1, 0) } else { L1S[rng.gen_range(0..L1S.len())] };
    Params { est, an, ae, l1n, l1e, normalize: rng.gen_bool(0.5), tol_sgn: 1, tol_e: TOLS[rng.gen_range(0..3)], max_iter: 1000, aexp: 0, api: false }
}

/// pick a member of the scale family for this (data, parameters) pair, where one exists
fn choose_scale(rng: &mut StdRng, d: &mut Data, pr: &mut Params) {
    let e: i32 = [-20, -10, -10, 0, 10][rng.gen_range(0..5)];
    if pr.l1n == 1 && pr.l1e == 0 {
        d.yexp = e;
        pr.aexp = e;
    } else if !pr.normalize {
        d.xexp = e;
        d.yexp = e;
        pr.aexp = 2 * e;
    }
}

fn gen(path: &str) {
    let mut out = Out::create(path);
    let mut rng = rng(8);
    let thorough = thorough();
    let n_valid = if thorough { 24000 } else { 2400 };
    let n_pairs = if thorough { 7000 } else { 800 };
    let n_invalid = if thorough { 3000 } else { 400 };
    let mut run = 0i64;
    let mut counts = std::collections::BTreeMap::new();
    let mut bump = |k: &str| *counts.entry(k.to_string()).or_insert(0usize) += 1;

    // ---- valid settings: a result is promised
    for i in 0..n_valid {
        run += 1;
        let mut d = gen_data(&mut rng, thorough && i % 3 == 0);
        let mut pr = gen_params(&mut rng, if i % 2 == 0 { "lasso" } else { "enet" });
        if i % 5 < 3 {
            choose_scale(&mut rng, &mut d, &mut pr);
        }
        if i % 4 == 1 {
            d.yoff = [1i64 << 30, 1_000_000_000, -(3i64 << 32), 1i64 << 36][rng.gen_range(0..4)];
        }
        pr.api = i % 3 == 0;
        let o = run_fit(&d, &pr);
        bump(o.status);
        out.emit(fit_event(run, &d, &pr, &o));
    }
    // ---- related fits
    for i in 0..n_pairs {
        run += 1;
        let mut d = gen_data(&mut rng, false);
        if i % 3 == 2 {
            // elastic net with l1_ratio = 1 versus Lasso
            let mut pe = gen_params(&mut rng, "enet");
            pe.l1n = 1;
            pe.l1e = 0;
            if i % 2 == 0 {
                choose_scale(&mut rng, &mut d, &mut pe);
            }
            let mut pl = pe.clone();
            pl.est = "lasso";
            let a = run_fit(&d, &pe);
            let b = run_fit(&d, &pl);
            out.emit(fit_event(run, &d, &pe, &a));
            out.emit(fit_event(run, &d, &pl, &b));
            out.emit(pair_event(run, "l1one", &d, &pe, 0, false, &a, &b));
        } else {
            let mut pr = gen_params(&mut rng, if i % 3 == 0 { "lasso" } else { "enet" });
            if i % 2 == 0 {
                choose_scale(&mut rng, &mut d, &mut pr);
            }
            let c: i64 = [1, -7, 100, 1000, -5000, 100000, 1 << 30, 1_000_000_000, -(3i64 << 32)][rng.gen_range(0..9)];
            let via_offset = c.abs() >= 1 << 20;
            let mut d2 = d.clone();
            if via_offset {
                d2.yoff = c;
            } else {
                d2.y = d.y.iter().map(|v| v + c).collect();
            }
            let a = run_fit(&d, &pr);
            let b = run_fit(&d2, &pr);
            out.emit(fit_event(run, &d, &pr, &a));
            out.emit(fit_event(run, &d2, &pr, &b));
            out.emit(pair_event(run, "shift", &d, &pr, c, via_offset, &a, &b));
        }
    }
    // ---- invalid settings of Lasso: an error is promised
    for i in 0..n_invalid {
        run += 1;
        let mut d = gen_data(&mut rng, false);
        let mut pr = gen_params(&mut rng, "lasso");
        let n = d.x.len();
        let p = d.x[0].len();
        let which = i % 8;
        match which {
            0 => pr.an = -rng.gen_range(1..=50),
            1 => pr.tol_sgn = 0,
            2 => pr.tol_sgn = -1,
            3 => pr.max_iter = 0,
            4 => {
                // n <= p: keep p (or fewer) rows
                let keep = rng.gen_range(1..=p);
                d.x.truncate(keep);
                d.y.truncate(keep);
            }
            5 => {
                // length mismatch
                if rng.gen_bool(0.5) {
                    d.y.push(3);
                } else {
                    d.y.truncate(n - 1);
                }
            }
            _ => {
                // a constant column under normalisation: integer, non-dyadic (xden) or huge constant
                pr.normalize = true;
                let j = rng.gen_range(0..p);
                let (c, den): (i64, i64) = [(0, 1), (5, 1), (100000001, 1), (-3, 1), (64, 1)][rng.gen_range(0..5)];
                if den != 1 {
                    for r in d.x.iter_mut() {
                        for v in r.iter_mut() {
                            *v *= den;
                        }
                    }
                    d.xden = den;
                }
                for r in d.x.iter_mut() {
                    r[j] = c;
                }
                // a second invalid reason now and then
                if rng.gen_bool(0.2) {
                    pr.max_iter = 0;
                }
            }
        }
        d.fam = format!("invalid{}", which.min(6));
        for &api in &[false, true] {
            pr.api = api;
            let o = run_fit(&d, &pr);
            bump(o.status);
            out.emit(fit_event(run, &d, &pr, &o));
        }
    }
    // ---- iteration limits other than the default: huge ones (a valid way of saying
    // "unbounded") promise what the default promises, tiny ones only "returns or Err"
    let limits: [usize; 5] = [1, 2, 1_000_000, usize::MAX / 2, usize::MAX];
    for i in 0..(if thorough { 60 } else { 20 }) {
        run += 1;
        let d = gen_data(&mut rng, false);
        let mut pr = gen_params(&mut rng, if i % 2 == 0 { "lasso" } else { "enet" });
        pr.max_iter = limits[i % 5];
        pr.api = i % 3 == 0;
        let o = run_fit(&d, &pr);
        bump(o.status);
        out.emit(fit_event(run, &d, &pr, &o));
    }
    // ---- size ladder: row counts around internal block sizes (small entries keep the
    // specification's 32-bit sums in range)
    let ladder: &[usize] = if thorough { &[63, 64, 65, 127, 128, 129, 255, 256, 257, 511, 512, 513] } else { &[63, 64, 65, 255, 256, 257] };
    for (i, &n) in ladder.iter().enumerate() {
        run += 1;
        let p = 1 + i % 2;
        let x = loop {
            let x = gen_x(&mut rng, n, p, "pm1");
            if !has_constant_column(&x) {
                break x;
            }
        };
        let y: Vec<i64> = (0..n).map(|r| x[r][0] * 2 + rng.gen_range(-2..=2) + 3).collect();
        let d = Data { fam: format!("ladder{}", n), x, xden: 1, y, xexp: 0, yexp: 0, yoff: if i % 3 == 0 { 1 << 30 } else { 0 } };
        let mut pr = gen_params(&mut rng, if i % 2 == 0 { "lasso" } else { "enet" });
        pr.an = 1;
        pr.ae = 2;
        pr.api = i % 2 == 1;
        let o = run_fit(&d, &pr);
        bump(o.status);
        out.emit(fit_event(run, &d, &pr, &o));
    }
    // ---- probes of the classes in which the optimiser has been seen not to return
    // (kept last and few: an abandoned fit keeps its thread busy until the process exits)
    // four fixed instances first (the minimal reproductions quoted in known_findings/C08.json)
    let fixed: Vec<(Data, Params)> = vec![
        (Data { fam: "probe-alpha0/fixed".into(), x: vec![vec![-4], vec![-13]], xden: 1, y: vec![100001, 99994], xexp: 0, yexp: 0, yoff: 0 },
         Params { est: "lasso", an: 0, ae: 0, l1n: 1, l1e: 0, normalize: false, tol_sgn: 1, tol_e: 20, max_iter: 1000, aexp: 0, api: false }),
        (Data { fam: "probe-alpha0/fixed".into(), x: vec![vec![83], vec![79], vec![78]], xden: 1, y: vec![14, -8, -6], xexp: 0, yexp: 0, yoff: 0 },
         Params { est: "enet", an: 0, ae: 0, l1n: 1, l1e: 1, normalize: false, tol_sgn: 1, tol_e: 14, max_iter: 1000, aexp: 0, api: false }),
        (Data { fam: "probe-consty/fixed".into(), x: vec![vec![-1], vec![-1], vec![1]], xden: 1, y: vec![0, 0, 0], xexp: 0, yexp: 0, yoff: 0 },
         Params { est: "enet", an: 1, ae: 0, l1n: 1, l1e: 1, normalize: false, tol_sgn: 1, tol_e: 14, max_iter: 1000, aexp: 0, api: false }),
        (Data { fam: "probe-constcol".into(), x: vec![vec![1], vec![1], vec![1]], xden: 10, y: vec![-124, -132, -128], xexp: 0, yexp: 0, yoff: 0 },
         Params { est: "lasso", an: 2, ae: 3, l1n: 1, l1e: 0, normalize: true, tol_sgn: 1, tol_e: 14, max_iter: 1000, aexp: 0, api: false }),
    ];
    for (d, pr) in fixed.iter() {
        run += 1;
        let o = run_fit_limit(d, pr, WATCHDOG_PROBE_SECS);
        bump(o.status);
        out.emit(fit_event(run, d, pr, &o));
    }
    let k = if thorough { 4 } else { 1 };
    for i in 0..3 * k {
        run += 1;
        let mut d = gen_data(&mut rng, false);
        let mut pr = gen_params(&mut rng, if i % 2 == 0 { "lasso" } else { "enet" });
        match i % 3 {
            0 => {
                pr.an = 0;
                pr.ae = 0;
                d.fam = format!("probe-alpha0/{}", d.fam);
            }
            1 => {
                let c = [0i64, 5, -1000][rng.gen_range(0..3)];
                d.y = vec![c; d.y.len()];
                d.fam = format!("probe-consty/{}", d.fam);
            }
            _ => {
                pr.est = "lasso";
                pr.l1n = 1;
                pr.l1e = 0;
                pr.normalize = true;
                let j = rng.gen_range(0..d.x[0].len());
                let (c, den): (i64, i64) = [(1, 10), (1, 3), (7, 10)][rng.gen_range(0..3)];
                for r in d.x.iter_mut() {
                    for v in r.iter_mut() {
                        *v *= den;
                    }
                    r[j] = c;
                }
                d.xden = den;
                d.fam = "probe-constcol".to_string();
            }
        }
        let o = run_fit_limit(&d, &pr, WATCHDOG_PROBE_SECS);
        bump(o.status);
        out.emit(fit_event(run, &d, &pr, &o));
    }
    let n = out.finish();
    println!("events={} statuses={:?}", n, counts);
}

/// re-execute the Fit events of a replay artefact
fn replay_file(input: &str, path: &str) {
    let evs = read_ndjson(input);
    let mut out = Out::create(path);
    for e in evs {
        if e["ev"] != "Fit" {
            continue;
        }
        let d = Data {
            fam: e["fam"].as_str().unwrap_or("replay").to_string(),
            x: serde_json::from_value(e["X"].clone()).unwrap(),
            xden: e["xden"].as_i64().unwrap_or(1),
            y: serde_json::from_value(e["y"].clone()).unwrap(),
            xexp: e["xexp"].as_i64().unwrap_or(0) as i32,
            yexp: e["yexp"].as_i64().unwrap_or(0) as i32,
            yoff: e["yoff"].as_i64().unwrap_or(0),
        };
        let pr = Params {
            est: if e["est"] == "lasso" { "lasso" } else { "enet" },
            an: e["aN"].as_i64().unwrap(),
            ae: e["aE"].as_u64().unwrap() as u32,
            l1n: e["l1N"].as_i64().unwrap(),
            l1e: e["l1E"].as_u64().unwrap() as u32,
            normalize: e["normalize"].as_bool().unwrap(),
            tol_sgn: e["tolSgn"].as_i64().unwrap(),
            tol_e: e["tolE"].as_u64().unwrap() as u32,
            max_iter: match e["maxIterClass"].as_str() {
                Some("huge") if e["maxIter"].as_u64().unwrap() >= 1 << 30 => usize::MAX,
                _ => e["maxIter"].as_u64().unwrap() as usize,
            },
            aexp: e["aexp"].as_i64().unwrap_or(0) as i32,
            api: e["entry"] == "api",
        };
        let o = run_fit(&d, &pr);
        out.emit(fit_event(e["run"].as_i64().unwrap(), &d, &pr, &o));
    }
    println!("events={}", out.finish());
}

fn main() {
    silence_panics();
    let args: Vec<String> = std::env::args().collect();
    match arg(&args, 1) {
        "gen" => gen(arg(&args, 2)),
        "replay-file" => replay_file(arg(&args, 2), arg(&args, 3)),
        other => {
            eprintln!("unknown sub-command {}", other);
            std::process::exit(2)
        }
    }
}
