//! C15 — evaluation metrics.  Drives the public metric functions on f64 and f32 vectors and
//! records (inputs as integers, output as fixed point).  No property logic here: inputs are
//! generated (or read from the REPLAY lines TLC printed for AucModel), the library is
//! called, and results are projected:
//!   * labels / integer targets stay integers (`a`, `b`; real targets are a/U, b/U, fed to
//!     the library multiplied by 2^e -- exact -- and the result is divided by the matching
//!     power of two before it is quantised; the OFFSET family additionally adds a large common
//!     integer `off` to both vectors -- a/U + off, b/U + off, exactly representable, checked --
//!     and records the small integers and the offset separately: MSE, MAE and R^2 depend on
//!     differences and deviations from the mean only, so the specification evaluates its
//!     exact rationals on the small integers);
//!   * real-valued AUC scores are recorded as dense ranks (order- and tie-preserving);
//!   * a result v is recorded as round(v * 2^S); S <= 16 is chosen from the input magnitudes
//!     only, so that the integer arithmetic of the specification stays inside 32 bits;
//!     `fin` tells whether v was finite and in range.
//! Pass/fail is decided by spec/metrics/MetricsTrace.tla.
use rand::seq::SliceRandom;
use rand::Rng;
use serde_json::{json, Value};
use smartcore::math::num::RealNumber;
use smartcore::metrics::{
    accuracy, completeness_score, f1, homogeneity_score, mean_absolute_error, mean_squared_error,
    precision, r2, recall, roc_auc_score, v_measure_score, ClusterMetrics,
};
use smartcore::verif::QuickArgSort;
use vutil::*;

/// largest S <= 16 with bound * 2^S < 2^30; None when even S = 6 would overflow
fn pick_s(bound: f64) -> Option<u32> {
    let mut s = 16u32;
    while s >= 6 {
        if bound * (1u64 << s) as f64 <= (1u64 << 30) as f64 {
            return Some(s);
        }
        s -= 1;
    }
    None
}

fn maxabs(a: &[i64], b: &[i64]) -> f64 {
    a.iter().chain(b.iter()).map(|v| v.abs()).max().unwrap_or(0) as f64
}

/// bound on |numerator| of the exact rational, from the input magnitudes only
fn num_bound(name: &str, a: &[i64], b: &[i64], b1: i64, b2: i64) -> f64 {
    let n = a.len().max(b.len()).max(1) as f64;
    let m = maxabs(a, b).max(1.0);
    match name {
        "accuracy" | "precision" | "recall" => n,
        "fbeta" => ((b1 * b1 + b2 * b2) as f64) * 2.0 * n,
        "auc" => 2.0 * n * n / 4.0 + n,
        "mse" => n * 4.0 * m * m,
        "mae" => n * 2.0 * m,
        "r2" => n * n * 4.0 * m * m,
        _ => 1.0e18,
    }
}

/// One call of a pairwise metric.  `scores`: for AUC the real-valued scores to feed (b then
/// holds their dense ranks); otherwise None and b is fed as b/U * 2^e.
#[allow(clippy::too_many_arguments)]
fn metric_event<T: RealNumber>(
    run: i64,
    name: &str,
    ty: &str,
    a: &[i64],
    b: &[i64],
    scores: Option<&[f64]>,
    b1: i64,
    b2: i64,
    u: i64,
    e: i32,
    off: i64,
    fam: &str,
    expect: Option<(i64, i64)>,
) -> Option<Value> {
    let mut s = pick_s(num_bound(name, a, b, b1, b2))?;
    if off != 0 && ty == "f32" {
        s = s.min(10); // single precision next to a large offset: coarse comparison only
    }
    // for AUC `e` describes the score family (labels are never rescaled)
    let sc = if name == "auc" { 1.0 } else { 2f64.powi(e) };
    let exact = |v: &i64| (*v as f64 / u as f64 + off as f64) * sc;
    // the shifted inputs must be exactly representable in T, else the case is skipped
    let fed_b: &[i64] = if scores.is_some() { &[] } else { b };
    if a.iter().chain(fed_b.iter())
        .any(|v| T::from_f64(exact(v)).and_then(|t| t.to_f64()) != Some(exact(v)))
    {
        return None;
    }
    let conv = |v: &i64| T::from_f64(exact(v)).unwrap();
    let ya: Vec<T> = a.iter().map(conv).collect();
    let yb: Vec<T> = match scores {
        Some(sv) => sv.iter().map(|&v| T::from_f64(v).unwrap()).collect(),
        None => b.iter().map(conv).collect(),
    };
    let beta = T::from_f64(b1 as f64 / b2 as f64).unwrap();
    let r = guard(|| match name {
        "accuracy" => accuracy(&ya, &yb),
        "precision" => precision(&ya, &yb),
        "recall" => recall(&ya, &yb),
        "fbeta" => f1(&ya, &yb, beta),
        "auc" => roc_auc_score(&ya, &yb),
        "mse" => mean_squared_error(&ya, &yb),
        "mae" => mean_absolute_error(&ya, &yb),
        "r2" => r2(&ya, &yb),
        _ => panic!("unknown metric"),
    });
    let q = Q::new(s);
    let (status, out) = match r {
        Ok(v) => {
            let v = v.to_f64().unwrap_or(f64::NAN);
            let v = match name {
                "mse" => v / sc / sc,
                "mae" => v / sc,
                _ => v,
            };
            ("ok", q.x(v))
        }
        Err(_) => ("panic", 0),
    };
    let (hx, xn, xd) = match expect {
        Some((n, d)) => (true, n, d),
        None => (false, 0, 1),
    };
    Some(json!({"run": run, "ev": "Metric", "name": name, "ty": ty, "S": s, "U": u, "e": e, "off": off, "fam": fam,
                "a": a, "b": b, "b1": b1, "b2": b2, "status": status, "fin": q.ok(), "out": out,
                "hasExpect": hx, "xnum": xn, "xden": xd}))
}

#[allow(clippy::too_many_arguments)]
fn metric(
    ty: usize,
    run: i64,
    name: &str,
    a: &[i64],
    b: &[i64],
    scores: Option<&[f64]>,
    b1: i64,
    b2: i64,
    u: i64,
    e: i32,
    off: i64,
    fam: &str,
    expect: Option<(i64, i64)>,
) -> Option<Value> {
    if ty >= 2 {
        metric_nd(run, if ty == 2 { "nd64" } else { "na64" }, name, a, b, scores, b1, b2, fam)
    } else if ty == 0 {
        metric_event::<f64>(run, name, "f64", a, b, scores, b1, b2, u, e, off, fam, expect)
    } else {
        metric_event::<f32>(run, name, "f32", a, b, scores, b1, b2, u, e, off, fam, expect)
    }
}

/// next representable value above v (v > 0, finite) in f64 / f32
fn next_up(v: f64, ty: usize, steps: i64) -> f64 {
    if ty == 0 {
        f64::from_bits(v.to_bits() + steps as u64)
    } else {
        f32::from_bits((v as f32).to_bits() + steps as u32) as f64
    }
}

/// AUC scores of the order-only families, from small non-negative integers k:
///   "scaled":    k * 2^e                       (exact power-of-two rescaling)
///   "nextafter": 2^e advanced by k ulps        (neighbouring floats of the fed type)
///   "extreme":   k, with the extreme keys replaced by +-T::MAX / +-infinity (order kept)
///   otherwise:   k
/// AUC depends on the order of the scores only; the event records their dense ranks.
fn family_scores(fam: &str, e: i32, ty: usize, ks: &[i64]) -> Vec<f64> {
    ks.iter()
        .map(|&k| match fam {
            "scaled" => k as f64 * 2f64.powi(e),
            "nextafter" => next_up(2f64.powi(e), ty, k),
            "extreme" => {
                // the largest / smallest key becomes the top / bottom of the number line of the
                // fed type: e = 0: +-MAX, e = 1: +-infinity, e = 2: +infinity above MAX (the
                // second largest key) and -infinity below -MAX
                let max = if ty == 1 { f32::MAX as f64 } else { f64::MAX };
                let mut d: Vec<i64> = ks.to_vec();
                d.sort_unstable();
                d.dedup();
                let (lo, hi) = (d[0], d[d.len() - 1]);
                let (lo2, hi2) = if d.len() >= 4 { (d[1], d[d.len() - 2]) } else { (lo, hi) };
                match e {
                    0 if k == hi => max,
                    0 if k == lo && d.len() >= 2 => -max,
                    1 if k == hi => f64::INFINITY,
                    1 if k == lo && d.len() >= 2 => f64::NEG_INFINITY,
                    2 if k == hi => f64::INFINITY,
                    2 if k == hi2 && d.len() >= 4 => max,
                    2 if k == lo && d.len() >= 2 => f64::NEG_INFINITY,
                    2 if k == lo2 && d.len() >= 4 => -max,
                    _ => k as f64,
                }
            }
            _ => k as f64,
        })
        .collect()
}

/// An adversarial ORDER of n distinct keys for the library's quicksort (input generation
/// only).  McIlroy's "killer adversary": the routine of src/algorithm/sort/quick_sort.rs
/// (insertion sort below 8 elements, median-of-three pivot moved to l+1, sentinel scans) is
/// run here on item ids whose keys are decided lazily -- an item stays "gas" (larger than
/// every decided key) until a comparison of two gas items forces one of them, the current
/// pivot candidate, to be frozen at the next small value.  Every pivot therefore ends up
/// among the smallest keys of its range and every partition step splits into a few
/// elements and the rest: the partition tree degenerates into a chain as deep as n/2,
/// which is what a sort with a bounded explicit stack must survive.  Returns the key of
/// every position (a permutation of 0..n-1).
fn killer_order(n: usize) -> Vec<i64> {
    struct Adv {
        val: Vec<i64>,
        gas: i64,
        nsolid: i64,
        candidate: usize,
    }
    impl Adv {
        fn freeze(&mut self, x: usize) {
            self.val[x] = self.nsolid;
            self.nsolid += 1;
        }
        /// sign of key(x) - key(y)
        fn cmp(&mut self, x: usize, y: usize) -> i64 {
            if x == y {
                return 0;
            }
            if self.val[x] == self.gas && self.val[y] == self.gas {
                if x == self.candidate {
                    self.freeze(x);
                } else {
                    self.freeze(y);
                }
            }
            if self.val[x] == self.gas {
                self.candidate = x;
            } else if self.val[y] == self.gas {
                self.candidate = y;
            }
            self.val[x] - self.val[y]
        }
    }
    if n == 0 {
        return vec![];
    }
    let mut ad = Adv { val: vec![n as i64; n], gas: n as i64, nsolid: 0, candidate: 0 };
    let mut it: Vec<usize> = (0..n).collect(); // it[k] = id of the item now at position k
    let mut stack: Vec<(usize, usize)> = Vec::new();
    let (mut l, mut ir) = (0usize, n - 1);
    loop {
        if ir - l < 7 {
            for j in l + 1..=ir {
                let a = it[j];
                let mut i = j as i64 - 1;
                while i >= l as i64 {
                    if ad.cmp(it[i as usize], a) <= 0 {
                        break;
                    }
                    it[(i + 1) as usize] = it[i as usize];
                    i -= 1;
                }
                it[(i + 1) as usize] = a;
            }
            match stack.pop() {
                None => break,
                Some((a, b)) => {
                    l = a;
                    ir = b;
                }
            }
        } else {
            let k = (l + ir) >> 1;
            it.swap(k, l + 1);
            if ad.cmp(it[l], it[ir]) > 0 {
                it.swap(l, ir);
            }
            if ad.cmp(it[l + 1], it[ir]) > 0 {
                it.swap(l + 1, ir);
            }
            if ad.cmp(it[l], it[l + 1]) > 0 {
                it.swap(l, l + 1);
            }
            let mut i = l + 1;
            let mut j = ir;
            let a = it[l + 1];
            loop {
                loop {
                    i += 1;
                    if ad.cmp(it[i], a) >= 0 {
                        break;
                    }
                }
                loop {
                    j -= 1;
                    if ad.cmp(it[j], a) <= 0 {
                        break;
                    }
                }
                if j < i {
                    break;
                }
                it.swap(i, j);
            }
            it[l + 1] = it[j];
            it[j] = a;
            // larger part deferred, smaller part next (as the library does)
            if ir - i + 1 >= j - l {
                stack.push((i, ir));
                ir = j - 1;
            } else {
                stack.push((l, j - 1));
                l = i;
            }
        }
    }
    // items never compared while gas keep the remaining large keys
    for x in 0..n {
        if ad.val[x] == ad.gas {
            ad.val[x] = ad.nsolid;
            ad.nsolid += 1;
        }
    }
    ad.val
}

fn hcv_obs(h: f64, c: f64, v: f64) -> Value {
    let q = |s: u32, x: f64| -> (i64, bool) {
        let q = Q::new(s);
        let o = q.x(x);
        (o, q.ok())
    };
    let (h16, hf) = q(16, h);
    let (c16, cf) = q(16, c);
    let (v16, vf) = q(16, v);
    json!({"h": h16, "c": c16, "v": v16, "h12": q(12, h).0, "c12": q(12, c).0, "v12": q(12, v).0,
           "hFin": hf, "cFin": cf, "vFin": vf})
}

/// hcv(a, b), hcv(b, a) and hcv of an injectively relabelled copy (a2, b2)
fn hcv_event<T: RealNumber>(run: i64, ty: &str, a: &[i64], b: &[i64], a2: &[i64], b2: &[i64]) -> Value {
    let conv = |v: &[i64]| -> Vec<T> { v.iter().map(|&x| T::from_f64(x as f64).unwrap()).collect() };
    let (ya, yb, ya2, yb2) = (conv(a), conv(b), conv(a2), conv(b2));
    let f = |t: T| t.to_f64().unwrap_or(f64::NAN);
    let r = guard(|| {
        let m = ClusterMetrics::hcv_score().get_score(&ya, &yb);
        let sw = ClusterMetrics::hcv_score().get_score(&yb, &ya);
        let rl = (
            homogeneity_score(&ya2, &yb2),
            completeness_score(&ya2, &yb2),
            v_measure_score(&ya2, &yb2),
        );
        (m, sw, rl)
    });
    let z = hcv_obs(0.0, 0.0, 0.0);
    let (status, m, sw, rl) = match r {
        Ok((m, sw, rl)) => (
            "ok",
            hcv_obs(f(m.0), f(m.1), f(m.2)),
            hcv_obs(f(sw.0), f(sw.1), f(sw.2)),
            hcv_obs(f(rl.0), f(rl.1), f(rl.2)),
        ),
        Err(_) => ("panic", z.clone(), z.clone(), z),
    };
    json!({"run": run, "ev": "HCV", "ty": ty, "a": a, "b": b, "a2": a2, "b2": b2,
           "status": status, "m": m, "sw": sw, "rl": rl})
}

fn hcv(ty: usize, run: i64, a: &[i64], b: &[i64], a2: &[i64], b2: &[i64]) -> Value {
    if ty == 2 {
        hcv_nd(run, a, b, a2, b2)
    } else if ty == 0 {
        hcv_event::<f64>(run, "f64", a, b, a2, b2)
    } else {
        hcv_event::<f32>(run, "f32", a, b, a2, b2)
    }
}

/// injective relabelling: a random injective table over the distinct labels
/// owned ndarray vector holding `v` in logical order but laid out BACKWARDS in memory
/// (negative stride): what `get(i)` and `to_vec()` return must not depend on the layout
fn nd_reversed(v: &[f64]) -> ndarray::Array1<f64> {
    let rev: Vec<f64> = v.iter().rev().cloned().collect();
    ndarray::Array1::from(rev).slice_move(ndarray::s![..;-1])
}

fn call_metric<V: smartcore::linalg::BaseVector<f64>>(name: &str, ya: &V, yb: &V, beta: f64) -> f64 {
    match name {
        "accuracy" => accuracy(ya, yb),
        "precision" => precision(ya, yb),
        "recall" => recall(ya, yb),
        "fbeta" => f1(ya, yb, beta),
        "auc" => roc_auc_score(ya, yb),
        "mse" => mean_squared_error(ya, yb),
        "mae" => mean_absolute_error(ya, yb),
        "r2" => r2(ya, yb),
        _ => panic!("unknown metric"),
    }
}

/// the same calls as metric_event::<f64>, on the other vector back ends: owned ndarray
/// vectors with a negative stride (ty "nd64") and nalgebra row vectors (ty "na64")
#[allow(clippy::too_many_arguments)]
fn metric_nd(run: i64, ty: &str, name: &str, a: &[i64], b: &[i64], scores: Option<&[f64]>, b1: i64, b2: i64, fam: &str) -> Option<Value> {
    let s = pick_s(num_bound(name, a, b, b1, b2))?;
    let fa: Vec<f64> = a.iter().map(|&v| v as f64).collect();
    let fb: Vec<f64> = match scores {
        Some(sv) => sv.to_vec(),
        None => b.iter().map(|&v| v as f64).collect(),
    };
    let beta = b1 as f64 / b2 as f64;
    let r = if ty == "nd64" {
        let (ya, yb) = (nd_reversed(&fa), nd_reversed(&fb));
        guard(|| call_metric(name, &ya, &yb, beta))
    } else {
        let (ya, yb) = (nalgebra::RowDVector::from_vec(fa), nalgebra::RowDVector::from_vec(fb));
        guard(|| call_metric(name, &ya, &yb, beta))
    };
    let q = Q::new(s);
    let (status, out) = match r {
        Ok(v) => ("ok", q.x(v)),
        Err(_) => ("panic", 0),
    };
    Some(json!({"run": run, "ev": "Metric", "name": name, "ty": ty, "S": s, "U": 1, "e": 0, "off": 0, "fam": fam,
                "a": a, "b": b, "b1": b1, "b2": b2, "status": status, "fin": q.ok(), "out": out,
                "hasExpect": false, "xnum": 0, "xden": 1}))
}

fn hcv_nd(run: i64, a: &[i64], b: &[i64], a2: &[i64], b2: &[i64]) -> Value {
    let conv = |v: &[i64]| nd_reversed(&v.iter().map(|&x| x as f64).collect::<Vec<f64>>());
    let (ya, yb, ya2, yb2) = (conv(a), conv(b), conv(a2), conv(b2));
    let r = guard(|| {
        let m = ClusterMetrics::hcv_score().get_score(&ya, &yb);
        let sw = ClusterMetrics::hcv_score().get_score(&yb, &ya);
        let rl = (homogeneity_score(&ya2, &yb2), completeness_score(&ya2, &yb2), v_measure_score(&ya2, &yb2));
        (m, sw, rl)
    });
    let z = hcv_obs(0.0, 0.0, 0.0);
    let (status, m, sw, rl) = match r {
        Ok((m, sw, rl)) => ("ok", hcv_obs(m.0, m.1, m.2), hcv_obs(sw.0, sw.1, sw.2), hcv_obs(rl.0, rl.1, rl.2)),
        Err(_) => ("panic", z.clone(), z.clone(), z),
    };
    json!({"run": run, "ev": "HCV", "ty": "nd64", "a": a, "b": b, "a2": a2, "b2": b2,
           "status": status, "m": m, "sw": sw, "rl": rl})
}

/// injective relabelling: a random injective table over the distinct labels
fn relabel<R: Rng>(r: &mut R, a: &[i64]) -> Vec<i64> {
    let mut d: Vec<i64> = a.to_vec();
    d.sort_unstable();
    d.dedup();
    let mut img: Vec<i64> = Vec::new();
    while img.len() < d.len() {
        let c = r.gen_range(-1000..=1000i64);
        if !img.contains(&c) {
            img.push(c);
        }
    }
    a.iter().map(|v| img[d.binary_search(v).unwrap()]).collect()
}

fn argsort_event(run: i64, x: &[f64], fam: &str) -> Value {
    let r = guard(|| {
        let mut v = x.to_vec();
        let idx = v.quick_argsort_mut();
        (v, idx)
    });
    match r {
        Ok((sorted, idx)) => {
            let mut all = x.to_vec();
            all.extend_from_slice(&sorted);
            let rk = dense_ranks(&all);
            json!({"run": run, "ev": "ArgSort", "fam": fam, "status": "ok", "x": rk[..x.len()].to_vec(),
                   "sorted": rk[x.len()..].to_vec(), "index": idx})
        }
        Err(_) => json!({"run": run, "ev": "ArgSort", "fam": fam, "status": "panic",
                         "x": dense_ranks(x), "sorted": [], "index": []}),
    }
}

fn as_iv(v: &Value) -> Vec<i64> {
    v.as_array().unwrap().iter().map(|x| x.as_i64().unwrap()).collect()
}

/// all vectors of length n over the given values, in lexicographic order
fn all_vecs(n: usize, vals: &[i64]) -> Vec<Vec<i64>> {
    let mut out = vec![vec![]];
    for _ in 0..n {
        let mut nx = Vec::with_capacity(out.len() * vals.len());
        for v in out.iter() {
            for &x in vals {
                let mut w = v.clone();
                w.push(x);
                nx.push(w);
            }
        }
        out = nx;
    }
    out
}

/// random binary label vector with a chosen class balance (including a single positive /
/// negative); `both` forces both classes to be present
fn rand_labels<R: Rng>(r: &mut R, n: usize, both: bool) -> Vec<i64> {
    let mode = r.gen_range(0..6);
    let mut v: Vec<i64> = match mode {
        0 => {
            let mut v = vec![0; n];
            v[r.gen_range(0..n)] = 1;
            v
        }
        1 => {
            let mut v = vec![1; n];
            v[r.gen_range(0..n)] = 0;
            v
        }
        _ => {
            let p = r.gen_range(0.05..0.95);
            (0..n).map(|_| r.gen_bool(p) as i64).collect()
        }
    };
    if both && n >= 2 {
        if v.iter().all(|&x| x == 1) {
            v[0] = 0;
        }
        if v.iter().all(|&x| x == 0) {
            v[0] = 1;
        }
    }
    v
}

fn rand_len<R: Rng>(r: &mut R, big: bool) -> usize {
    if big {
        r.gen_range(100..=200)
    } else {
        r.gen_range(1..=40)
    }
}

const CLASSIF: [&str; 4] = ["accuracy", "precision", "recall", "fbeta"];
const BETAS: [(i64, i64); 3] = [(1, 2), (1, 1), (2, 1)];

fn main() {
    let args: Vec<String> = std::env::args().skip(1).collect();
    let args = &args[..];
    silence_panics();
    let mode = arg(args, 0);
    let th = thorough();
    let mut run = 0i64;
    let mut skipped = 0usize;
    let mut out;
    macro_rules! emit {
        ($e:expr) => {
            match $e {
                Some(v) => out.emit(v),
                None => skipped += 1,
            }
        };
    }
    match mode {
        // spec -> impl: the (label, score) vectors AucModel enumerated, with the model's rational
        "replay-spec" => {
            let cases = read_ndjson(arg(args, 1));
            out = Out::create(arg(args, 2));
            for c in cases.iter() {
                let a = as_iv(&c["a"]);
                let b = as_iv(&c["b"]);
                let sc: Vec<f64> = b.iter().map(|&v| v as f64).collect();
                let ex = Some((c["num"].as_i64().unwrap(), c["den"].as_i64().unwrap()));
                for ty in 0..2 {
                    run += 1;
                    emit!(metric(ty, run, "auc", &a, &b, Some(&sc), 1, 1, 1, 0, 0, "plain", ex));
                }
            }
        }
        // re-execute the events of a replay artefact (AUC scores are re-fed as their ranks,
        // which gives the same value: AUC depends on the order of the scores only)
        "replay-file" => {
            let cases = read_ndjson(arg(args, 1));
            out = Out::create(arg(args, 2));
            for c in cases.iter() {
                run = c["run"].as_i64().unwrap_or(0);
                let ty = if c["ty"] == "f32" { 1 } else if c["ty"] == "nd64" { 2 } else if c["ty"] == "na64" { 3 } else { 0 };
                match c["ev"].as_str().unwrap_or("") {
                    "Metric" => {
                        let a = as_iv(&c["a"]);
                        let b = as_iv(&c["b"]);
                        let name = c["name"].as_str().unwrap().to_string();
                        let fam = c["fam"].as_str().unwrap_or("plain").to_string();
                        let e = c["e"].as_i64().unwrap() as i32;
                        let sc = family_scores(&fam, e, ty, &b);
                        let scores = if name == "auc" { Some(&sc[..]) } else { None };
                        emit!(metric(ty, run, &name, &a, &b, scores, c["b1"].as_i64().unwrap(),
                                     c["b2"].as_i64().unwrap(), c["U"].as_i64().unwrap(),
                                     e, c["off"].as_i64().unwrap_or(0), &fam, None));
                    }
                    "HCV" => out.emit(hcv(ty, run, &as_iv(&c["a"]), &as_iv(&c["b"]), &as_iv(&c["a2"]), &as_iv(&c["b2"]))),
                    "ArgSort" => {
                        let x: Vec<f64> = as_iv(&c["x"]).iter().map(|&v| v as f64).collect();
                        out.emit(argsort_event(run, &x, c["fam"].as_str().unwrap_or("plain")));
                    }
                    _ => {
                        eprintln!("unknown event in replay file");
                        std::process::exit(2);
                    }
                }
            }
        }
        // exhaustive small domains, enumerated here and judged by TLC
        "gen-exhaustive" => {
            out = Out::create(arg(args, 1));
            let mut r = rng(1500);
            // all pairs of binary vectors
            let nb = if th { 6 } else { 5 };
            for n in 1..=nb {
                let vs = all_vecs(n, &[0, 1]);
                for a in vs.iter() {
                    for b in vs.iter() {
                        for name in CLASSIF.iter() {
                            let betas: &[(i64, i64)] = if *name == "fbeta" { &BETAS } else { &BETAS[1..2] };
                            for &(b1, b2) in betas {
                                run += 1;
                                emit!(metric((run % 2) as usize, run, name, a, b, None, b1, b2, 1, 0, 0, "plain", None));
                            }
                        }
                    }
                }
            }
            // all integer target pairs over -2..2 (length 3 resp. 4: a seeded sample)
            let vals = [-2, -1, 0, 1, 2];
            let nr = if th { 4 } else { 3 };
            for n in 1..=nr {
                let vs = all_vecs(n, &vals);
                let keep: f64 = if n == nr && n >= 3 { if th { 0.03 } else { 0.12 } } else { 1.0 };
                for a in vs.iter() {
                    for b in vs.iter() {
                        if keep < 1.0 && !r.gen_bool(keep) {
                            continue;
                        }
                        for name in ["mse", "mae", "r2"].iter() {
                            run += 1;
                            emit!(metric((run % 2) as usize, run, name, a, b, None, 1, 1, 1, 0, 0, "plain", None));
                        }
                    }
                }
            }
            // all labelling pairs over 3 labels, each also swapped and relabelled
            let nh = if th { 5 } else { 4 };
            for n in 1..=nh {
                let vs = all_vecs(n, &[0, 1, 2]);
                for a in vs.iter() {
                    for b in vs.iter() {
                        run += 1;
                        let a2 = relabel(&mut r, a);
                        let b2 = relabel(&mut r, b);
                        out.emit(hcv((run % 2) as usize, run, a, b, &a2, &b2));
                    }
                }
            }
        }
        // seeded random larger inputs
        "gen-random" => {
            out = Out::create(arg(args, 1));
            let mut r = rng(15);
            let cnt = if th { 4000 } else { 500 };
            let nbig = if th { 400 } else { 60 };
            // classification metrics
            for i in 0..cnt {
                let n = rand_len(&mut r, i < nbig);
                let a = rand_labels(&mut r, n, false);
                let b = if r.gen_bool(0.2) { a.clone() } else { rand_labels(&mut r, n, false) };
                for name in CLASSIF.iter() {
                    let (b1, b2) = if *name == "fbeta" { BETAS[r.gen_range(0..3)] } else { (1, 1) };
                    run += 1;
                    emit!(metric(i % 2, run, name, &a, &b, None, b1, b2, 1, 0, 0, "plain", None));
                }
                // accuracy is defined for any labels
                if i % 4 == 0 {
                    let k = r.gen_range(2..=6i64);
                    let a: Vec<i64> = (0..n).map(|_| r.gen_range(-k..=k)).collect();
                    let b: Vec<i64> = a.iter().map(|&v| if r.gen_bool(0.6) { v } else { r.gen_range(-k..=k) }).collect();
                    run += 1;
                    emit!(metric(i % 2, run, "accuracy", &a, &b, None, 1, 1, 1, 0, 0, "plain", None));
                }
            }
            // AUC: both classes present; scores without ties, heavily tied, constant
            for i in 0..cnt {
                let n = rand_len(&mut r, i < nbig).max(2);
                let a = rand_labels(&mut r, n, true);
                let ty = i % 2;
                let levels = match i % 5 {
                    0 => 1usize,          // constant scores
                    1 => 2,
                    2 => 5,               // heavy ties
                    3 => 20,
                    _ => 0,               // continuous
                };
                let sc: Vec<f64> = (0..n)
                    .map(|k| {
                        let base: f64 = if levels == 0 { r.gen::<f64>() } else { r.gen_range(0..levels) as f64 / levels as f64 };
                        // informative scores: positives tend to score higher
                        let v = if levels != 1 && a[k] == 1 && r.gen_bool(0.5) { base + 0.25 } else { base };
                        if ty == 1 { v as f32 as f64 } else { v }
                    })
                    .collect();
                let rk = dense_ranks(&sc);
                run += 1;
                emit!(metric(ty, run, "auc", &a, &rk, Some(&sc), 1, 1, 1, 0, 0, "plain", None));
            }
            // AUC is invariant under every strictly increasing map of the scores.  Two families
            // move the scores away from unit scale without changing their order:
            //  * "scaled": small integer scores times 2^e (f64: 2^-70, 2^-40, 2^40; f32: 2^-60,
            //    2^-30, 2^40) -- distinct scores closer together than machine epsilon;
            //  * "nextafter": neighbouring floats 2^e0 + k ulps around 1.0, 0.5 and 2^-20
            //    (saturated probabilities, tiny probabilities).
            let nfam = if th { 2400 } else { 360 };
            for i in 0..nfam {
                let ty = i % 2;
                let n = r.gen_range(2..=30usize);
                let a = rand_labels(&mut r, n, true);
                let (fam, e) = if i % 4 < 2 {
                    ("scaled", if ty == 0 { [-70, -40, 40][(i / 4) % 3] } else { [-60, -30, 40][(i / 4) % 3] })
                } else {
                    ("nextafter", [0, -1, -20][(i / 4) % 3])
                };
                let levels = [2i64, 3, 6, 40][(i / 2) % 4];
                let ks: Vec<i64> = (0..n)
                    .map(|k| match i % 3 {
                        0 => a[k] * (levels / 2) + r.gen_range(0..(levels / 2).max(1)),  // perfectly separating
                        1 => r.gen_range(0..levels) + if a[k] == 1 && r.gen_bool(0.5) { 1 } else { 0 },
                        _ => r.gen_range(0..levels),
                    })
                    .collect();
                let sc = family_scores(fam, e, ty, &ks);
                let rk = dense_ranks(&sc);
                run += 1;
                emit!(metric(ty, run, "auc", &a, &rk, Some(&sc), 1, 1, 1, e, 0, fam, None));
            }
            // regression: targets a/U, b/U scaled by 2^e
            for i in 0..cnt {
                let n = rand_len(&mut r, i < nbig);
                let ty = (i / 2) % 2;
                let u = [1i64, 1, 2, 4][r.gen_range(0..4)];
                let m = if n > 40 { r.gen_range(1..=6i64) } else { r.gen_range(1..=30i64) };
                let a: Vec<i64> = if i % 11 == 0 {
                    vec![r.gen_range(-m..=m); n]          // constant truth: R^2 undefined
                } else {
                    (0..n).map(|_| r.gen_range(-m..=m)).collect()
                };
                let b: Vec<i64> = match i % 3 {
                    0 => (0..n).map(|_| r.gen_range(-m..=m)).collect(),
                    1 => a.iter().map(|&v| (v + r.gen_range(-1..=1)).max(-m).min(m)).collect(),
                    _ => a.clone(),
                };
                let e = if i % 2 == 0 {
                    0
                } else if i % 8 < 4 {
                    [-40, 40][(i / 8) % 2]               // far rescaling, both element types
                } else if ty == 0 {
                    r.gen_range(-60..=60)
                } else {
                    r.gen_range(-25..=25)
                };
                for name in ["mse", "mae", "r2"].iter() {
                    run += 1;
                    emit!(metric(ty, run, name, &a, &b, None, 1, 1, u, e, 0, "plain", None));
                }
            }
            // OFFSET family ("real targets of any scale"): small-integer residual structure on
            // top of a large, exactly representable common offset (timestamps, prices in cents,
            // readings around a baseline).  Recorded: the small integers and the offset.
            let noff = if th { 1500 } else { 250 };
            for i in 0..noff {
                let ty = i % 2;
                let n = if ty == 0 { r.gen_range(2..=60usize) } else { r.gen_range(2..=16usize) };
                let u = [1i64, 1, 2, 4][r.gen_range(0..4)];
                let m = r.gen_range(1..=25i64) * u;          // spread of at most +-25 real units
                let off: i64 = if ty == 0 {
                    [1i64 << 30, -(1i64 << 30), 1_000_000_000, -1_000_000_000, 123_456_789, 1 << 24][r.gen_range(0..6)]
                } else {
                    [1i64 << 15, 50_000, -40_000, 1 << 14][r.gen_range(0..4)]
                };
                let a: Vec<i64> = match i % 4 {
                    0 => (0..n as i64).map(|k| (k * u).min(m)).collect(),      // ramp
                    _ => (0..n).map(|_| r.gen_range(-m..=m)).collect(),
                };
                let b: Vec<i64> = match i % 3 {
                    0 => a.iter().enumerate().map(|(k, &v)| v + if k % 2 == 0 { 1 } else { -1 }).collect(),
                    1 => a.iter().map(|&v| v + r.gen_range(-2..=2)).collect(),
                    _ => (0..n).map(|_| r.gen_range(-m..=m)).collect(),
                };
                let e = if i % 5 == 0 && ty == 0 { r.gen_range(-40..=40) } else { 0 };
                for name in ["mse", "mae", "r2"].iter() {
                    run += 1;
                    emit!(metric(ty, run, name, &a, &b, None, 1, 1, u, e, off, "plain", None));
                }
            }
            // EXTREME score values: the top / bottom tie groups sit at +-T::MAX or +-infinity
            // (a classifier emitting saturated scores); ties inside those groups, both classes
            let nx = if th { 600 } else { 120 };
            for i in 0..nx {
                let ty = i % 2;
                let n = r.gen_range(2..=24usize);
                let a = rand_labels(&mut r, n, true);
                let levels = [2i64, 3, 5, 8][(i / 2) % 4];
                let ks: Vec<i64> = (0..n).map(|k| (r.gen_range(0..levels) + if r.gen_bool(0.4) { a[k] } else { 0 }).min(levels - 1) + 1).collect();
                let e = (i / 8) as i32 % 3;
                let sc = family_scores("extreme", e, ty, &ks);
                let rk = dense_ranks(&sc);
                run += 1;
                emit!(metric(ty, run, "auc", &a, &rk, Some(&sc), 1, 1, 1, e, 0, "extreme", None));
            }
            // length mismatch on every vector back end (Vec f64/f32, strided ndarray, nalgebra),
            // including the broadcastable shapes 1 vs n and n vs 1
            for i in 0..32 {
                let ty = i % 4;
                let n = r.gen_range(2..=9usize);
                let (la, lb) = match (i / 4) % 4 {
                    0 => (1, n),
                    1 => (n, 1),
                    2 => (n, n + 1),
                    _ => (n + 2, n),
                };
                let a = rand_labels(&mut r, la, false);
                let b = rand_labels(&mut r, lb, false);
                for name in ["accuracy", "precision", "recall", "fbeta", "mse", "mae", "r2"].iter() {
                    run += 1;
                    emit!(metric(ty, run, name, &a, &b, None, 1, 1, 1, 0, 0, "plain", None));
                }
            }
            // length mismatch: the pairwise metrics must reject
            for i in 0..40 {
                let n = r.gen_range(1..=12usize);
                let a = rand_labels(&mut r, n, false);
                let mut b = rand_labels(&mut r, n + 1 + i % 3, false);
                if i % 2 == 0 {
                    b.truncate(n.saturating_sub(1).max(1));
                    if b.len() == a.len() {
                        b.push(0);
                    }
                }
                for name in ["accuracy", "precision", "recall", "fbeta", "mse", "mae", "r2"].iter() {
                    run += 1;
                    emit!(metric(i % 2, run, name, &a, &b, None, 1, 1, 1, 0, 0, "plain", None));
                }
            }
            // clusterings: 1..8 classes / clusters, arbitrary integer labels
            for i in 0..cnt {
                let n = rand_len(&mut r, i < nbig / 2);
                let ka = r.gen_range(1..=8usize);
                let kb = r.gen_range(1..=8usize);
                let la: Vec<i64> = (0..ka as i64).map(|k| 37 * k - 100 + r.gen_range(0..30)).collect();
                let lb: Vec<i64> = (0..kb as i64).map(|k| 1000 * k - 7 + r.gen_range(0..900)).collect();
                let a: Vec<i64> = (0..n).map(|_| la[r.gen_range(0..ka)]).collect();
                let b: Vec<i64> = match i % 6 {
                    0 => a.clone(),                                                  // identical
                    1 => a.iter().map(|&v| lb[(v.rem_euclid(kb as i64)) as usize]).collect(), // coarsening
                    2 => (0..n).map(|k| a[k] * 10 + r.gen_range(0..2)).collect(),        // refinement
                    _ => (0..n).map(|_| lb[r.gen_range(0..kb)]).collect(),
                };
                let a2 = relabel(&mut r, &a);
                let b2 = relabel(&mut r, &b);
                run += 1;
                out.emit(hcv(i % 2, run, &a, &b, &a2, &b2));
            }
            // dyadic family: product layouts (mutual information zero), power-of-two blocks,
            // and random tables of power-of-two cells whose marginals are powers of two
            let nd = if th { 1500 } else { 250 };
            let mut made = 0;
            let mut tries = 0;
            while made < nd && tries < 200000 {
                tries += 1;
                let (ka, kb) = (r.gen_range(1..=4usize), r.gen_range(1..=4usize));
                let mut tab = vec![vec![0i64; kb]; ka];
                match tries % 3 {
                    0 => {
                        // product layout: a_x * b_y / n with dyadic marginals
                        let split = |r: &mut rand::rngs::StdRng, k: usize| -> Vec<i64> {
                            // k dyadic parts of 8: e.g. [4,2,1,1]
                            let opts: Vec<Vec<i64>> = match k {
                                1 => vec![vec![8]],
                                2 => vec![vec![4, 4], vec![4, 4]],
                                3 => vec![vec![4, 2, 2], vec![2, 4, 2]],
                                _ => vec![vec![2, 2, 2, 2], vec![4, 2, 1, 1]],
                            };
                            opts[r.gen_range(0..opts.len())].clone()
                        };
                        let pa = split(&mut r, ka);
                        let pb = split(&mut r, kb);
                        for x in 0..ka {
                            for y in 0..kb {
                                tab[x][y] = pa[x] * pb[y]; // n = 64
                            }
                        }
                    }
                    _ => {
                        for row in tab.iter_mut() {
                            for c in row.iter_mut() {
                                *c = if r.gen_bool(0.45) { 0 } else { 1 << r.gen_range(0..4) };
                            }
                        }
                    }
                }
                let p2 = |v: i64| v > 0 && (v & (v - 1)) == 0;
                let rs: Vec<i64> = tab.iter().map(|row| row.iter().sum()).collect();
                let cs: Vec<i64> = (0..kb).map(|y| tab.iter().map(|row| row[y]).sum()).collect();
                let n: i64 = rs.iter().sum();
                if !(p2(n) && n <= 64 && rs.iter().all(|&v| p2(v)) && cs.iter().all(|&v| p2(v))) {
                    continue;
                }
                let (mut a, mut b) = (Vec::new(), Vec::new());
                for x in 0..ka {
                    for y in 0..kb {
                        for _ in 0..tab[x][y] {
                            a.push(5 * x as i64 - 3);
                            b.push(11 * y as i64 + 2);
                        }
                    }
                }
                let mut order: Vec<usize> = (0..a.len()).collect();
                order.shuffle(&mut r);
                let a: Vec<i64> = order.iter().map(|&k| a[k]).collect();
                let b: Vec<i64> = order.iter().map(|&k| b[k]).collect();
                let a2 = relabel(&mut r, &a);
                let b2 = relabel(&mut r, &b);
                run += 1;
                made += 1;
                out.emit(hcv(made % 2, run, &a, &b, &a2, &b2));
            }
            // argsort: short (insertion sort) and long (partitioning) vectors, heavy ties
            for i in 0..cnt {
                let n = if i % 3 == 0 { r.gen_range(1..=8usize) } else { r.gen_range(8..=200usize) };
                let levels = [0usize, 2, 3, 10][i % 4];
                let x: Vec<f64> = (0..n)
                    .map(|_| if levels == 0 { r.gen::<f64>() } else { r.gen_range(0..levels) as f64 })
                    .collect();
                run += 1;
                out.emit(argsort_event(run, &x, "plain"));
            }
            // BACK END family: the same metrics on owned ndarray vectors whose memory order is the
            // reverse of their logical order (ty "nd64"); asymmetric inputs, so that a reversed
            // read of either argument changes the value
            let nnd = if th { 400 } else { 80 };
            for i in 0..nnd {
                let n = r.gen_range(2..=40usize);
                let a = rand_labels(&mut r, n, true);
                let b = rand_labels(&mut r, n, true);
                let name = CLASSIF[i % 4];
                run += 1;
                emit!(metric(2 + i % 2, run, name, &a, &b, None, 1, 1, 1, 0, 0, "plain", None));
                let sc: Vec<f64> = (0..n).map(|k| (r.gen_range(0..8) + 3 * a[k]) as f64 + k as f64 / 64.0).collect();
                let rk = dense_ranks(&sc);
                run += 1;
                emit!(metric(2 + (i / 2) % 2, run, "auc", &a, &rk, Some(&sc), 1, 1, 1, 0, 0, "plain", None));
                let ya: Vec<i64> = (0..n as i64).map(|k| k + r.gen_range(-2..=2)).collect();
                let yb: Vec<i64> = ya.iter().map(|&v| v + r.gen_range(-2..=2)).collect();
                run += 1;
                emit!(metric(2 + i % 2, run, ["mse", "mae", "r2"][i % 3], &ya, &yb, None, 1, 1, 1, 0, 0, "plain", None));
                let la: Vec<i64> = (0..n).map(|k| (k * 3 / n) as i64).collect();        // ordered blocks
                let lb: Vec<i64> = (0..n).map(|k| if r.gen_bool(0.8) { (k * 4 / n) as i64 - 7 } else { r.gen_range(0..4) - 7 }).collect();
                let a2 = relabel(&mut r, &la);
                let b2 = relabel(&mut r, &lb);
                run += 1;
                out.emit(hcv(2, run, &la, &lb, &a2, &b2));
            }
            // ORDER family: median-of-three killers for the index sort behind ROC-AUC (distinct
            // scores whose partition tree is a chain about n/2 deep), also reversed, mirrored
            // and with pairs of ties; the sort must neither panic nor mis-sort
            let klens: &[usize] = if th { &[72, 80, 100, 128, 160, 200, 256, 300, 400] } else { &[80, 100, 128, 200, 300, 400] };
            for (t, &n) in klens.iter().enumerate() {
                let base = killer_order(n);
                let variants: Vec<Vec<i64>> = vec![
                    base.clone(),
                    base.iter().rev().cloned().collect(),
                    base.iter().map(|&k| n as i64 - 1 - k).collect(),
                    base.iter().map(|&k| k / 2).collect(),
                ];
                let nv = if th { 4 } else { 2 + t % 2 };
                for (vi, keys) in variants.iter().take(nv).enumerate() {
                    let ty = (t + vi) % 2;
                    let sc: Vec<f64> = keys.iter().map(|&k| k as f64 / 512.0).collect();
                    let a = rand_labels(&mut r, n, true);
                    let rk = dense_ranks(&sc);
                    run += 1;
                    emit!(metric(ty, run, "auc", &a, &rk, Some(&sc), 1, 1, 1, 0, 0, "killer", None));
                    run += 1;
                    out.emit(argsort_event(run, &sc, "killer"));
                }
            }
            // SIZE ladder: lengths around the powers of two at which a blocked / chunked
            // implementation changes regime.  Every pairwise metric, AUC and the cluster scores;
            // the exact definitions are O(n) (AUC: |P| * |N|) for TLC.
            let ladder: [usize; 8] = [255, 256, 257, 511, 512, 513, 768, 1024];
            for (t, &n) in ladder.iter().enumerate() {
                let ty = t % 2;
                let a = rand_labels(&mut r, n, true);
                let b = rand_labels(&mut r, n, true);
                for name in CLASSIF.iter() {
                    let (b1, b2) = if *name == "fbeta" { BETAS[t % 3] } else { (1, 1) };
                    run += 1;
                    emit!(metric(ty, run, name, &a, &b, None, b1, b2, 1, 0, 0, "plain", None));
                }
                if n <= 513 {
                    let sc: Vec<f64> = (0..n).map(|k| (r.gen_range(0..50) + 10 * a[k]) as f64).collect();
                    let rk = dense_ranks(&sc);
                    run += 1;
                    emit!(metric(1 - ty, run, "auc", &a, &rk, Some(&sc), 1, 1, 1, 0, 0, "plain", None));
                }
                // residuals that do not vanish anywhere, so that a dropped block shows
                let u = [1i64, 2][t % 2];
                let ya: Vec<i64> = (0..n).map(|_| r.gen_range(-2..=2i64)).collect();
                let yb: Vec<i64> = ya.iter().map(|&v| v + [-1i64, 1][r.gen_range(0..2)]).collect();
                for name in ["mse", "mae", "r2"].iter() {
                    for tyy in 0..2 {
                        run += 1;
                        emit!(metric(tyy, run, name, &ya, &yb, None, 1, 1, u, 0, 0, "plain", None));
                    }
                }
                if n != 511 && n != 513 && n != 768 {
                    let (ka, kb) = (r.gen_range(2..=4i64), r.gen_range(2..=4i64));
                    let la: Vec<i64> = (0..n).map(|_| 3 * r.gen_range(0..ka) - 4).collect();
                    let lb: Vec<i64> = (0..n).map(|k| if r.gen_bool(0.7) { la[k] + 50 } else { 50 + 3 * r.gen_range(0..kb) - 4 }).collect();
                    let a2 = relabel(&mut r, &la);
                    let b2 = relabel(&mut r, &lb);
                    run += 1;
                    out.emit(hcv(ty, run, &la, &lb, &a2, &b2));
                }
            }
        }
        _ => {
            eprintln!("unknown c15 mode {}", mode);
            std::process::exit(2);
        }
    }
    let n = out.finish();
    println!("events={} runs={} skipped_out_of_range={}", n, run, skipped);
}
