//! C01 — LU, QR, Cholesky and SVD factors multiply back to the input and solve A*X = B.
//!
//! This driver holds no property logic.  It
//!   * generates integer-valued input matrices (families listed in `FAMILIES`), optionally fed to
//!     the library multiplied by an exact power of two (`se`), in f64 and f32;
//!   * attaches to every input an *exact integer certificate* about the input (an index set, the
//!     adjugate and determinant of that square sub-matrix, a null-space basis for the
//!     rank-deficient family), computed in i128 arithmetic, which the TLA+ specification verifies
//!     by itself before it relies on it (spec/linalg/Factorisations.tla, `CertOK`);
//!   * calls the real `lu / qr / cholesky / svd / *_solve_mut / inverse` inside `catch_unwind`;
//!   * projects the returned floats to integers: exact descaling by 2^-se, fixed point
//!     round(v * 2^S), sign pattern, `== 1.0` pattern, dense ranks;
//!   * refuses to emit numbers whose products could exceed the 32-bit range of TLC (`inr:false`,
//!     counted by the specification as OutOfRange, never as a pass).
//! Pass / fail is decided by the predicates of Factorisations.tla evaluated by TLC on each line.
use rand::rngs::StdRng;
use rand::seq::SliceRandom;
use rand::Rng;
use serde_json::{json, Map, Value};
use smartcore::linalg::cholesky::CholeskyDecomposableMatrix;
use smartcore::linalg::lu::LUDecomposableMatrix;
use smartcore::linalg::naive::dense_matrix::DenseMatrix;
use smartcore::linalg::qr::QRDecomposableMatrix;
use smartcore::linalg::svd::SVDDecomposableMatrix;
use smartcore::linalg::BaseMatrix;
use smartcore::math::num::RealNumber;
use vutil::*;

type IM = Vec<Vec<i64>>;
type FM = Vec<Vec<f64>>;

/// fixed-point scale of every quantised output: round(v * 2^S)
const S: u32 = 10;
/// every sum of products the specification forms must stay below this bound
const PROD_LIMIT: f64 = 1_073_741_824.0; // 2^30
const ADJ_LIMIT: i128 = 1 << 22;
const DET_LIMIT: i128 = 1 << 30;

// ---------------------------------------------------------------------------------------------
// exact integer linear algebra (for the certificates about the *inputs*)
// ---------------------------------------------------------------------------------------------
fn det_i(a: &[Vec<i128>]) -> i128 {
    let n = a.len();
    if n == 0 {
        return 1;
    }
    let mut m: Vec<Vec<i128>> = a.to_vec();
    let mut sign = 1i128;
    let mut prev = 1i128;
    for k in 0..n {
        if m[k][k] == 0 {
            let mut p = None;
            for (i, row) in m.iter().enumerate().skip(k + 1) {
                if row[k] != 0 {
                    p = Some(i);
                    break;
                }
            }
            match p {
                None => return 0,
                Some(i) => {
                    m.swap(i, k);
                    sign = -sign;
                }
            }
        }
        for i in k + 1..n {
            for j in k + 1..n {
                m[i][j] = (m[i][j] * m[k][k] - m[i][k] * m[k][j]) / prev;
            }
        }
        prev = m[k][k];
    }
    sign * m[n - 1][n - 1]
}

/// (adj, det) with a * adj = det * I
fn adj_det(a: &[Vec<i128>]) -> (Vec<Vec<i128>>, i128) {
    let n = a.len();
    let d = det_i(a);
    let mut adj = vec![vec![0i128; n]; n];
    for i in 0..n {
        for j in 0..n {
            let minor: Vec<Vec<i128>> = (0..n)
                .filter(|&r| r != i)
                .map(|r| (0..n).filter(|&c| c != j).map(|c| a[r][c]).collect())
                .collect();
            let c = det_i(&minor);
            adj[j][i] = if (i + j) % 2 == 0 { c } else { -c };
        }
    }
    (adj, d)
}

fn gcd(a: i128, b: i128) -> i128 {
    let (mut a, mut b) = (a.abs(), b.abs());
    while b != 0 {
        let t = a % b;
        a = b;
        b = t;
    }
    a
}

struct Cert {
    rows: Vec<usize>,
    cols: Vec<usize>,
    adj: IM,
    det: i64,
}

/// certificate for the square sub-matrix a[rows][cols]; None when singular or numbers too large
fn cert_sub(a: &IM, rows: &[usize], cols: &[usize]) -> Option<(Cert, f64)> {
    let sub: Vec<Vec<i128>> = rows
        .iter()
        .map(|&r| cols.iter().map(|&c| a[r][c] as i128).collect())
        .collect();
    let (mut adj, mut d) = adj_det(&sub);
    if d == 0 {
        return None;
    }
    let mut g = d.abs();
    for r in adj.iter() {
        for &v in r.iter() {
            g = gcd(g, v);
        }
    }
    if g > 1 {
        d /= g;
        for r in adj.iter_mut() {
            for v in r.iter_mut() {
                *v /= g;
            }
        }
    }
    if d.abs() > DET_LIMIT || adj.iter().any(|r| r.iter().any(|v| v.abs() > ADJ_LIMIT)) {
        return None;
    }
    let n = adj.len();
    let n1 = (0..n)
        .map(|j| (0..n).map(|i| adj[i][j].abs()).sum::<i128>())
        .max()
        .unwrap_or(0) as f64;
    let ninf = (0..n)
        .map(|i| (0..n).map(|j| adj[i][j].abs()).sum::<i128>())
        .max()
        .unwrap_or(0) as f64;
    let score = n1 * ninf / (d as f64 * d as f64);
    Some((
        Cert {
            rows: rows.to_vec(),
            cols: cols.to_vec(),
            adj: adj
                .iter()
                .map(|r| r.iter().map(|&v| v as i64).collect())
                .collect(),
            det: d as i64,
        },
        score,
    ))
}

fn subsets(n: usize, k: usize) -> Vec<Vec<usize>> {
    let mut out = Vec::new();
    let mut cur = Vec::new();
    fn rec(start: usize, n: usize, k: usize, cur: &mut Vec<usize>, out: &mut Vec<Vec<usize>>) {
        if cur.len() == k {
            out.push(cur.clone());
            return;
        }
        for i in start..n {
            cur.push(i);
            rec(i + 1, n, k, cur, out);
            cur.pop();
        }
    }
    rec(0, n, k, &mut cur, &mut out);
    out
}

/// full-rank certificate of an m x n matrix: the best conditioned min(m,n)-square sub-matrix
/// made of whole columns (m >= n) or whole rows (m < n)
/// index subsets to try for a certificate: all of them when there are few, otherwise the
/// leading one plus a deterministic pseudo-random sample
fn candidate_subsets(m: usize, k: usize) -> Vec<Vec<usize>> {
    let mut count = 1f64;
    for i in 0..k {
        count = count * (m - i) as f64 / (i + 1) as f64;
    }
    if count <= 300.0 {
        return subsets(m, k);
    }
    let mut out = vec![(0..k).collect::<Vec<usize>>()];
    let mut x: u64 = 0x9E37_79B9_7F4A_7C15 ^ ((m as u64) << 32) ^ k as u64;
    for _ in 0..100 {
        let mut idx: Vec<usize> = (0..m).collect();
        for i in 0..k {
            x ^= x << 13;
            x ^= x >> 7;
            x ^= x << 17;
            let j = i + (x % (m - i) as u64) as usize;
            idx.swap(i, j);
        }
        let mut sub: Vec<usize> = idx[..k].to_vec();
        sub.sort_unstable();
        out.push(sub);
    }
    out
}

fn cert_full(a: &IM) -> Option<Cert> {
    let m = a.len();
    let n = a[0].len();
    let mut best: Option<(Cert, f64)> = None;
    if m >= n {
        let cols: Vec<usize> = (0..n).collect();
        for rows in candidate_subsets(m, n) {
            if let Some((c, s)) = cert_sub(a, &rows, &cols) {
                if best.as_ref().map(|b| s < b.1).unwrap_or(true) {
                    best = Some((c, s));
                }
            }
        }
    } else {
        let rows: Vec<usize> = (0..m).collect();
        for cols in candidate_subsets(n, m) {
            if let Some((c, s)) = cert_sub(a, &rows, &cols) {
                if best.as_ref().map(|b| s < b.1).unwrap_or(true) {
                    best = Some((c, s));
                }
            }
        }
    }
    best.map(|b| b.0)
}

fn one_based(v: &[usize]) -> Vec<usize> {
    v.iter().map(|x| x + 1).collect()
}

fn cert_json(c: &Option<Cert>, null: &Option<(IM, Vec<usize>)>) -> Value {
    let (nm, piv) = match null {
        Some((nm, piv)) => (json!(nm), json!(one_based(piv))),
        None => (json!([]), json!([])),
    };
    match c {
        Some(c) => json!({"kind": "sub", "rows": one_based(&c.rows), "cols": one_based(&c.cols),
                          "adj": c.adj, "det": c.det, "N": nm, "piv": piv}),
        None => json!({"kind": "none", "rows": [], "cols": [], "adj": [], "det": 0, "N": nm, "piv": piv}),
    }
}

// ---------------------------------------------------------------------------------------------
// projections
// ---------------------------------------------------------------------------------------------
trait Width: RealNumber {
    const NAME: &'static str;
}
impl Width for f64 {
    const NAME: &'static str = "f64";
}
impl Width for f32 {
    const NAME: &'static str = "f32";
}

fn pow2(e: i32) -> f64 {
    (2.0f64).powi(e)
}

fn to_mat<T: Width>(a: &IM, se: i32) -> DenseMatrix<T> {
    let m = a.len();
    let n = a[0].len();
    let mut v = Vec::with_capacity(m * n);
    for r in a {
        for &x in r {
            v.push(T::from_f64(x as f64 * pow2(se)).unwrap());
        }
    }
    DenseMatrix::from_array(m, n, &v)
}

/// entries as f64 (exact for both widths), multiplied by the exact power of two `mul`
/// the matrix actually fed: A * 2^se, plus the tiny entries of the noise pattern where A is zero
fn fed<T: Width>(r: &Run) -> DenseMatrix<T> {
    let m = r.a.len();
    let n = r.a[0].len();
    let mut v = Vec::with_capacity(m * n);
    for i in 0..m {
        for j in 0..n {
            let mut x = r.a[i][j] as f64 * pow2(r.se);
            if let Some((ne, pat)) = &r.noise {
                if r.a[i][j] == 0 && pat[i][j] != 0 {
                    x = pat[i][j] as f64 * pow2(r.se + ne);
                }
            }
            v.push(T::from_f64(x).unwrap());
        }
    }
    DenseMatrix::from_array(m, n, &v)
}

fn rows_of<T: Width>(m: &DenseMatrix<T>, mul: f64) -> FM {
    let (r, c) = m.shape();
    (0..r)
        .map(|i| (0..c).map(|j| m.get(i, j).to_f64().unwrap() * mul).collect())
        .collect()
}

fn sg(m: &FM) -> IM {
    m.iter()
        .map(|r| {
            r.iter()
                .map(|&v| if v > 0.0 { 1 } else if v < 0.0 { -1 } else { 0 })
                .collect()
        })
        .collect()
}

fn is_one(m: &FM) -> IM {
    m.iter()
        .map(|r| r.iter().map(|&v| if v == 1.0 { 1 } else { 0 }).collect())
        .collect()
}

fn maxabs(m: &IM) -> f64 {
    m.iter()
        .flat_map(|r| r.iter())
        .map(|v| v.abs())
        .max()
        .unwrap_or(0) as f64
}

fn maxabs_v(v: &[i64]) -> f64 {
    v.iter().map(|v| v.abs()).max().unwrap_or(0) as f64
}

fn take_rows(m: &FM, n: usize) -> FM {
    m.iter().take(n).cloned().collect()
}

/// do all the (inner dimension, max|x|, max|y|) products stay in range?
fn in_range(prods: &[(usize, f64, f64)]) -> bool {
    prods
        .iter()
        .all(|&(k, a, b)| (k.max(1) as f64) * a.max(1.0) * b.max(1.0) < PROD_LIMIT)
}

struct Run<'a> {
    out: &'a mut Out,
    run: i64,
    fam: String,
    a: IM,
    cert: Value,
    se: i32,
    /// tiny entries (pattern * 2^ne relative to the scale of A) added at zero positions of A
    noise: Option<(i32, IM)>,
    stats: &'a mut Stats,
}

#[derive(Default)]
struct Stats {
    events: usize,
    out_of_range: usize,
    nonfinite: usize,
}

impl<'a> Run<'a> {
    fn emit<T: Width>(&mut self, ev: &str, extra: Value, status: &str, q: Option<&Q>, inr: bool, out: Value) {
        let fin = q.map(|q| q.ok()).unwrap_or(true);
        let mut o = Map::new();
        o.insert("run".into(), json!(self.run));
        o.insert("ev".into(), json!(ev));
        o.insert("w".into(), json!(T::NAME));
        o.insert("se".into(), json!(self.se));
        o.insert("S".into(), json!(S));
        o.insert("fam".into(), json!(self.fam));
        o.insert("m".into(), json!(self.a.len()));
        o.insert("n".into(), json!(self.a[0].len()));
        o.insert("A".into(), json!(self.a));
        o.insert("cert".into(), self.cert.clone());
        o.insert("noise".into(), match &self.noise {
            Some((ne, pat)) => json!({"ne": ne, "pat": pat}),
            None => json!({"ne": 0, "pat": []}),
        });
        if let Value::Object(x) = extra {
            for (k, v) in x {
                o.insert(k, v);
            }
        }
        o.insert("status".into(), json!(status));
        if status != "ok" {
            o.insert("msg".into(), json!(LAST_MSG.with(|m| m.borrow().clone())));
        }
        o.insert("fin".into(), json!(fin));
        let ok = status == "ok" && fin && inr;
        o.insert("inr".into(), json!(inr));
        // numbers are only emitted when they are finite and in range
        o.insert("out".into(), if ok { out } else { json!({}) });
        self.stats.events += 1;
        if status == "ok" && !fin {
            self.stats.nonfinite += 1;
        }
        if status == "ok" && fin && !inr {
            self.stats.out_of_range += 1;
        }
        self.out.emit(Value::Object(o));
    }
}

fn status_of<R>(r: &Result<Result<R, smartcore::error::Failed>, String>) -> &'static str {
    match r {
        Ok(Ok(_)) => "ok",
        Ok(Err(e)) => {
            LAST_MSG.with(|m| *m.borrow_mut() = format!("{}", e));
            "err"
        }
        Err(p) => {
            LAST_MSG.with(|m| *m.borrow_mut() = p.clone());
            "panic"
        }
    }
}

thread_local! {
    /// message of the last error / panic (informational field `msg` of the event; the
    /// specification does not read it)
    static LAST_MSG: std::cell::RefCell<String> = std::cell::RefCell::new(String::new());
}

// ---------------------------------------------------------------------------------------------
// the calls
// ---------------------------------------------------------------------------------------------
fn ev_lu<T: Width>(r: &mut Run) {
    let n = r.a.len();
    let am = maxabs(&r.a);
    let a = fed::<T>(r);
    let res = guard(|| a.lu());
    let st = status_of(&res);
    if let Ok(Ok(lu)) = res {
        let got = guard(|| (lu.L(), lu.U(), lu.pivot()));
        match got {
            Ok((l, u, p)) => {
                let q = Q::new(S);
                let lf = rows_of(&l, 1.0);
                let uf = rows_of(&u, pow2(-r.se));
                let pf = rows_of(&p, 1.0);
                let lq = q.m(&lf);
                let uq = q.m(&uf);
                let pint = intm(&pf);
                let inr = in_range(&[(n, maxabs(&lq), maxabs(&uq)), (n, am, 1.0)]);
                let out = json!({"L": lq, "Lsg": sg(&lf), "Lone": is_one(&lf), "U": uq, "Usg": sg(&uf),
                                 "Pint": pint.is_some(), "P": pint.unwrap_or_default()});
                r.emit::<T>("LU", json!({}), "ok", Some(&q), inr, out);
            }
            Err(_) => r.emit::<T>("LU", json!({}), "panic", None, true, json!({})),
        }
    } else {
        r.emit::<T>("LU", json!({}), st, None, true, json!({}));
    }
    // inverse
    let a = fed::<T>(r);
    let res = guard(|| a.lu().and_then(|lu| lu.inverse()));
    let st = status_of(&res);
    if let Ok(Ok(inv)) = res {
        let q = Q::new(S);
        let xf = rows_of(&inv, pow2(r.se));
        let xq = q.m(&xf);
        let inr = in_range(&[(n, am, maxabs(&xq))]);
        r.emit::<T>("Inv", json!({}), "ok", Some(&q), inr, json!({"X": xq}));
    } else {
        r.emit::<T>("Inv", json!({}), st, None, true, json!({}));
    }
}

/// solve events; `b` has as many rows as A
fn ev_solve<T: Width>(r: &mut Run, method: &str, b: &IM) {
    let m = r.a.len();
    let n = r.a[0].len();
    let am = maxabs(&r.a);
    let bm = maxabs(b);
    let a = fed::<T>(r);
    let bb = to_mat::<T>(b, 0);
    let res = match method {
        "lu" => guard(|| a.lu_solve_mut(bb)),
        "qr" => guard(|| a.qr_solve_mut(bb)),
        "chol" => guard(|| a.cholesky_solve_mut(bb)),
        "svd" => guard(|| a.svd_solve_mut(bb)),
        "svd_ref" => guard(|| a.svd_solve(bb)),
        _ => unreachable!(),
    };
    let st = status_of(&res);
    let extra = json!({"method": method, "B": b});
    if let Ok(Ok(x)) = res {
        let q = Q::new(S);
        let xr = x.shape().0;
        let xf = take_rows(&rows_of(&x, pow2(r.se)), n);
        let xq = q.m(&xf);
        let xm = maxabs(&xq);
        // residual R = A X - 2^S B, then A^T R, and N^T X
        let rmax = n as f64 * am.max(1.0) * xm.max(1.0) + (1u64 << S) as f64 * bm;
        let nm = r.cert.get("N").and_then(|v| v.as_array()).map(|rows| {
            rows.iter()
                .flat_map(|r| r.as_array().unwrap().iter().map(|v| v.as_i64().unwrap().abs()))
                .max()
                .unwrap_or(0) as f64
        });
        let inr = in_range(&[(m, am, rmax), (n, nm.unwrap_or(1.0), xm)]);
        r.emit::<T>("Solve", extra, "ok", Some(&q), inr, json!({"X": xq, "xrows": xr}));
    } else {
        r.emit::<T>("Solve", extra, st, None, true, json!({}));
    }
}

fn ev_qr<T: Width>(r: &mut Run) {
    let m = r.a.len();
    let n = r.a[0].len();
    let a = fed::<T>(r);
    let res = guard(|| a.qr());
    let st = status_of(&res);
    if let Ok(Ok(qr)) = res {
        match guard(|| (qr.Q(), qr.R())) {
            Ok((qm, rm)) => {
                let q = Q::new(S);
                let qf = rows_of(&qm, 1.0);
                let rf = rows_of(&rm, pow2(-r.se));
                let qq = q.m(&qf);
                let rq = q.m(&rf);
                let inr = in_range(&[(m, maxabs(&qq), maxabs(&qq)), (n, maxabs(&qq), maxabs(&rq))]);
                r.emit::<T>("QR", json!({}), "ok", Some(&q), inr,
                            json!({"Q": qq, "R": rq, "Rsg": sg(&rf)}));
            }
            Err(_) => r.emit::<T>("QR", json!({}), "panic", None, true, json!({})),
        }
    } else {
        r.emit::<T>("QR", json!({}), st, None, true, json!({}));
    }
}

fn ev_chol<T: Width>(r: &mut Run) {
    let n = r.a.len();
    let a = fed::<T>(r);
    let res = guard(|| a.cholesky());
    let st = status_of(&res);
    if let Ok(Ok(ch)) = res {
        match guard(|| (ch.L(), ch.U())) {
            Ok((l, u)) => {
                let q = Q::new(S);
                let half = pow2(-r.se / 2);
                let lf = rows_of(&l, half);
                let uf = rows_of(&u, half);
                let lq = q.m(&lf);
                let uq = q.m(&uf);
                let inr = in_range(&[(n, maxabs(&lq), maxabs(&lq))]);
                r.emit::<T>("Chol", json!({}), "ok", Some(&q), inr,
                            json!({"L": lq, "Lsg": sg(&lf), "U": uq, "Usg": sg(&uf)}));
            }
            Err(_) => r.emit::<T>("Chol", json!({}), "panic", None, true, json!({})),
        }
    } else {
        r.emit::<T>("Chol", json!({}), st, None, true, json!({}));
    }
}

fn ev_svd<T: Width>(r: &mut Run) {
    let m = r.a.len();
    let n = r.a[0].len();
    let am = maxabs(&r.a);
    let a = fed::<T>(r);
    let res = guard(|| a.svd());
    let st = status_of(&res);
    if let Ok(Ok(svd)) = res {
        let sm = guard(|| svd.S());
        let q = Q::new(S);
        let uf = rows_of(&svd.U, 1.0);
        let vf = rows_of(&svd.V, 1.0);
        let sf: Vec<f64> = svd.s.iter().map(|x| x.to_f64().unwrap() * pow2(-r.se)).collect();
        let uq = q.m(&uf);
        let vq = q.m(&vf);
        let sq = q.v(&sf);
        let srk = if sf.iter().all(|x| x.is_finite()) { dense_ranks(&sf) } else { vec![] };
        let ssg: Vec<i64> = sf.iter().map(|&v| if v > 0.0 { 1 } else if v < 0.0 { -1 } else { 0 }).collect();
        let (smq, smsg, smok) = match sm {
            Ok(sm) => {
                let f = rows_of(&sm, pow2(-r.se));
                (q.m(&f), sg(&f), true)
            }
            Err(_) => (vec![], vec![], false),
        };
        let s2 = (1u64 << S) as f64;
        let inr = in_range(&[(m, maxabs(&uq), maxabs(&uq)), (n, maxabs(&vq), maxabs(&vq)),
                             (n, am * s2, maxabs(&vq)), (1, maxabs(&uq), maxabs_v(&sq))]);
        // the direct triple product (formed at scale 2^6 per factor) only where it fits 32 bits
        let tri = in_range(&[(n, (maxabs(&uq) / 16.0 + 1.0) * (maxabs_v(&sq) / 16.0 + 1.0), maxabs(&vq) / 16.0 + 1.0)]);
        r.emit::<T>("SVD", json!({}), "ok", Some(&q), inr,
                    json!({"U": uq, "V": vq, "s": sq, "sRk": srk, "sSg": ssg, "Sm": smq, "SmSg": smsg, "SmOk": smok,
                           "tri": tri}));
    } else {
        r.emit::<T>("SVD", json!({}), st, None, true, json!({}));
    }
}

// ---------------------------------------------------------------------------------------------
// input families
// ---------------------------------------------------------------------------------------------
fn cap(n: usize) -> i64 {
    match n {
        0..=5 => 16,
        6 => 8,
        7 => 5,
        8 => 4,
        _ => 2,
    }
}

fn rnd(rng: &mut StdRng, c: i64) -> i64 {
    rng.gen_range(-c..=c)
}

fn rnd_nz(rng: &mut StdRng, c: i64) -> i64 {
    let v = rng.gen_range(1..=c);
    if rng.gen_bool(0.5) {
        v
    } else {
        -v
    }
}

fn dense(rng: &mut StdRng, m: usize, n: usize, c: i64) -> IM {
    (0..m).map(|_| (0..n).map(|_| rnd(rng, c)).collect()).collect()
}

fn transpose(a: &IM) -> IM {
    let m = a.len();
    let n = a[0].len();
    (0..n).map(|j| (0..m).map(|i| a[i][j]).collect()).collect()
}

fn matmul(a: &IM, b: &IM) -> IM {
    let m = a.len();
    let k = b.len();
    let n = b[0].len();
    (0..m)
        .map(|i| (0..n).map(|j| (0..k).map(|t| a[i][t] * b[t][j]).sum()).collect())
        .collect()
}

fn hadamard(n: usize) -> IM {
    // Sylvester construction for n in {1,2,4,8}; columns mutually orthogonal
    let mut h: IM = vec![vec![1]];
    while h.len() < n {
        let k = h.len();
        let mut g = vec![vec![0; 2 * k]; 2 * k];
        for i in 0..k {
            for j in 0..k {
                g[i][j] = h[i][j];
                g[i][j + k] = h[i][j];
                g[i + k][j] = h[i][j];
                g[i + k][j + k] = -h[i][j];
            }
        }
        h = g;
    }
    h
}

const SQUARE_FAMILIES: &[&str] = &[
    "dense", "dense", "dense", "diag", "lower", "upper", "perm", "sperm", "orth", "lowrank_ridge",
    "zero_lead", "neg_alt", "graded", "singular", "sym_gram", "sym_dd", "sym_indef", "sym_zero_pivot", "sym_semidef",
];

fn gen_square(rng: &mut StdRng, n: usize, fam: &str) -> IM {
    let c = cap(n);
    match fam {
        "dense" => dense(rng, n, n, c),
        "diag" => {
            let mut a = vec![vec![0; n]; n];
            for (i, r) in a.iter_mut().enumerate() {
                r[i] = rnd_nz(rng, 16);
            }
            a
        }
        "lower" | "upper" => {
            let mut a = vec![vec![0; n]; n];
            for i in 0..n {
                for j in 0..=i {
                    a[i][j] = if i == j { rnd_nz(rng, 4) } else { rnd(rng, 3) };
                }
            }
            if fam == "upper" {
                transpose(&a)
            } else {
                a
            }
        }
        "perm" | "sperm" => {
            let mut p: Vec<usize> = (0..n).collect();
            p.shuffle(rng);
            let mut a = vec![vec![0; n]; n];
            for i in 0..n {
                a[i][p[i]] = if fam == "sperm" && rng.gen_bool(0.5) { -1 } else { 1 };
            }
            if fam == "sperm" && rng.gen_bool(0.3) {
                let k = rng.gen_range(1..=8);
                for r in a.iter_mut() {
                    for v in r.iter_mut() {
                        *v *= k;
                    }
                }
            }
            a
        }
        "orth" => {
            // integer matrix with mutually orthogonal columns of equal norm: Hadamard blocks,
            // rows / columns permuted and signs flipped
            let k = [1usize, 2, 4, 8].iter().cloned().filter(|&k| k <= n).max().unwrap();
            let h = hadamard(k);
            let mut a = vec![vec![0; n]; n];
            for i in 0..k {
                for j in 0..k {
                    a[i][j] = h[i][j];
                }
            }
            for i in k..n {
                a[i][i] = if k == 1 { 1 } else { 0 };
            }
            if k > 1 {
                // fill the rest with a scaled signed permutation of the same column norm^2 = k:
                // only possible when k is a perfect square (4 -> 2); otherwise plain +-1
                let s = if k == 4 { 2 } else { 1 };
                for i in k..n {
                    a[i][i] = s;
                }
            }
            let mut p: Vec<usize> = (0..n).collect();
            p.shuffle(rng);
            let mut b: IM = p.iter().map(|&i| a[i].clone()).collect();
            for r in b.iter_mut() {
                if rng.gen_bool(0.5) {
                    for v in r.iter_mut() {
                        *v = -*v;
                    }
                }
            }
            b
        }
        "lowrank_ridge" => {
            let u: Vec<i64> = (0..n).map(|_| rnd(rng, 2)).collect();
            let v: Vec<i64> = (0..n).map(|_| rnd(rng, 2)).collect();
            let ridge = rnd_nz(rng, 5);
            (0..n)
                .map(|i| (0..n).map(|j| u[i] * v[j] + if i == j { ridge } else { 0 }).collect())
                .collect()
        }
        "zero_lead" => {
            // zero leading entries (forces row exchanges / zero first Householder pivot)
            let mut a = dense(rng, n, n, c);
            a[0][0] = 0;
            if n > 2 {
                a[1][0] = 0;
                a[1][1] = 0;
            }
            a
        }
        "neg_alt" => {
            // zero leading entry, all alternatives in the first column negative
            let mut a = dense(rng, n, n, c);
            a[0][0] = 0;
            for r in a.iter_mut().skip(1) {
                r[0] = -r[0].abs() - if rng.gen_bool(0.5) { 1 } else { 0 };
            }
            a
        }
        "graded" => graded(rng, n, n),
        "singular" => {
            let mut a = dense(rng, n, n, c.min(4));
            if n >= 2 {
                let k = rng.gen_range(0..n - 1);
                let last = a[k].clone();
                a[n - 1] = last;
            } else {
                a[0][0] = 0;
            }
            a
        }
        "sym_gram" => {
            let g = dense(rng, n, n, if n <= 3 { 3 } else { 2 });
            let mut a = matmul(&g, &transpose(&g));
            let ridge = rng.gen_range(0..=3);
            for (i, r) in a.iter_mut().enumerate() {
                r[i] += ridge;
            }
            a
        }
        "sym_dd" => {
            let mut a = vec![vec![0i64; n]; n];
            for i in 0..n {
                for j in 0..i {
                    let v = rnd(rng, 2);
                    a[i][j] = v;
                    a[j][i] = v;
                }
            }
            for i in 0..n {
                let s: i64 = (0..n).filter(|&j| j != i).map(|j| a[i][j].abs()).sum();
                a[i][i] = s + rng.gen_range(1..=4);
            }
            a
        }
        "sym_indef" => {
            let mut a = vec![vec![0i64; n]; n];
            for i in 0..n {
                for j in 0..=i {
                    let v = rnd(rng, 4);
                    a[i][j] = v;
                    a[j][i] = v;
                }
            }
            a
        }
        "sym_zero_pivot" => {
            // symmetric, a zero on the diagonal somewhere and a negative diagonal entry later
            let mut a = vec![vec![0i64; n]; n];
            for i in 0..n {
                for j in 0..=i {
                    let v = if rng.gen_bool(0.5) { 0 } else { rnd(rng, 2) };
                    a[i][j] = v;
                    a[j][i] = v;
                }
            }
            let z = rng.gen_range(0..n);
            a[z][z] = 0;
            if n > 1 {
                let k = rng.gen_range(0..n);
                if k != z {
                    a[k][k] = -rng.gen_range(1..=3);
                }
            }
            a
        }
        "sym_semidef" => {
            let r = if n > 1 { rng.gen_range(1..n) } else { 1 };
            let g = dense(rng, n, r, 2);
            matmul(&g, &transpose(&g))
        }
        _ => unreachable!(),
    }
}

/// rows and columns of a {-1,0,1} matrix scaled by powers of two (entries up to 16): a mild form
/// of graded singular values that stays inside the integer range of the contract
fn graded(rng: &mut StdRng, m: usize, n: usize) -> IM {
    let r: Vec<u32> = (0..m).map(|_| rng.gen_range(0..=2)).collect();
    let c: Vec<u32> = (0..n).map(|_| rng.gen_range(0..=2)).collect();
    (0..m)
        .map(|i| (0..n).map(|j| rnd(rng, 1) * (1i64 << (r[i] + c[j]))).collect())
        .collect()
}

const TALL_FAMILIES: &[&str] = &["tall_dense", "tall_dense", "tall_graded", "tall_zero_rows", "tall_dup_rows", "tall_orth", "tall_zero_lead", "tall_deficient"];

fn gen_tall(rng: &mut StdRng, m: usize, n: usize, fam: &str) -> IM {
    let c = cap(n.max(m.min(6)));
    match fam {
        "tall_dense" => dense(rng, m, n, c),
        "tall_graded" => graded(rng, m, n),
        "tall_zero_rows" => {
            let mut a = dense(rng, m, n, c);
            let z = rng.gen_range(0..m);
            a[z] = vec![0; n];
            if rng.gen_bool(0.5) {
                a[0] = vec![0; n];
            }
            a
        }
        "tall_dup_rows" => {
            let mut a = dense(rng, m, n, c);
            let k = rng.gen_range(0..m - 1);
            a[m - 1] = a[k].clone();
            a
        }
        "tall_orth" => {
            let h = hadamard(8);
            let mut rows: Vec<usize> = (0..8).collect();
            rows.shuffle(rng);
            let mut cols: Vec<usize> = (0..8).collect();
            cols.shuffle(rng);
            (0..m).map(|i| (0..n).map(|j| h[rows[i]][cols[j]] * if rows[i] % 3 == 0 { 2 } else { 1 }).collect()).collect()
        }
        "tall_zero_lead" => {
            let mut a = dense(rng, m, n, c);
            a[0][0] = 0;
            for r in a.iter_mut().skip(1) {
                r[0] = -r[0].abs();
            }
            a
        }
        "tall_deficient" => {
            // last column = sum of two others (rank n-1): premise of QR / SVD-factor clauses fails
            let mut a = dense(rng, m, n, 3);
            if n >= 2 {
                for r in a.iter_mut() {
                    r[n - 1] = r[0] + if n >= 3 { r[1] } else { 0 };
                }
            }
            a
        }
        _ => unreachable!(),
    }
}

/// exactly rank-deficient m x n matrix of rank r with its null-space basis
/// A = M * W with W[:, perm[i]] = e_i (i < r) and W[:, perm[r + j]] = z[:, j]: rank r when M has
/// full column rank; returns A, the certificate of an r x r non-singular block and the integer
/// null-space basis with its pivot rows
fn rankdef_build(mm: &IM, z: &IM, perm: &[usize]) -> Option<(IM, Cert, IM, Vec<usize>)> {
    let m = mm.len();
    let r = mm[0].len();
    let k = z[0].len();
    let n = r + k;
    let mut w = vec![vec![0i64; n]; r];
    for i in 0..r {
        w[i][perm[i]] = 1;
    }
    for j in 0..k {
        for i in 0..r {
            w[i][perm[r + j]] = z[i][j];
        }
    }
    let a = matmul(mm, &w);
    if maxabs(&a) > 16.0 {
        return None;
    }
    // best r x r row subset of M
    let cols: Vec<usize> = (0..r).collect();
    let mut best: Option<(Cert, f64)> = None;
    for rows in subsets(m, r) {
        if let Some((c, s)) = cert_sub(mm, &rows, &cols) {
            if best.as_ref().map(|b| s < b.1).unwrap_or(true) {
                best = Some((c, s));
            }
        }
    }
    let (mut c, _) = best?;
    // the certificate lists the sub-matrix with its columns in the order given
    c.cols = (0..r).map(|i| perm[i]).collect();
    let mut nb = vec![vec![0i64; k]; n];
    let mut piv = Vec::new();
    for j in 0..k {
        nb[perm[r + j]][j] = 1;
        for i in 0..r {
            nb[perm[i]][j] = -z[i][j];
        }
        piv.push(perm[r + j]);
    }
    Some((a, c, nb, piv))
}

/// exactly rank-deficient m x n matrix of rank r with its null-space basis
fn gen_rankdef(rng: &mut StdRng, m: usize, n: usize, r: usize) -> Option<(IM, Cert, IM, Vec<usize>)> {
    for _ in 0..50 {
        let mm = dense(rng, m, r, 2);
        let z: IM = dense(rng, r, n - r, 2);
        let mut perm: Vec<usize> = (0..n).collect();
        perm.shuffle(rng);
        if let Some(x) = rankdef_build(&mm, &z, &perm) {
            return Some(x);
        }
    }
    None
}

/// Deterministic rank-deficient inputs.  The first one is the input on which svd_solve once
/// returned Ok with NaN rows in f32 below a scale of 2^-37 (subnormal Householder row norm in
/// svd_mut; repaired by commit 855218f): u * [1,-2,2,-1] with u = [2,-2,-2,2,1,2,-1].  The others
/// are siblings of rank 1 and 2 in the shapes 7x4, 5x5 and 4x7, and the 6x5 rank-1 input of the
/// known finding "f32, nullity >= 4" (NaN in V at every scale).
fn fixed_rankdef() -> Vec<(IM, Cert, IM, Vec<usize>)> {
    let col = |v: &[i64]| -> IM { v.iter().map(|&x| vec![x]).collect() };
    let specs: Vec<(IM, IM, Vec<usize>)> = vec![
        (col(&[2, -2, -2, 2, 1, 2, -1]), vec![vec![-2, 2, -1]], vec![0, 1, 2, 3]),
        (col(&[1, 2, -1, 2, -2, 1, 2]), vec![vec![2, -1, 1]], vec![2, 0, 3, 1]),
        (vec![vec![1, 0], vec![0, 1], vec![1, 1], vec![2, -1], vec![-1, 2], vec![1, -2], vec![2, 1]],
         vec![vec![1, -1], vec![2, 1]], vec![0, 2, 1, 3]),
        (col(&[1, -1, 2, -2, 1]), vec![vec![2, -1, 1, -2]], vec![0, 1, 2, 3, 4]),
        (vec![vec![1, 1], vec![1, -1], vec![2, 0], vec![0, 2], vec![-1, 1]],
         vec![vec![1, 2, -1], vec![-1, 1, 2]], vec![4, 0, 1, 2, 3]),
        (col(&[1, -2, 2, -1]), vec![vec![2, -2, -2, 2, 1, -1]], vec![0, 1, 2, 3, 4, 5, 6]),
        // u * [-1,2,1,-2,-2]: nullity 4; in f32 the residues cascade 1e-7 -> 1e-20 -> 1e-34 at any scale
        (col(&[2, 1, -1, 2, -2, -1]), vec![vec![-1, 2, -2, -2]], vec![2, 0, 1, 3, 4]),
    ];
    specs.iter().map(|(mm, z, p)| rankdef_build(mm, z, p).expect("fixed rank-deficient case")).collect()
}

// ---------------------------------------------------------------------------------------------
// size ladder: large inputs whose certificate (an integer matrix C and integer d with A*C = d*I
// on the certified sub-matrix) is known by construction -- cofactor expansion is hopeless there
// ---------------------------------------------------------------------------------------------
fn ident(n: usize) -> IM {
    (0..n).map(|i| (0..n).map(|j| if i == j { 1 } else { 0 }).collect()).collect()
}

/// small unimodular block (product of a few elementary row operations) and its integer inverse
fn unimodular_block(rng: &mut StdRng, s: usize) -> (IM, IM) {
    loop {
        let mut b = ident(s);
        if s > 1 {
            for _ in 0..rng.gen_range(1..=3) {
                let i = rng.gen_range(0..s);
                let mut j = rng.gen_range(0..s);
                if j == i {
                    j = (i + 1) % s;
                }
                let t = if rng.gen_bool(0.5) { 1 } else { -1 };
                let rj = b[j].clone();
                for (x, y) in b[i].iter_mut().zip(rj.iter()) {
                    *x += t * y;
                }
            }
        } else if rng.gen_bool(0.5) {
            b[0][0] = -1;
        }
        let bi: Vec<Vec<i128>> = b.iter().map(|r| r.iter().map(|&v| v as i128).collect()).collect();
        let (adj, d) = adj_det(&bi);
        if d.abs() == 1 && maxabs(&b) <= 3.0 {
            let inv: IM = adj.iter().map(|r| r.iter().map(|&v| (v * d) as i64).collect()).collect();
            return (b, inv);
        }
    }
}

fn perm(rng: &mut StdRng, n: usize) -> Vec<usize> {
    let mut p: Vec<usize> = (0..n).collect();
    p.shuffle(rng);
    p
}

fn block_sizes(rng: &mut StdRng, n: usize, maxb: usize) -> Vec<usize> {
    let mut left = n;
    let mut v = Vec::new();
    while left > 0 {
        let b = rng.gen_range(1..=left.min(maxb));
        v.push(b);
        left -= b;
    }
    v
}

/// A = rows p1 / columns p2 of a block-diagonal unimodular matrix (pivoting and sign activity in
/// every factorisation), C = the correspondingly permuted block inverse, d = 1
fn ladder_unimodular(rng: &mut StdRng, n: usize) -> (IM, Cert) {
    let mut b = vec![vec![0i64; n]; n];
    let mut bi = vec![vec![0i64; n]; n];
    let mut o = 0;
    for s in block_sizes(rng, n, 3) {
        let (blk, inv) = unimodular_block(rng, s);
        for i in 0..s {
            for j in 0..s {
                b[o + i][o + j] = blk[i][j];
                bi[o + i][o + j] = inv[i][j];
            }
        }
        o += s;
    }
    let p1 = perm(rng, n);
    let p2 = perm(rng, n);
    // A[i][j] = B[p1[i]][p2[j]]  =>  A^-1[j][i] = B^-1[p2[j]][p1[i]]
    let a: IM = (0..n).map(|i| (0..n).map(|j| b[p1[i]][p2[j]]).collect()).collect();
    let c: IM = (0..n).map(|j| (0..n).map(|i| bi[p2[j]][p1[i]]).collect()).collect();
    (a, Cert { rows: (0..n).collect(), cols: (0..n).collect(), adj: c, det: 1 })
}

/// Sylvester-Hadamard block of the largest power of two <= n, the rest a diagonal of powers of
/// two; rows and columns permuted, rows sign-flipped.  With h the block order, A*C = h*I for
/// C = A^T on the block and h / a_ii on the diagonal part.
fn ladder_hadamard(rng: &mut StdRng, n: usize) -> (IM, Cert) {
    let h = [1usize, 2, 4, 8, 16, 32, 64].iter().cloned().filter(|&k| k <= n).max().unwrap();
    let hm = hadamard(h);
    let mut b = vec![vec![0i64; n]; n];
    let mut c = vec![vec![0i64; n]; n];
    for i in 0..h {
        for j in 0..h {
            b[i][j] = hm[i][j];
            c[j][i] = hm[i][j];
        }
    }
    for i in h..n {
        let v = 1i64 << rng.gen_range(0..=3);
        b[i][i] = v;
        c[i][i] = h as i64 / v;
    }
    let p1 = perm(rng, n);
    let p2 = perm(rng, n);
    let sgn: Vec<i64> = (0..n).map(|_| if rng.gen_bool(0.5) { 1 } else { -1 }).collect();
    let a: IM = (0..n).map(|i| (0..n).map(|j| sgn[i] * b[p1[i]][p2[j]]).collect()).collect();
    let ci: IM = (0..n).map(|j| (0..n).map(|i| sgn[i] * c[p2[j]][p1[i]]).collect()).collect();
    (a, Cert { rows: (0..n).collect(), cols: (0..n).collect(), adj: ci, det: h as i64 })
}

/// symmetric, strictly diagonally dominant (hence positive definite) block-diagonal matrix under a
/// symmetric permutation; every block comes from a menu whose determinants divide 240, so that
/// C = blockdiag(adj_k * 240 / det_k) satisfies A*C = 240*I.  With `neg` one diagonal entry is
/// replaced by a clearly negative number (Cholesky must then report an error).
fn ladder_spd(rng: &mut StdRng, n: usize, neg: bool) -> (IM, Cert) {
    let menu: Vec<IM> = vec![
        vec![vec![3]],
        vec![vec![5]],
        vec![vec![2, 1], vec![1, 2]],
        vec![vec![2, -1], vec![-1, 2]],
        vec![vec![4, 1], vec![1, 4]],
        vec![vec![3, 1, 1], vec![1, 3, 1], vec![1, 1, 3]],
        vec![vec![3, -1, 1], vec![-1, 3, 1], vec![1, 1, 3]],
    ];
    let mut b = vec![vec![0i64; n]; n];
    let mut c = vec![vec![0i64; n]; n];
    let mut o = 0;
    while o < n {
        let blk = loop {
            let k = &menu[rng.gen_range(0..menu.len())];
            if k.len() <= n - o {
                break k.clone();
            }
        };
        let s = blk.len();
        let bi: Vec<Vec<i128>> = blk.iter().map(|r| r.iter().map(|&v| v as i128).collect()).collect();
        let (adj, d) = adj_det(&bi);
        assert!(d > 0 && 240 % d == 0);
        for i in 0..s {
            for j in 0..s {
                b[o + i][o + j] = blk[i][j];
                c[o + i][o + j] = (adj[i][j] * (240 / d)) as i64;
            }
        }
        o += s;
    }
    let p = perm(rng, n);
    let mut a: IM = (0..n).map(|i| (0..n).map(|j| b[p[i]][p[j]]).collect()).collect();
    let ci: IM = (0..n).map(|i| (0..n).map(|j| c[p[i]][p[j]]).collect()).collect();
    if neg {
        let k = rng.gen_range(n / 2..n);
        a[k][k] = -rng.gen_range(1..=3);
    }
    (a, Cert { rows: (0..n).collect(), cols: (0..n).collect(), adj: ci, det: 240 })
}

/// m x n, full column rank: the rows of an n x n ladder_unimodular matrix interleaved with m - n
/// further rows (random {-1,0,1}, zero, duplicates); the certificate points at the original rows
fn ladder_tall(rng: &mut StdRng, m: usize, n: usize) -> (IM, Cert) {
    let (sq, c) = ladder_unimodular(rng, n);
    let mut rows: Vec<(Option<usize>, Vec<i64>)> = sq.iter().cloned().enumerate().map(|(i, r)| (Some(i), r)).collect();
    for k in 0..m - n {
        let r: Vec<i64> = match k % 3 {
            0 => (0..n).map(|_| rnd(rng, 1)).collect(),
            1 => vec![0; n],
            _ => sq[rng.gen_range(0..n)].clone(),
        };
        rows.push((None, r));
    }
    rows.shuffle(rng);
    let mut where_is = vec![0usize; n];
    for (pos, (orig, _)) in rows.iter().enumerate() {
        if let Some(i) = orig {
            where_is[*i] = pos;
        }
    }
    let a: IM = rows.into_iter().map(|(_, r)| r).collect();
    (a, Cert { rows: where_is, cols: (0..n).collect(), adj: c.adj, det: c.det })
}

/// right-hand sides with 1..4 columns.  Half of them are plain random; the others mix, in every
/// position, zero columns, repeated columns, unit vectors, and columns exactly orthogonal to the
/// leading column of A (whose projection on the first Householder reflector is exactly zero)
fn gen_b(rng: &mut StdRng, a: &IM) -> IM {
    let m = a.len();
    let p = rng.gen_range(1..=4);
    if rng.gen_bool(0.5) {
        return dense(rng, m, p, 8);
    }
    let mut cols: Vec<Vec<i64>> = Vec::new();
    for _ in 0..p {
        let c: Vec<i64> = match rng.gen_range(0..6) {
            0 => vec![0; m],
            1 if !cols.is_empty() => cols[rng.gen_range(0..cols.len())].clone(),
            2 => {
                let mut e = vec![0; m];
                e[rng.gen_range(0..m)] = if rng.gen_bool(0.5) { 1 } else { -3 };
                e
            }
            3 if m >= 2 => {
                // w = a_j1 e_i - a_i1 e_j is orthogonal to the first column of A
                let i = rng.gen_range(0..m);
                let mut j = rng.gen_range(0..m);
                if j == i {
                    j = (i + 1) % m;
                }
                let mut w = vec![0; m];
                w[i] = a[j][0];
                w[j] = -a[i][0];
                if a[i][0] == 0 && a[j][0] == 0 {
                    w[i] = 1;
                }
                w
            }
            _ => (0..m).map(|_| rnd(rng, 8)).collect(),
        };
        cols.push(c);
    }
    (0..m).map(|i| (0..p).map(|j| cols[j][i]).collect()).collect()
}

fn pick_se(rng: &mut StdRng) -> i32 {
    match rng.gen_range(0..10) {
        0..=5 => 0,
        6 | 7 => 40,
        _ => -40,
    }
}

fn is_sym(a: &IM) -> bool {
    let n = a.len();
    a[0].len() == n && (0..n).all(|i| (0..n).all(|j| a[i][j] == a[j][i]))
}

thread_local! {
    /// which calls are made for the next inputs (bit set; all by default).  The quick tier makes
    /// only a few calls on the order-64 inputs, whose validation costs TLC seconds per event.
    static CALLS: std::cell::Cell<u32> = std::cell::Cell::new(0xff);
}
thread_local! {
    /// noise pattern for the next input (taken by one_input)
    static NOISE: std::cell::RefCell<Option<(i32, IM)>> = std::cell::RefCell::new(None);
}
const C_LU: u32 = 1;
const C_SOLVE_LU: u32 = 2;
const C_CHOL: u32 = 4;
const C_SOLVE_CHOL: u32 = 8;
const C_QR: u32 = 16;
const C_SOLVE_QR: u32 = 32;
const C_SVD: u32 = 64;
const C_SOLVE_SVD: u32 = 128;

/// all events of one input matrix at one width
fn events_for<T: Width>(r: &mut Run, rng: &mut StdRng, rankdef: bool, chol_only: bool) {
    let m = r.a.len();
    let n = r.a[0].len();
    let on = |bit: u32| CALLS.with(|c| c.get() & bit != 0);
    if chol_only {
        ev_chol::<T>(r);
        return;
    }
    if rankdef {
        ev_svd::<T>(r);
        let b = gen_b(rng, &r.a.clone());
        if m >= n {
            ev_solve::<T>(r, "svd", &b);
        }
        return;
    }
    let b = gen_b(rng, &r.a.clone());
    if m == n {
        if on(C_LU) {
            ev_lu::<T>(r);
        }
        if on(C_SOLVE_LU) {
            ev_solve::<T>(r, "lu", &b);
        }
        if is_sym(&r.a) {
            if on(C_CHOL) {
                ev_chol::<T>(r);
            }
            if on(C_SOLVE_CHOL) {
                ev_solve::<T>(r, "chol", &b);
            }
        }
    }
    if m >= n {
        if on(C_QR) {
            ev_qr::<T>(r);
        }
        if on(C_SOLVE_QR) {
            ev_solve::<T>(r, "qr", &b);
        }
    }
    if on(C_SVD) {
        ev_svd::<T>(r);
    }
    let which = if rng.gen_bool(0.5) { "svd" } else { "svd_ref" };
    if m >= n && on(C_SOLVE_SVD) {
        ev_solve::<T>(r, which, &b);
    }
}

fn one_input(out: &mut Out, stats: &mut Stats, rng: &mut StdRng, run: i64, fam: &str, a: IM,
             cert: Value, rankdef: bool, chol_only: bool, f32_too: Option<bool>, se: Option<i32>) {
    let se = se.unwrap_or_else(|| pick_se(rng));
    let use32 = f32_too.unwrap_or_else(|| rng.gen_bool(0.4));
    let noise = NOISE.with(|x| x.borrow_mut().take());
    let mut r = Run { out, run, fam: fam.to_string(), a, cert, se, noise, stats };
    if use32 {
        events_for::<f32>(&mut r, rng, rankdef, chol_only);
    } else {
        events_for::<f64>(&mut r, rng, rankdef, chol_only);
    }
}

/// Graded entries inside one matrix: for one certified input in six that has zero entries, tiny
/// numbers (+-1..3 times 2^ne relative to the scale of A; ne = -60, -83 (~1e-25), -100 in f32 and
/// -83, -565 (~1e-170), -600 in f64) are written into some of the zero positions (symmetrically
/// for symmetric A).  They are far below the 2^-10 resolution of the contract, which is therefore
/// still stated for A; what they exercise is the library's handling of tiny but non-zero
/// intermediate quantities.  Returns the family name and the float width to use.
fn maybe_noise(rng: &mut StdRng, a: &IM, certified: bool, fam: &str) -> (String, Option<bool>) {
    let m = a.len();
    let n = a[0].len();
    let zeros = a.iter().flat_map(|r| r.iter()).filter(|&&v| v == 0).count();
    if !certified || zeros == 0 || rng.gen_range(0..6) != 0 {
        return (fam.to_string(), None);
    }
    let w32 = rng.gen_bool(0.5);
    let ne = if w32 { [-60, -83, -100][rng.gen_range(0..3)] } else { [-83, -565, -600][rng.gen_range(0..3)] };
    let sym = m == n && is_sym(a);
    let mut pat = vec![vec![0i64; n]; m];
    for i in 0..m {
        for j in 0..n {
            if a[i][j] == 0 && (!sym || j <= i) && rng.gen_bool(0.6) {
                let v = rnd_nz(rng, 3);
                pat[i][j] = v;
                if sym {
                    pat[j][i] = v;
                }
            }
        }
    }
    NOISE.with(|x| *x.borrow_mut() = Some((ne, pat)));
    (format!("{}+noise", fam), Some(w32))
}

fn gen_random(path: &str) {
    let mut out = Out::create(path);
    let mut stats = Stats::default();
    let mut rng = rng(101);
    let big = thorough();
    let n_square = if big { 15600 } else { 900 };
    let n_tall = if big { 7800 } else { 420 };
    let n_wide = if big { 2400 } else { 144 };
    let n_rd = if big { 3600 } else { 216 };
    let mut run = 0i64;
    for i in 0..n_square {
        let fam = SQUARE_FAMILIES[i % SQUARE_FAMILIES.len()];
        let n = if rng.gen_range(0..6) == 0 {
            rng.gen_range(9..=12usize)
        } else {
            1 + (rng.gen_range(0..64usize) % 8).min(rng.gen_range(0..9usize).min(7))
        };
        let n = if fam == "sym_zero_pivot" || fam == "sym_indef" || fam == "sym_semidef" { n.min(5) } else { n };
        let a = gen_square(&mut rng, n, fam);
        let c = cert_full(&a);
        let (name, w) = maybe_noise(&mut rng, &a, c.is_some(), fam);
        let cert = cert_json(&c, &None);
        run += 1;
        one_input(&mut out, &mut stats, &mut rng, run, &name, a, cert, false, false, w, None);
    }
    for i in 0..n_tall {
        let fam = TALL_FAMILIES[i % TALL_FAMILIES.len()];
        let (n, m) = if rng.gen_range(0..6) == 0 && fam != "tall_orth" {
            let n = rng.gen_range(5..=9usize);
            (n, rng.gen_range(n + 1..=13usize))
        } else {
            let n = rng.gen_range(1..=6usize);
            (n, rng.gen_range(n + 1..=8usize))
        };
        let a = gen_tall(&mut rng, m, n, fam);
        let c = cert_full(&a);
        let (name, w) = maybe_noise(&mut rng, &a, c.is_some(), fam);
        let cert = cert_json(&c, &None);
        run += 1;
        one_input(&mut out, &mut stats, &mut rng, run, &name, a, cert, false, false, w, None);
    }
    for i in 0..n_wide {
        let fam = TALL_FAMILIES[i % TALL_FAMILIES.len()];
        let m = rng.gen_range(1..=6usize);
        let n = rng.gen_range(m + 1..=8usize);
        let a = transpose(&gen_tall(&mut rng, n, m, fam));
        let cert = cert_json(&cert_full(&a), &None);
        run += 1;
        let name = fam.replace("tall", "wide");
        one_input(&mut out, &mut stats, &mut rng, run, &name, a, cert, false, false, None, None);
    }
    // size ladder: orders 20, 33, 64 with certificates that are known by construction
    let reps = if big { 2 } else { 1 };
    for rep in 0..reps {
        for &n in &[20usize, 33, 64] {
            let mut inputs: Vec<(String, IM, Cert)> = Vec::new();
            let (a, c) = ladder_unimodular(&mut rng, n);
            inputs.push((format!("lad_unimod@{}", n), a, c));
            let (a, c) = ladder_hadamard(&mut rng, n);
            inputs.push((format!("lad_hadamard@{}", n), a, c));
            let (a, c) = ladder_spd(&mut rng, n, false);
            inputs.push((format!("lad_spd@{}", n), a, c));
            let (a, c) = ladder_spd(&mut rng, n, true);
            inputs.push((format!("lad_spd_negdiag@{}", n), a, c));
            let (mt, nt) = match n { 20 => (20, 12), 33 => (33, 20), _ => (64, 33) };
            let (a, c) = ladder_tall(&mut rng, mt, nt);
            inputs.push((format!("lad_tall@{}x{}", mt, nt), a.clone(), c));
            let (a, c) = ladder_tall(&mut rng, mt, nt);
            let at = transpose(&a);
            let ct = Cert { rows: c.cols.clone(), cols: c.rows.clone(), adj: transpose(&c.adj), det: c.det };
            inputs.push((format!("lad_wide@{}x{}", nt, mt), at, ct));
            for (k, (name, a, c)) in inputs.into_iter().enumerate() {
                // quick tier: everything at 20; at 33 and 64 a selection of calls per family (the
                // thorough tier makes every call on every family at every size)
                let calls = if big || n == 20 {
                    0xff
                } else if n == 33 {
                    match k {
                        0 => 0xff,                                  // unimodular: everything
                        1 => C_QR | C_SVD,                          // Hadamard
                        2 => C_CHOL | C_SOLVE_CHOL,                 // SPD
                        3 => 0xff,                                  // negative diagonal: cholesky only
                        4 => 0xff,                                  // tall 33 x 20
                        _ => 0,
                    }
                } else {
                    match k {
                        0 => C_LU | C_SOLVE_LU,
                        2 => C_CHOL,
                        3 => 0xff,
                        _ => 0,
                    }
                };
                if calls == 0 {
                    continue;
                }
                CALLS.with(|c| c.set(calls));
                run += 1;
                let chol_only = name.starts_with("lad_spd_negdiag");
                let cert = cert_json(&Some(c), &None);
                one_input(&mut out, &mut stats, &mut rng, run, &name, a, cert, false, chol_only, Some((k + rep) % 2 == 1), Some(0));
                CALLS.with(|c| c.set(0xff));
            }
        }
    }
    let mut made = 0;
    while made < n_rd {
        let n = rng.gen_range(2..=6usize);
        let m = rng.gen_range(n..=7usize);
        let r = rng.gen_range(1..n.min(5));
        if let Some((a, c, nb, piv)) = gen_rankdef(&mut rng, m, n, r) {
            let cert = cert_json(&Some(c), &Some((nb, piv)));
            run += 1;
            made += 1;
            // one in three in f32 at the smallest scale, where row norms approach the subnormal range
            let (w, se) = if made % 3 == 0 { (Some(true), Some(-40)) } else { (None, None) };
            one_input(&mut out, &mut stats, &mut rng, run, "rankdef", a, cert, true, false, w, se);
        }
    }
    let n = out.finish();
    println!("{}", json!({"events": n, "out_of_range": stats.out_of_range, "nonfinite": stats.nonfinite}));
}

/// exhaustive small domains: every symmetric 3x3 matrix over {-1,0,1} (729) through Cholesky,
/// every 2x2 matrix over {-2..2} (625) through everything
fn gen_exhaustive(path: &str) {
    let mut out = Out::create(path);
    let mut stats = Stats::default();
    let mut rng = rng(102);
    let mut run = 100_000i64;
    let big = thorough();
    // symmetric 3x3 over {-1,0,1}; thorough: also over {-2..2} for the 2x2 and 3x3 with diagonal in 0..2
    for code in 0..729u32 {
        let mut c = code;
        let mut v = [0i64; 6];
        for x in v.iter_mut() {
            *x = (c % 3) as i64 - 1;
            c /= 3;
        }
        let a = vec![vec![v[0], v[1], v[2]], vec![v[1], v[3], v[4]], vec![v[2], v[4], v[5]]];
        let cert = cert_json(&cert_full(&a), &None);
        run += 1;
        let w32 = code % 2 == 1;
        one_input(&mut out, &mut stats, &mut rng, run, "exh_sym3", a, cert, false, true, Some(w32), Some(0));
    }
    if big {
        // every symmetric 3x3 matrix over {-2..2} (15 625) through Cholesky
        for code in 0..15625u32 {
            let mut c = code;
            let mut v = [0i64; 6];
            for x in v.iter_mut() {
                *x = (c % 5) as i64 - 2;
                c /= 5;
            }
            if v.iter().all(|x| x.abs() <= 1) {
                continue; // already covered above
            }
            let a = vec![vec![v[0], v[1], v[2]], vec![v[1], v[3], v[4]], vec![v[2], v[4], v[5]]];
            let cert = cert_json(&cert_full(&a), &None);
            run += 1;
            one_input(&mut out, &mut stats, &mut rng, run, "exh_sym3b", a, cert, false, true, Some(code % 2 == 1), Some(0));
        }
    }
    // deterministic rank-deficient cases (see fixed_rankdef)
    for (a, c, nb, piv) in fixed_rankdef() {
        for &(w32, se) in &[(true, -37), (true, -40), (true, 0), (false, -40)] {
            let cert = cert_json(&Some(Cert { rows: c.rows.clone(), cols: c.cols.clone(), adj: c.adj.clone(), det: c.det }),
                                 &Some((nb.clone(), piv.clone())));
            run += 1;
            one_input(&mut out, &mut stats, &mut rng, run, "fixed_rankdef", a.clone(), cert, true, false, Some(w32), Some(se));
        }
    }
    let lim = if big { 3i64 } else { 2 };
    for a00 in -lim..=lim {
        for a01 in -lim..=lim {
            for a10 in -lim..=lim {
                for a11 in -lim..=lim {
                    let a = vec![vec![a00, a01], vec![a10, a11]];
                    let cert = cert_json(&cert_full(&a), &None);
                    run += 1;
                    let w32 = (a00 + a01 + a10 + a11).rem_euclid(2) == 1;
                    one_input(&mut out, &mut stats, &mut rng, run, "exh_2x2", a, cert, false, false, Some(w32), Some(0));
                }
            }
        }
    }
    let n = out.finish();
    println!("{}", json!({"events": n, "out_of_range": stats.out_of_range, "nonfinite": stats.nonfinite}));
}

/// re-execute the inputs of recorded events (replay of a violation artefact)
fn replay(inp: &str, path: &str) {
    let evs = read_ndjson(inp);
    let mut out = Out::create(path);
    let mut stats = Stats::default();
    let mut rng = rng(103);
    for e in evs {
        let a: IM = serde_json::from_value(e["A"].clone()).unwrap();
        let se = e["se"].as_i64().unwrap() as i32;
        let w32 = e["w"] == "f32";
        let noise = match e.get("noise") {
            Some(x) if x["pat"].as_array().map(|p| !p.is_empty()).unwrap_or(false) => {
                Some((x["ne"].as_i64().unwrap() as i32, serde_json::from_value::<IM>(x["pat"].clone()).unwrap()))
            }
            _ => None,
        };
        let mut r = Run { out: &mut out, run: e["run"].as_i64().unwrap(), fam: e["fam"].as_str().unwrap().to_string(),
                          a, cert: e["cert"].clone(), se, noise, stats: &mut stats };
        let ev = e["ev"].as_str().unwrap().to_string();
        macro_rules! both {
            ($f:ident $(, $arg:expr)*) => {
                if w32 { $f::<f32>(&mut r $(, $arg)*) } else { $f::<f64>(&mut r $(, $arg)*) }
            };
        }
        match ev.as_str() {
            "LU" | "Inv" => both!(ev_lu),
            "QR" => both!(ev_qr),
            "Chol" => both!(ev_chol),
            "SVD" => both!(ev_svd),
            "Solve" => {
                let b: IM = serde_json::from_value(e["B"].clone()).unwrap();
                let method = e["method"].as_str().unwrap().to_string();
                both!(ev_solve, &method, &b)
            }
            _ => {}
        }
        let _ = &mut rng;
    }
    let n = out.finish();
    println!("{}", json!({"events": n}));
}

/// spec -> impl: run the real code on the inputs printed by the design models (LUModel.tla,
/// CholeskyModel.tla) and record the model's expectation next to the real observable; the
/// comparison itself is made by the trace specification
fn replay_spec(inp: &str, path: &str) {
    let lines = read_ndjson(inp);
    let mut out = Out::create(path);
    let mut run = 200_000i64;
    for e in lines {
        run += 1;
        let a: IM = serde_json::from_value(e["A"].clone()).unwrap();
        let am = to_mat::<f64>(&a, 0);
        match e["kind"].as_str().unwrap() {
            "lu" => {
                let res = guard(|| am.lu().map(|lu| (lu.L(), lu.U(), lu.pivot())));
                let st = status_of(&res);
                let q = Q::new(S);
                let got = match res {
                    Ok(Ok((l, u, p))) => json!({"L": q.m(&rows_of(&l, 1.0)), "U": q.m(&rows_of(&u, 1.0)),
                                                "P": intm(&rows_of(&p, 1.0)).unwrap_or_default()}),
                    _ => json!({"L": [], "U": [], "P": []}),
                };
                out.emit(json!({"run": run, "ev": "LUCmp", "A": a, "status": st, "fin": q.ok(),
                                "expect": {"L": e["L"], "U": e["U"], "P": e["P"]}, "got": got}));
            }
            "chol" => {
                let res = guard(|| am.cholesky().map(|c| c.L()));
                let st = status_of(&res);
                let q = Q::new(S);
                if let Ok(Ok(l)) = res {
                    q.m(&rows_of(&l, 1.0));
                }
                out.emit(json!({"run": run, "ev": "CholCmp", "A": a, "status": st, "fin": st == "ok" && q.ok(),
                                "expect": {"status": e["status"], "fin": e["fin"]}}));
            }
            _ => {}
        }
    }
    let n = out.finish();
    println!("{}", json!({"events": n}));
}

/// development aid: print the raw f32 / f64 SVD of the matrix of the first event of a file
fn probe_svd(inp: &str) {
    let e = &read_ndjson(inp)[0];
    let a: IM = serde_json::from_value(e["A"].clone()).unwrap();
    let se = e["se"].as_i64().unwrap() as i32;
    let a32 = to_mat::<f32>(&a, se);
    let a64 = to_mat::<f64>(&a, se);
    let s32 = a32.svd().unwrap();
    let s64 = a64.svd().unwrap();
    println!("f32 s = {:?}\nf32 V = {:?}\nf32 U = {:?}", s32.s, rows_of(&s32.V, 1.0), rows_of(&s32.U, 1.0));
    println!("f64 s = {:?}", s64.s);
}

fn main() {
    silence_panics();
    let args: Vec<String> = std::env::args().collect();
    match arg(&args, 1) {
        "gen-random" => gen_random(arg(&args, 2)),
        "gen-exhaustive" => gen_exhaustive(arg(&args, 2)),
        "replay-file" => replay(arg(&args, 2), arg(&args, 3)),
        "replay-spec" => replay_spec(arg(&args, 2), arg(&args, 3)),
        "probe-svd" => probe_svd(arg(&args, 2)),
        x => {
            eprintln!("unknown sub-command {}", x);
            std::process::exit(2)
        }
    }
}
