"""C18 — one-hot encoding / category mapper.  DESIGN.md §3 C18.

1. TLC model-checks the design models: OneHotModel (fit + find_new_idxs + transform as a
   state machine) in three configurations -- repaired accumulator against IsOneHot / Encode /
   NewIdxOf, the same with a non-integer column kind (error path), and the arithmetic as
   built against the exact characterisation MisIndexed of its defect -- and CategoryMapperMC
   (all short histories of the three constructors) against MapperVerdict.
2. spec -> impl: the REPLAY lines printed in the terminal states (input + the model's
   observable) are replayed by the harness through the real OneHotEncoder (f64, f32) and
   CategoryMapper (u16, String).
3. impl -> spec: those events plus seeded random layouts / error cases / mapper histories are
   validated by TLC against PreprocTrace.tla, i.e. against the same predicate operators.
"""
import json

import vlib

LEVEL = "model_checking"

RULE = ("OneHotEncoder fit+transform on every layout TLC enumerates (p<=5/6 columns, each plain or categorical with "
        "1..3 categories, indices passed ascending/descending/rotated; p<=3/4 with a non-integer column) on f64 and f32, "
        "plus seeded random layouts (n<=40, p<=10, <=6 categories, any subset/order; DenseMatrix f64/f32 and column-major "
        "ndarray; negative zeros observed through their sign) and a row-count ladder 63..257/1025 (p<=4), each with unseen-value, non-integer and "
        "other-matrix variants; CategoryMapper<u16>/<String> on every history TLC enumerates (<=4/6 items over 4 symbols, "
        "3 constructors) plus random histories (<=60 items, <=12 symbols). An Encode case is non-trivial when two "
        "categorical columns are followed by a further column, or a column has a single category, or the indices are "
        "not passed in ascending order; a Mapper case when it has a repeated item or an unknown probe. "
        "distinct = distinct (p, sorted categorical set, category counts, order class, matrix type) resp. "
        "(ctor, type, items) tuples")

KNOWN_OFFSET_KEY = ("onehot: some column j with c_i < j < c_i + i behind the i-th (i>=2) sorted categorical column c_i "
                    "having >=2 categories; output equals the as-built find_new_idxs arithmetic")

TRACE_SPEC = ("preproc/PreprocTrace.tla", "preproc/PreprocTrace.cfg")
MUST_HIT = ("Encode", "EncodeNonTrivial", "FitErr", "Unseen", "Unconstrained", "NegZeroPassThrough", "RowLadder",
            "RowsDifferAcrossBlocks", "UnseenLateRow", "FitErrLateRow", "NdColumnMajor", "FitErrCancelling",
            "UnseenOutOfCodeRange", "UnseenSaturatesToSeen", "UnseenInfinite", "Mapper", "MapperUnknownProbe", "Expect")


def cat_counts(e):
    cs = sorted(e["cats"])
    return cs, [len(set(r[j] for r in e["X2"])) for j in cs]


def enc_class(e):
    """input classification for the evidence counters only (the verdict is TLC's)"""
    cs, ks = cat_counts(e)
    p = len(e["X2"][0])
    order = "asc" if e["cats"] == cs else ("desc" if e["cats"] == cs[::-1] else "other")
    nontrivial = (len(cs) >= 2 and cs[1] < p - 1) or (1 in ks) or order != "asc"
    return (p, tuple(cs), tuple(ks), order, e["ty"]), nontrivial


KNOWN_SATURATION_KEY = ("onehot transform: unseen value outside 0..65535 whose saturated u16 code (0 for negative, 65535 for "
                        "large / +inf) is a fitted category is encoded as that category instead of an error")


def key_of(e, clause):
    if clause.endswith("@asbuilt-offset"):
        return KNOWN_OFFSET_KEY
    if clause.endswith("@saturated-code-seen"):
        return KNOWN_SATURATION_KEY
    if e["ev"] == "Encode":
        cs, ks = cat_counts(e)
        return "encode %s: %s n=%d p=%d cats=%s k=%s same=%s" % (clause, e["ty"], len(e["X2"]), len(e["X2"][0]), cs, ks,
                                                                   e["X2"] == e["T2"])
    return "mapper %s: %s ctor=%s items=%d distinct=%d" % (clause, e["ty"], e["ctor"], len(e["items"]), len(set(e["items"])))


def build(ctx):
    """ctx.build(), retried: the harness workspace globs c[0-9]* and a crate directory that a
    colleague is just creating (Cargo.toml without src/main.rs) makes cargo refuse the whole
    workspace for a moment; that is not a property of the code under test."""
    import time
    for attempt in range(8):
        try:
            return ctx.build()
        except vlib.ToolError:
            if attempt == 7:
                raise
            time.sleep(15)


def run(ctx):
    build(ctx)
    t = ctx.tier
    replay_in = []
    # ---- design models
    acts = ("Sort", "Validate", "FitRow", "FitEnd", "Repeats", "Offsets", "Zip", "Block", "Copy")
    for cfg in ("OneHotMCfix", "OneHotMCerr"):
        _, prints = ctx.tlc_mc("preproc/OneHotModel.tla", "preproc/%s_%s.cfg" % (cfg, t), must_cover=acts,
                               timeout=1500, keep_prints=True)
        replay_in += [json.loads(p[1]) for p in prints if p[0] == "REPLAY"]
    ctx.tlc_mc("preproc/OneHotModel.tla", "preproc/OneHotMCasbuilt_%s.cfg" % t, must_cover=acts, timeout=1500)
    _, prints = ctx.tlc_mc("preproc/CategoryMapperMC.tla", "preproc/CategoryMapperMC_%s.cfg" % t,
                           must_cover=("FitItem", "FitEnd", "VecBuild", "MapBuild"), keep_prints=True)
    replay_in += [json.loads(p[1]) for p in prints if p[0] == "REPLAY"]
    n_enc = sum(1 for c in replay_in if c["kind"] == "encode")
    n_map = sum(1 for c in replay_in if c["kind"] == "mapper")
    if n_enc < 1000 or n_map < 400 or not any(c["kind"] == "encode" and c["fit"] == "err" for c in replay_in):
        raise vlib.ToolError("too few REPLAY lines parsed from the model runs (%d encode, %d mapper)" % (n_enc, n_map))
    # ---- spec -> impl, impl -> spec
    fin = ctx.path("c18-replay-in.ndjson")
    vlib.write_ndjson(fin, replay_in)
    files = [ctx.path("c18-replay.ndjson"), ctx.path("c18-encode.ndjson"), ctx.path("c18-mapper.ndjson")]
    ctx.harness("replay-spec", fin, files[0])
    ctx.harness("gen-encode", files[1])
    ctx.harness("gen-mapper", files[2])
    events = []
    for f in files:
        events += vlib.read_ndjson(f)
    allf = ctx.path("c18-all.ndjson")
    vlib.write_ndjson(allf, events)
    v, bads = ctx.tlc_trace(TRACE_SPEC[0], TRACE_SPEC[1], allf, must_hit=MUST_HIT, timeout=2400)
    hits = v.get("hits", {})
    ctx.drift = int(hits.get("Drift", 0))
    n_err = sum(1 for c in replay_in if c["kind"] == "encode" and c["fit"] == "err")
    if hits.get("Expect", 0) != 2 * (len(replay_in) - n_err):       # two element types per model input
        raise vlib.ToolError("not every replayed model input came back with its expectation")
    for (l, runid, ev, clause) in bads:
        e = events[l - 1]
        ctx.report(key_of(e, clause), "%s fails on %s" % (clause, key_of(e, clause)), [e])
    bad_lines = set(b[0] for b in bads)
    # ---- evidence (measurement only)
    nt, classes, ok_nontrivial = set(), set(), 0
    for i, e in enumerate(events):
        if e["ev"] == "Encode":
            c, non = enc_class(e)
            classes.add(c)
            if non and e["X2"] == e["T2"]:
                nt.add(c)
                if (i + 1) not in bad_lines and e["status"] == "ok":
                    ok_nontrivial += 1
        else:
            if len(set(e["items"])) < len(e["items"]) or any(p not in e["items"] for p in e["probes"]):
                nt.add((e["ctor"], e["ty"], tuple(e["items"])))
    if ok_nontrivial < 200:
        raise vlib.ToolError("vacuous run: only %d non-trivial layouts were accepted by IsOneHot" % ok_nontrivial)
    ctx.evaluations = len(events)
    ctx.traces = len(events)
    ctx.extra["layout_classes"] = len(classes)
    ctx.extra["nontrivial_layout_events_accepted"] = ok_nontrivial
    ctx.extra["events_in_known_defect_class"] = sum(1 for b in bads if b[3].endswith("@asbuilt-offset"))
    ctx.extra["replayed_model_inputs"] = {"encode": n_enc, "mapper": n_map}
    ctx.extra["not_covered"] = ["values within the crate's 0.001 margin of an integer (statement and margin disagree)",
                                "transform of a different matrix whose categorical values were all seen (statement silent; counted as Unconstrained)",
                                "invert_one_hot of vectors that are not one-hot, positional vectors / maps with duplicates (statement silent)",
                                "category codes above 65535 or negative (outside the documented u16 domain)"]
    s = [e for e in events if e["ev"] == "Encode" and e["hasExpect"] and len(e["X2"][0]) == 3 and sorted(e["cats"]) == [0, 2]][:1]
    s += [e for e in events if e["ev"] == "Encode" and e["fit"] == "err"][:1]
    s += [e for e in events if e["ev"] == "Encode" and e["status"] == "err"][:1]
    s += [e for e in events if e["ev"] == "Mapper" and e["ctor"] == "fit" and len(e["items"]) >= 4 and e["ty"] == "string"][:1]
    ctx.samples = s
    ctx.assumptions = ["matrix entries are multiples of 1/2 and are recorded doubled (exact)",
                       "categorical codes are integers in 0..65535; non-integer test values are code + 1/2",
                       "categorical index lists are duplicate-free and in range",
                       "the sign of a zero is recorded separately (positions of -0.0 in the transformed and the returned matrix)",
                       "String categories are 's<n>'; the harness maps them back to n"]
    exhaustive = True  # the configured finite layout / history spaces are enumerated completely by TLC and replayed
    return ctx.finish(RULE, len(nt), exhaustive=exhaustive,
                      explanation="exhaustive refers to the TLC-enumerated layouts/histories (every one replayed through the "
                                  "real code on both element types); the random part is sampled")


def replay(ctx, path):
    d = json.load(open(path))
    build(ctx)
    fin = ctx.path("replay-in.ndjson")
    fout = ctx.path("replay-out.ndjson")
    vlib.write_ndjson(fin, d["events"])
    ctx.harness("replay-file", fin, fout)          # re-execute the recorded inputs on the current tree
    v, bads = ctx.tlc_trace(TRACE_SPEC[0], TRACE_SPEC[1], fout)
    for b in bads:
        print("REPLAY-BAD", b)
    return 1 if bads else 0
